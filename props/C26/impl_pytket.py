"""C26 implementation side.  stdin: {"cases": [case...]}, case =
  {"qregs": [[name, size]...], "cregs": [[name, size]...], "symbols": [name...],
   "meta_order": [name...] (order in which the MOCK conversion lists the parameters),
   "arrays": bool, "stub": null | {"src": "def stub(...) -> ...: ..."}}
stdout: {"results": [...]}, one per case:
  {"pytket": {...registers as pytket reports them...}, "sig": {"inputs": [[type, inout]...], "output": type},
   "wiring": {"call_args": [...], "outputs": [[...]...]} | {"err": ...}, "stub_accepted": bool | null}

_signature_from_circuit and the stub comparison (RawPytketDef.parse) run for REAL on real pytket
circuits.  compile_outer needs `tket.circuit.Tk2Circuit`, which does not exist in this sandbox: it is
MOCKED by a HUGR function of the right arity (qubits, bits, floats -> qubits, bits) that passes its
inputs through and lists the parameters in `meta_order` in its "TKET1.input_parameters" metadata.
Because tools/repo_shim gives hugr Node a stand-in `metadata` property, the harness copies the
metadata of inserted nodes into that stand-in (bridge below).  The tracer reads, from the HUGR of the
outer function only, which outer input reaches which argument of the call and which call output
reaches which outer output."""
import importlib.util
import json
import sys
import traceback
import types

import repo_shim
import hugr.hugr.base as hb
from hugr import ops, tys as ht
from hugr.build.function import Module
from hugr.package import Package
from hugr.std.float import FLOAT_T
from sympy import Symbol

import pytket
from pytket import Circuit


CONVERSIONS = []   # one record per conversion the mock performed: the circuit AS HANDED to it


def describe(c):
    return {"commands": [str(cmd) for cmd in c.get_commands()],
            "q_registers": [[r.name, r.size] for r in c.q_registers],
            "c_registers": [[r.name, r.size] for r in c.c_registers],
            "n_qubits": c.n_qubits, "n_bits": c.n_bits,
            "symbols": sorted(str(s) for s in c.free_symbols())}


def order_by_mode(names, mode):
    names = sorted(names)
    if mode == "rev":
        return names[::-1]
    if mode == "rot" and names:
        return names[1:] + names[:1]
    return names


class Tk2Circuit:
    meta_order = None
    meta_mode = None     # histories: order derived from the circuit handed to the conversion

    def __init__(self, circ):
        self.c = circ

    def to_bytes(self, config):
        c = self.c
        names = sorted(str(s) for s in c.free_symbols())
        if Tk2Circuit.meta_mode is not None:
            order = order_by_mode(names, Tk2Circuit.meta_mode)
        else:
            order = list(Tk2Circuit.meta_order) if Tk2Circuit.meta_order is not None else names
        assert sorted(order) == names, (order, names)
        CONVERSIONS.append({**describe(c), "meta_order": order})
        ins = [ht.Qubit] * c.n_qubits + [ht.Bool] * c.n_bits + [FLOAT_T] * len(names)
        outs = [ht.Qubit] * c.n_qubits + [ht.Bool] * c.n_bits
        m = Module()
        f = m.define_function(f"circ#{len(CONVERSIONS) - 1}", ins, outs)
        f.set_outputs(*f.inputs()[: len(outs)])
        if names:
            m.hugr[f.parent_node].metadata["TKET1.input_parameters"] = order
        m.hugr.entrypoint = f.parent_node
        return Package([m.hugr]).to_bytes(config)


_mod = types.ModuleType("tket.circuit")
_mod.Tk2Circuit = Tk2Circuit
sys.modules["tket.circuit"] = _mod
import tket  # noqa: E402

tket.circuit = _mod

_orig_insert = hb.Hugr.insert_hugr


def _insert_hugr(self, other, *a, **k):
    mapping = _orig_insert(self, other, *a, **k)
    for old, new in mapping.items():
        md = other[old].metadata.as_dict()
        if md:
            repo_shim._MD[new.idx] = dict(md)
    return mapping


hb.Hugr.insert_hugr = _insert_hugr

from guppylang import guppy  # noqa: E402
from guppylang_internals.definition.pytket_circuits import _signature_from_circuit  # noqa: E402
from guppylang_internals.engine import ENGINE  # noqa: E402
from guppylang_internals.error import GuppyError  # noqa: E402
from guppylang_internals.tys.ty import InputFlags  # noqa: E402

CIRCS = {}


def build(case):
    """registers (default `Circuit(n, m)` ones and/or named ones), stray units `Qubit(name, i)` / `Bit(name, i)`
    (gaps, registers not starting at 0), renamed units, blank wires removed"""
    from pytket import Bit, Qubit
    d = case.get("default")
    c = Circuit(d[0], d[1]) if d else Circuit()
    for n, s in case["qregs"]:
        c.add_q_register(n, s)
    for n, s in case["cregs"]:
        c.add_c_register(n, s)
    for n, i in case.get("stray_q", []):
        c.add_qubit(Qubit(n, i))
    for n, i in case.get("stray_b", []):
        c.add_bit(Bit(n, i))
    if case.get("rename") and c.qubits:
        c.rename_units({c.qubits[0]: Qubit("renamed", 5)})
    allq, allb = list(c.qubits), list(c.bits)
    blank = set(case.get("blank_q", [])) if case.get("remove_blank") else set()
    live = [q for i, q in enumerate(allq) if i not in blank] or allq[:1]
    for k, s in enumerate(case["symbols"]):
        c.Rz(Symbol(s), live[k % len(live)])
    for q in live:
        c.H(q)
    for k, b in enumerate(allb):
        if k % 2 == 0:
            c.Measure(live[k % len(live)], b)
    if case.get("remove_blank"):
        c.remove_blank_wires()
    return c


STUB_KINDS = ["exact", "exact", "drop_in", "extra_q", "swap", "owned", "bool_count", "int_out", "float_param", "none_out"]


def make_stub(kind, r1, r2, nq, nb, npar):
    """a stub signature as data + source, relative to the circuit's ACTUAL unit counts: the right one or a mutation"""
    ins = [[["q"], True]] * nq + [[["a"], False]] * npar
    outs = [["b"]] * nb
    ins, outs = [list(map(lambda x: x, i)) for i in ins], list(outs)
    if kind == "drop_in" and ins:
        ins.pop(r1 % len(ins))
    elif kind == "extra_q":
        ins.insert(0, [["q"], True])
    elif kind == "swap" and nq and npar:
        ins = ins[nq:] + ins[:nq]
    elif kind == "owned" and nq:
        ins[r1 % nq] = [["q"], False]
    elif kind == "bool_count":
        outs = outs + [["b"]] if r2 % 2 == 0 or not outs else outs[:-1]
    elif kind == "int_out" and outs:
        outs[r1 % len(outs)] = ["o", 0]
    elif kind == "float_param" and npar:
        ins[nq + r1 % npar] = [["o", 1], False]
    elif kind == "none_out":
        outs = []

    def py(t):
        return {"q": "qubit", "a": "angle", "b": "bool"}.get(t[0]) or ["int", "float"][t[1] % 2]
    params = [f"p{i}: {'qubit @ owned' if t == ['q'] and not io else py(t)}" for i, (t, io) in enumerate(ins)]
    ret = "None" if not outs else py(outs[0]) if len(outs) == 1 else "tuple[" + ", ".join(py(o) for o in outs) + "]"
    return {"kind": kind, "ins": ins, "outs": outs, "src": f"def stub({', '.join(params)}) -> {ret}: ..."}


class Unsupported(Exception):
    pass


def trace_outer(h, name, case, circ):
    fnode = next(n for n in h.children(h.module_root) if isinstance(h[n].op, ops.FuncDefn) and h[n].op.f_name == name)
    kids = list(h.children(fnode))
    inp = next(k for k in kids if isinstance(h[k].op, ops.Input))
    out = next(k for k in kids if isinstance(h[k].op, ops.Output))
    nq = circ.n_qubits
    env = {}
    if case["arrays"]:
        nreg = len(circ.q_registers)
        for r in range(nreg):
            env[(inp, r)] = ("qarr", r)
        env[(inp, nreg)] = ("parr",)
    else:
        for i in range(nq):
            env[(inp, i)] = ["InQ", i]
        for k in range(len(circ.free_symbols())):
            env[(inp, nq + k)] = ("ang", k)
    call_args = None
    called = None

    def ins(n):
        vals = []
        for i in range(h.num_in_ports(n)):
            srcs = list(h.linked_ports(n.inp(i)))
            if len(srcs) != 1:
                continue
            s = srcs[0]
            vals.append(env.get((s.node, s.offset), ("static", s.node.idx)))
        return vals

    for n in kids:
        if n in (inp, out):
            continue
        op = h[n].op
        tn = type(op).__name__
        try:
            nm = op.name()
        except Exception:  # noqa: BLE001
            nm = tn
        iv = ins(n)
        if tn == "Const":
            continue
        if tn == "LoadConst":
            src = list(h.linked_ports(n.inp(0)))[0].node
            v = h[src].op.val
            env[(n, 0)] = ["CFalse"] if str(v) in ("FALSE", "Unit") or repr(v).startswith("FALSE") or getattr(v, "tag", None) == 0 else ["Const", str(v)]
            continue
        if tn == "UnpackTuple":
            if iv[0][0] != "ang":
                raise Unsupported("unpack of " + str(iv[0]))
            env[(n, 0)] = ["InP", iv[0][1]]
            continue
        if "unpack" in nm:
            src = iv[0]
            cnt = h.num_out_ports(n)
            if src[0] == "qarr":
                size = circ.q_registers[src[1]].size
                for j in range(size):
                    env[(n, j)] = ["InQArr", src[1], j]
            elif src[0] == "parr":
                for j in range(len(circ.free_symbols())):
                    env[(n, j)] = ("ang", j)
            else:
                raise Unsupported("array unpack of " + str(src))
            continue
        if tn == "Call":
            call_args = [v for v in iv if v[0] != "static"]
            tgt = [v for v in iv if v[0] == "static"]
            if tgt:
                tnode = next(x for x in h.children(h.module_root) if x.idx == tgt[0][1])
                called = h[tnode].op.f_name
            for k in range(h.num_out_ports(n)):
                env[(n, k)] = ["Out", k]
            continue
        if nm == "tket.bool.make_opaque":
            env[(n, 0)] = iv[0]
            continue
        if "new_array" in nm:
            env[(n, 0)] = ("arr", iv)
            continue
        raise Unsupported(f"node {tn} {nm}")
    outs = []
    for v in ins(out):
        outs.append(list(v[1]) if isinstance(v, tuple) and v[0] == "arr" else [v])
    return {"call_args": call_args, "outputs": outs, "called": called}


def main():
    req = json.load(sys.stdin)
    results = []
    stub_lines = ["import repo_shim", "from guppylang import guppy", "from guppylang.std.quantum import qubit",
                  "from guppylang.std.angles import angle", "from guppylang.std.array import array", "from guppylang.std.builtins import owned",
                  "import impl_pytket_registry as reg", ""]
    regmod = types.ModuleType("impl_pytket_registry")
    regmod.CIRCS = CIRCS
    sys.modules["impl_pytket_registry"] = regmod
    for k, case in enumerate(req["cases"]):
        CIRCS[k] = build(case)
        if case.get("stub"):
            c = CIRCS[k]
            st = case["stub"]
            if "src" not in st:      # relative description: built from the circuit's real unit counts
                case["stub"] = st = make_stub(st["kind"], st["r1"], st["r2"], c.n_qubits, c.n_bits, len(c.free_symbols()))
            stub_lines.append(f"@guppy.pytket(reg.CIRCS[{k}])")
            stub_lines.append(st["src"].replace("def stub(", f"def stub_{k}("))
            stub_lines.append("")
    with open("c26_stubs.py", "w") as f:
        f.write("\n".join(stub_lines))
    spec = importlib.util.spec_from_file_location("c26_stubs", "c26_stubs.py")
    stubs = importlib.util.module_from_spec(spec)
    sys.modules["c26_stubs"] = stubs
    spec.loader.exec_module(stubs)
    for k, case in enumerate(req["cases"]):
        c = CIRCS[k]
        res = {}
        try:
            flat = [r[i] for r in c.q_registers for i in range(r.size)]
            res["pytket"] = {"q_registers": [[r.name, r.size] for r in c.q_registers],
                             "c_registers": [[r.name, r.size] for r in c.c_registers],
                             "n_qubits": c.n_qubits, "n_bits": c.n_bits,
                             "qubits": [str(q) for q in c.qubits], "bits": [str(b) for b in c.bits],
                             "symbols": sorted(str(s) for s in c.free_symbols()),
                             "registers_flatten_to_qubits": flat == list(c.qubits),
                             "q_registers_sorted": [r.name for r in c.q_registers] == sorted(r.name for r in c.q_registers)}
            sig = _signature_from_circuit(c, None, case["arrays"])
            res["sig"] = {"inputs": [[str(i.ty), InputFlags.Inout in i.flags] for i in sig.inputs], "output": str(sig.output)}
        except Exception as e:  # noqa: BLE001
            res["sig_err"] = f"{type(e).__name__}: {e}"
        try:
            repo_shim._MD.clear()
            Tk2Circuit.meta_order = case["meta_order"]
            name = f"circ_{k}"
            d = guppy.load_pytket(name, c, use_arrays=case["arrays"])
            h = d.compile_function().modules[0]
            res["wiring"] = trace_outer(h, name, case, c)
        except Unsupported as e:
            res["wiring"] = {"unsupported": str(e)}
        except Exception as e:  # noqa: BLE001
            res["wiring"] = {"err": f"{type(e).__name__}: {e}", "tb": traceback.format_exc()[-1200:]}
        res["stub_accepted"] = None
        res["stub"] = case.get("stub")
        if case.get("stub"):
            try:
                getattr(stubs, f"stub_{k}").check()
                res["stub_accepted"] = True
            except GuppyError as e:
                res["stub_accepted"] = False
                res["stub_error"] = type(e.error).__name__
            except Exception as e:  # noqa: BLE001
                res["stub_accepted"] = f"crash: {type(e).__name__}: {e}"
        results.append(res)
    json.dump({"results": results, "histories": [run_history(hi, h) for hi, h in enumerate(req.get("histories", []))]}, sys.stdout)


def mutate(c, kind, tag):
    """in-place change of a live circuit object"""
    qs = list(c.qubits)
    if kind == "gates":
        c.X(qs[-1])
        if len(qs) > 1:
            c.CZ(qs[-1], qs[0])
        else:
            c.H(qs[0])
    elif kind == "qreg":
        r = c.add_q_register(f"n{tag}", 1 + tag % 2)
        c.H(r[0])
    elif kind == "creg":
        r = c.add_c_register(f"k{tag}", 1)
        c.Measure(qs[0], r[0])
    elif kind == "param":
        c.Rz(Symbol(f"s{tag}"), qs[tag % len(qs)])
    else:
        raise ValueError(kind)


def run_history(hi, ops_):
    """ops: ["new", slot, case] | ["copy", slot, from] | ["mutate", slot, kind] | ["load", name, slot, arrays]
            | ["compile", name, meta_mode].  One record per op."""
    slots, defs, out = {}, {}, []
    for oi, op in enumerate(ops_):
        rec = {"op": op[0]}
        try:
            if op[0] == "new":
                slots[op[1]] = build(op[2])
                rec["contents"] = describe(slots[op[1]])
            elif op[0] == "copy":
                slots[op[1]] = slots[op[2]].copy()
                rec["contents"] = describe(slots[op[1]])
            elif op[0] == "mutate":
                mutate(slots[op[1]], op[2], oi)
                rec["contents"] = describe(slots[op[1]])
            elif op[0] == "load":
                name = f"h{hi}_{op[1]}"
                defs[op[1]] = (name, guppy.load_pytket(name, slots[op[2]], use_arrays=op[3]), op[2], op[3])
            elif op[0] == "compile":
                name, d, slot, arrays = defs[op[1]]
                c = slots[slot]
                rec["current"] = describe(c)        # ground truth: the live object right now
                repo_shim._MD.clear()
                Tk2Circuit.meta_mode = op[2]
                n_before = len(CONVERSIONS)
                try:
                    h = d.compile_function().modules[0]
                finally:
                    Tk2Circuit.meta_mode = None
                w = trace_outer(h, name, {"arrays": arrays}, c)
                rec["wiring"] = {"call_args": w["call_args"], "outputs": w["outputs"]}
                rec["conversions_run"] = len(CONVERSIONS) - n_before
                k = int(w["called"].split("#")[1]) if w["called"] and "#" in w["called"] else None
                rec["body"] = CONVERSIONS[k] if k is not None else None      # what the body that is CALLED was converted from
                sig = ENGINE.get_parsed(d.id).ty if hasattr(ENGINE, "get_parsed") else None
                rec["sig"] = {"inputs": [[str(i.ty), InputFlags.Inout in i.flags] for i in sig.inputs], "output": str(sig.output)} if sig is not None else None
        except Unsupported as e:
            rec["unsupported"] = str(e)
        except Exception as e:  # noqa: BLE001
            rec["err"] = f"{type(e).__name__}: {e}"
            rec["tb"] = traceback.format_exc()[-800:]
        out.append(rec)
    return out


main()
