"""C26 — loaded pytket circuits: index algebra of the wrapper (X tie, hand-written model).

1. re-check coq/C26/Props.v (perm_correct, call_wiring, outputs_bits_then_qubits, arrays_repacked,
   signature_counts, stub_accepted_iff);
2. generate small pytket circuits (registers added in random order, symbolic parameters, bits),
   with and without arrays, a random metadata order for the parameters and, without arrays, a
   declared stub that is either the matching one or a mutation;
3. implementation (props/C26/impl_pytket.py): real _signature_from_circuit, real stub check,
   compile_outer against a mock of tket.circuit.Tk2Circuit, wiring read from the HUGR;
4. model (Coq, vm_compute): sig_of, accepts, call_args, outputs on the same data; compare;
5. independently of the model, check every traced wiring against the property's wording
   (k-th user angle reaches the k-th smallest name, bits before qubits, registers in order)."""
import json
import re

import vlib
from vlib import proof_coverage

LEVEL = "other"
STUB_KINDS = ["exact", "exact", "drop_in", "extra_q", "swap", "owned", "bool_count", "int_out", "float_param", "none_out"]
QNAMES = ["q", "a", "b", "anc", "z", "data", "q2", "B"]
CNAMES = ["c", "m", "out", "r"]
SYMS = ["alpha", "beta", "gamma", "a", "b", "a1", "a10", "a2", "theta", "Z", "x_1", "phi"]


def gen_case(r, force_arrays=None, stray=False):
    nq = r.randint(1, 3)
    qregs = [[n, r.randint(1, 3)] for n in r.sample(QNAMES, nq)]
    cregs = [[n, r.randint(1, 2)] for n in r.sample(CNAMES, r.randint(0, 2))]
    syms = r.sample(SYMS, r.choice([0, 0, 1, 2, 3, 4]))
    meta = list(syms)
    r.shuffle(meta)
    arrays = r.random() < 0.5 if force_arrays is None else force_arrays
    case = {"qregs": qregs, "cregs": cregs, "symbols": syms, "meta_order": meta, "arrays": arrays, "stub": None}
    if not arrays and stray and r.random() < 0.5:
        # units outside the registers pytket reports: the FLAT form must still offer one qubit per element of
        # circuit.qubits and one bool per element of circuit.bits (the array form is only defined per register)
        if r.random() < 0.5:
            case["default"] = [r.randint(1, 4), r.randint(0, 2)]
            case["qregs"] = [x for x in qregs if x[0] != "q"][: r.randint(0, 2)]
            case["cregs"] = [x for x in cregs if x[0] != "c"]
        names_q = [n for n in ["anc", "w", "q9", "aa"] if n not in [x[0] for x in case["qregs"]]]
        names_b = [n for n in ["flag", "f2", "bb"] if n not in [x[0] for x in case["cregs"]]]
        sq, sb = set(), set()
        for _ in range(r.randint(0, 3)):
            sq.add((r.choice(names_q), r.choice([0, 1, 2, 5])))
        for _ in range(r.randint(0, 2)):
            sb.add((r.choice(names_b), r.choice([0, 2, 3])))
        case["stray_q"], case["stray_b"] = sorted(map(list, sq)), sorted(map(list, sb))
        case["rename"] = r.random() < 0.25
        if r.random() < 0.4:
            case["remove_blank"] = True
            case["blank_q"] = sorted(r.sample(range(8), r.randint(1, 3)))
    return case


def gty_py(t):
    k = t[0]
    if k == "q":
        return "qubit"
    if k == "a":
        return "angle"
    if k == "b":
        return "bool"
    if k == "o":
        return ["int", "float"][t[1] % 2]
    raise ValueError(t)


def make_stub(r, case):
    """a stub signature as data + source; the right one or a mutation"""
    nq = sum(s for _, s in case["qregs"])
    nb = sum(s for _, s in case["cregs"])
    npar = len(case["symbols"])
    ins = [(("q",), True)] * nq + [(("a",), False)] * npar
    outs = [("b",)] * nb
    kind = r.choice(["exact", "exact", "drop_in", "extra_q", "swap", "owned", "bool_count", "int_out", "float_param", "none_out"])
    ins, outs = list(ins), list(outs)
    if kind == "drop_in" and ins:
        ins.pop(r.randrange(len(ins)))
    elif kind == "extra_q":
        ins.insert(0, (("q",), True))
    elif kind == "swap" and nq and npar:
        ins = ins[nq:] + ins[:nq]
    elif kind == "owned" and nq:
        i = r.randrange(nq)
        ins[i] = (("q",), False)
    elif kind == "bool_count":
        outs = outs + [("b",)] if r.random() < 0.5 or not outs else outs[:-1]
    elif kind == "int_out" and outs:
        outs[r.randrange(len(outs))] = ("o", 0)
    elif kind == "float_param" and npar:
        ins[nq + r.randrange(npar)] = (("o", 1), False)
    elif kind == "none_out":
        outs = []
    params = []
    for i, (t, inout) in enumerate(ins):
        ty = gty_py(t)
        if t == ("q",) and not inout:
            ty = "qubit @ owned"
        params.append(f"p{i}: {ty}")
    ret = "None" if not outs else gty_py(outs[0]) if len(outs) == 1 else "tuple[" + ", ".join(gty_py(o) for o in outs) + "]"
    pre = ""
    src = f"def stub({', '.join(params)}) -> {ret}: ..."
    if "@ owned" in src:
        src = src  # `owned` is imported in the stub module preamble below
    return {"kind": kind, "ins": ins, "outs": outs, "src": src}


# --------------------------------------------------------------------------- Coq side
def coq_gty(t):
    return {"q": "GQubit", "a": "GAngle", "b": "GBool"}.get(t[0]) or f"(GOther {t[1]}%nat)"


def coq_case(case, pyt):
    """the circuit as the wiring code sees it: register sizes as pytket REPORTS them, names -> ranks"""
    rank = {n: i for i, n in enumerate(sorted(case["symbols"]))}
    if case["arrays"]:
        qs, cs = [s for _, s in pyt["q_registers"]], [s for _, s in pyt["c_registers"]]
    else:   # the flat form only sees UNITS: one size-1 register per element of circuit.qubits / circuit.bits
        qs, cs = [1] * len(pyt["qubits"]), [1] * len(pyt["bits"])
    q = "[" + "; ".join(map(str, qs)) + "]%nat"
    c = "[" + "; ".join(map(str, cs)) + "]%nat"
    m = "[" + "; ".join(f"{10 * rank[n] + 3}%Z" for n in case["meta_order"]) + "]"
    circ = f"(mkCirc {q} {c} {m})"
    arr = "true" if case["arrays"] else "false"
    if case.get("stub"):
        st = case["stub"]
        ins = "[" + "; ".join(f"({coq_gty(t)}, {'true' if io else 'false'})" for t, io in st["ins"]) + "]"
        outs = "[" + "; ".join(coq_gty(t) for t in st["outs"]) + "]"
        acc = f"accepts {arr} {circ} (mkSig {ins} (row_to_type {outs}))"
    else:
        acc = "true"
    return f"(map encw (call_args {arr} {circ}), map (map encw) (outputs {arr} {circ}), encs (sig_of {arr} {circ}), {acc})"


COQ_HEADER = """From Coq Require Import List ZArith Bool.
From V.C26 Require Import Model.
Import ListNotations. Open Scope Z_scope.
Definition N (n : nat) : Z := Z.of_nat n.
Definition encw (w : wire) : list Z :=
  match w with InQ i => [0; N i; 0] | InQArr r j => [1; N r; N j] | InP k => [2; N k; 0]
             | CFalse => [3; 0; 0] | Out k => [4; N k; 0] | Missing => [5; 0; 0] end.
Fixpoint enct (t : gty) : list Z :=
  match t with GQubit => [0] | GAngle => [1] | GBool => [2] | GArr e n => [3] ++ enct e ++ [N n]
             | GTuple ts => [4; N (length ts)] ++ flat_map enct ts | GNone => [5] | GOther k => [6; N k] end.
Definition encs (s : sig) : list (list Z) * list Z :=
  (map (fun i : gty * bool => enct (fst i) ++ [if snd i then 1 else 0]) (s_inputs s), enct (s_output s)).
"""


def enc_type_str(s):
    s = s.strip()
    if s == "qubit":
        return [0]
    if s == "angle":
        return [1]
    if s == "bool":
        return [2]
    if s == "None":
        return [5]
    m = re.fullmatch(r"array\[(.*), (\d+)\]", s)
    if m:
        return [3] + enc_type_str(m.group(1)) + [int(m.group(2))]
    if s.startswith("(") and s.endswith(")"):
        parts = [p for p in re.split(r",\s*(?![^\[]*\])", s[1:-1]) if p]
        return [4, len(parts)] + [x for p in parts for x in enc_type_str(p)]
    return [6, 999]


def encw_py(w):
    k = w[0]
    return {"InQ": lambda: [0, w[1], 0], "InQArr": lambda: [1, w[1], w[2]], "InP": lambda: [2, w[1], 0],
            "CFalse": lambda: [3, 0, 0], "Out": lambda: [4, w[1], 0]}.get(k, lambda: [9, 0, 0])()


def spec_sig(case, pyt):
    """the property's wording: flat form = one borrowed qubit per element of circuit.qubits, one angle per symbol,
    one bool per element of circuit.bits; array form = one array per reported register (+ one angle array)"""
    npar = len(case["symbols"])

    def row(ts):
        return [5] if not ts else ts[0] if len(ts) == 1 else [4, len(ts)] + [x for t in ts for x in t]
    if case["arrays"]:
        ins = [[3, 0, s, 1] for _, s in pyt["q_registers"]] + ([[3, 1, npar, 0]] if npar else [])
        return [ins, row([[3, 2, s] for _, s in pyt["c_registers"]])]
    return [[[0, 1]] * len(pyt["qubits"]) + [[1, 0]] * npar, row([[2]] * len(pyt["bits"]))]


def spec_accepts(stub, pyt, npar):
    return stub["ins"] == [[["q"], True]] * len(pyt["qubits"]) + [[["a"], False]] * npar and stub["outs"] == [["b"]] * len(pyt["bits"])


def spec_wiring(case, pyt):
    """the property's wording, straight from the circuit data (independent of the Coq model)"""
    nq, nb = pyt["n_qubits"], pyt["n_bits"]
    if case["arrays"]:
        qs = [[1, r, j] for r, (_, s) in enumerate(pyt["q_registers"]) for j in range(s)]
    else:
        qs = [[0, i, 0] for i in range(nq)]
    lex = sorted(case["symbols"])
    params = [[2, lex.index(name), 0] for name in case["meta_order"]]   # user's k-th angle <-> k-th smallest name
    call = qs + [[3, 0, 0]] * nb + params
    bits = [[4, nq + i, 0] for i in range(nb)]
    qouts = [[4, i, 0] for i in range(nq)]
    if case["arrays"]:
        outs, pos = [], 0
        for _, s in pyt["c_registers"]:
            outs.append(bits[pos:pos + s])
            pos += s
        pos = 0
        for _, s in pyt["q_registers"]:
            outs.append(qouts[pos:pos + s])
            pos += s
    else:
        outs = [[w] for w in bits + qouts]
    return call, outs


def generate(ctx):
    import tr_state
    text, inf = tr_state.translate(ctx.int_src("definition/pytket_circuits.py"))
    ctx.gen("GenState.v", text)
    return inf


# --------------------------------------------------------------------------- histories over circuit objects
def gen_history(r):
    """load -> compile -> change the SAME object in place -> load again -> compile, the same unmodified object
    twice, a .copy(), two objects with equal contents, a change between load and compile.  Every definition is
    compiled exactly once."""
    base = gen_case(r)
    base.pop("stub", None)
    ops, slots, pending, nname = [["new", "s0", base]], ["s0"], [], 0
    mode = r.choice(["lex", "rev", "rot"])

    def load(slot):
        nonlocal nname
        nm = f"f{nname}"
        nname += 1
        ops.append(["load", nm, slot, r.random() < 0.5])
        pending.append(nm)

    def compile_some(all_=False):
        while pending and (all_ or r.random() < 0.8):
            ops.append(["compile", pending.pop(r.randrange(len(pending))), mode])

    load("s0")
    compile_some(True)                                   # first load + compile of the object
    for _ in range(r.randint(2, 5)):
        k = r.random()
        slot = r.choice(slots)
        if k < 0.45:
            ops.append(["mutate", slot, r.choice(["gates", "gates", "qreg", "creg", "param"])])
            load(slot)
        elif k < 0.6:
            load(slot)                                   # same unmodified object again
        elif k < 0.75:
            new = f"s{len(slots)}"
            ops.append(["copy", new, slot])
            slots.append(new)
            load(new)
        elif k < 0.85:
            new = f"s{len(slots)}"
            ops.append(["new", new, base])               # a different object with the original contents
            slots.append(new)
            load(new)
        else:
            load(slot)                                   # change between load and compile
            ops.append(["mutate", slot, r.choice(["gates", "param", "qreg"])])
        compile_some()
    compile_some(True)
    return {"mode": mode, "ops": ops}


def order_by_mode(names, mode):
    names = sorted(names)
    return names[::-1] if mode == "rev" else (names[1:] + names[:1]) if mode == "rot" and names else names


def coq_contents(desc, mode, gate_ids):
    rank = {n: i for i, n in enumerate(sorted(desc["symbols"]))}
    q = "[" + "; ".join(str(s) for _, s in desc["q_registers"]) + "]%nat"
    c = "[" + "; ".join(str(s) for _, s in desc["c_registers"]) + "]%nat"
    m = "[" + "; ".join(f"{10 * rank[n] + 3}%Z" for n in order_by_mode(desc["symbols"], mode)) + "]"
    g = "[" + "; ".join(f"{gate_ids.setdefault(x, len(gate_ids))}%Z" for x in desc["commands"]) + "]"
    return f"(mkContents (mkCirc {q} {c} {m}) {g})"


HIST_HEADER = COQ_HEADER.replace("From V.C26 Require Import Model.", "From V.C26 Require Import Model History GenState.") + """
Definition encr (r : option result) :=
  match r with
  | None => ([], [], ([], []), ([], ([], [])))
  | Some x => (map encw (r_call x), map (map encw) (r_outs x), encs (r_sig x),
               (k_gates (r_body x), (map N (q_regs (k_circ (r_body x))) ++ [-1] ++ map N (c_regs (k_circ (r_body x))), meta (k_circ (r_body x)))))
  end.
"""


def coq_history(hist, recs, gate_ids):
    slot_id, def_id, ops = {}, {}, []
    for op, rec in zip(hist["ops"], recs):
        if op[0] in ("new", "copy", "mutate"):
            o = slot_id.setdefault(op[1], len(slot_id))
            ops.append(f"HSet {o} {coq_contents(rec['contents'], hist['mode'], gate_ids)}")
        elif op[0] == "load":
            n = def_id.setdefault(op[1], len(def_id))
            ops.append(f"HLoad {n} {slot_id[op[2]]} {'true' if op[3] else 'false'}")
        else:
            ops.append(f"HCompile {def_id[op[1]]}")
    return "map encr (run gen_cached init [" + "; ".join(ops) + "]%nat)"


def parse_model(out):
    import ast as _ast
    m = re.search(r"=\s(.*?)\n\s+: list", out, re.S)
    if not m:
        raise RuntimeError("cannot parse model output: " + out[-400:])
    txt = re.sub(r"%(Z|nat|N)\b", "", m.group(1)).replace(";", ",").replace("true", "True").replace("false", "False")
    return _ast.literal_eval(re.sub(r"\s+", " ", txt))


def run(ctx):
    _orig_report, _seen = ctx.report, {}

    def _capped(key, kind, name, detail, found_input=True):
        cat = key.split(":", 1)[0]
        _seen[cat] = _seen.get(cat, 0) + 1
        if _seen[cat] <= 3 or ctx.is_known(key) is not None:      # at most 3 replays per category of failure
            _orig_report(key, kind, name, detail, found_input)
    ctx.report = _capped
    scan = generate(ctx)
    info = ctx.coq_props()
    r = vlib.rng(ctx.seed, "C26")
    hr = vlib.rng(ctx.seed, "C26-histories")
    histories = [gen_history(hr) for _ in range(30 if ctx.quick else 250)]
    hcorpus = ctx.dir / "corpus"
    if hcorpus.exists():
        for f in sorted(hcorpus.glob("history_*.json")):
            histories.insert(0, json.loads(f.read_text()))
    n = 120 if ctx.quick else 1200
    cases = []
    corpus = ctx.dir / "corpus"
    if corpus.exists():
        for f in sorted(corpus.glob("case_*.json")):
            cases.append(json.loads(f.read_text()))
    for _ in range(n):
        c = gen_case(r, stray=True)
        if not c["arrays"] and r.random() < 0.7:
            c["stub"] = {"kind": r.choice(STUB_KINDS), "r1": r.randrange(1000), "r2": r.randrange(1000)}
        cases.append(c)
    payload = {"cases": cases}
    # the stub module needs `owned`
    payload["histories"] = [h["ops"] for h in histories]
    impl_all = json.loads(ctx.impl("impl_pytket.py", payload))
    impl, himpl = impl_all["results"], impl_all["histories"]
    for c_, res_ in zip(cases, impl):
        if c_.get("stub"):
            c_["stub"] = res_.get("stub") or None      # built by the harness from the circuit's real unit counts
    model = None
    usable = [k for k, res in enumerate(impl) if "pytket" in res]
    if info["ok"] or (vlib.COQ / "C26" / "Model.vo").exists():
        try:
            files = {}
            for ci in range(0, len(usable), 200):
                ks = usable[ci:ci + 200]
                body = COQ_HEADER + "Definition outs := [\n" + ";\n".join(coq_case(cases[k], impl[k]["pytket"]) for k in ks) + "].\nEval vm_compute in outs.\n"
                files[f"c{ci}"] = body
            outs = ctx.coq_eval_many(files)
            model = {}
            for ci in range(0, len(usable), 200):
                vals = parse_model(outs[f"c{ci}"])
                for k, v in zip(usable[ci:ci + 200], vals):
                    model[k] = v
        except RuntimeError as e:
            ctx.notes.append("model evaluation failed: " + str(e)[-500:])
            model = None
    stats = {"cases": len(cases), "sig_compared": 0, "wiring_traced": 0, "stubs": 0, "stubs_accepted": 0, "stubs_rejected": 0,
             "arrays": 0, "with_params": 0, "nonidentity_param_perm": 0, "unsupported": 0, "mismatch": 0,
             "stub_kinds": {}}
    distinct = set()

    def conv(x):
        return json.loads(json.dumps(x))

    for k, (case, res) in enumerate(zip(cases, impl)):
        desc = {"case": {kk: vv for kk, vv in case.items() if kk != "stub"}, "stub": case["stub"]["src"] if case.get("stub") else None}
        replay = ("cd /verif && echo '{\"cases\": [<this case with stub as {\"src\": ...}>]}' | PYTHONPATH=tools:<repo>/guppylang/src:"
                  "<repo>/guppylang-internals/src /venv/bin/python props/C26/impl_pytket.py")
        if "pytket" not in res:
            ctx.report(f"sig-crash:{json.dumps(desc, sort_keys=True)}", "counterexample", "_signature_from_circuit failed",
                       {**desc, "error": res.get("sig_err"), "replay": replay})
            continue
        pyt = res["pytket"]
        stray_units = sum(s_ for _, s_ in pyt["q_registers"]) != len(pyt["qubits"]) or sum(s_ for _, s_ in pyt["c_registers"]) != len(pyt["bits"])
        stats["stray_unit_circuits"] = stats.get("stray_unit_circuits", 0) + bool(stray_units)
        if case["arrays"] and stray_units:
            ctx.report("arrays-stray-units:" + json.dumps(desc["case"], sort_keys=True), "counterexample",
                       "load_pytket(use_arrays=True) on a circuit with units outside the registers pytket reports: the stray units are "
                       "matched to nothing (signature and unpacking go by q_registers/c_registers, the call needs n_qubits/n_bits wires)",
                       {**desc, "pytket": pyt, "signature": res.get("sig"), "wiring": res.get("wiring"), "replay": replay})
            continue
        real_sig = [[enc_type_str(t) + [1 if io else 0] for t, io in res["sig"]["inputs"]], enc_type_str(res["sig"]["output"])]
        if real_sig != spec_sig(case, pyt):
            stats["mismatch"] += 1
            ctx.report(f"sig-wording:{json.dumps(desc, sort_keys=True)}", "counterexample",
                       "inferred signature is not 'one qubit per circuit qubit, one angle per symbol, one bool per circuit bit'",
                       {**desc, "circuit_qubits": pyt["qubits"], "circuit_bits": pyt["bits"], "pytket": pyt, "real_signature": res["sig"],
                        "expected_encoded": spec_sig(case, pyt), "real_encoded": real_sig, "replay": replay})
        if case.get("stub") and res["stub_accepted"] is not spec_accepts(case["stub"], pyt, len(case["symbols"])):
            stats["mismatch"] += 1
            ctx.report(f"stub-wording:{json.dumps(desc, sort_keys=True)}", "counterexample",
                       "stub acceptance differs from 'accepted iff it has one qubit per circuit qubit, one angle per symbol, one bool per circuit bit'",
                       {**desc, "circuit_qubits": pyt["qubits"], "circuit_bits": pyt["bits"], "real": res["stub_accepted"],
                        "error": res.get("stub_error"), "inferred_signature": res["sig"], "replay": replay})
        if case["arrays"] and not (pyt["registers_flatten_to_qubits"] and pyt["q_registers_sorted"]):
            ctx.report(f"pytket-order:{json.dumps(desc, sort_keys=True)}", "counterexample",
                       "pytket does not report the qubit registers in lexicographic order / registers do not flatten to circ.qubits",
                       {**desc, "pytket": pyt})
        stats["arrays"] += bool(case["arrays"])
        stats["with_params"] += bool(case["symbols"])
        stats["nonidentity_param_perm"] += case["meta_order"] != sorted(case["meta_order"])
        # --- signature: real vs model
        impl_sig = [[enc_type_str(t) + [1 if io else 0] for t, io in res["sig"]["inputs"]], enc_type_str(res["sig"]["output"])]
        spec_call, spec_outs = spec_wiring(case, pyt)
        w = res.get("wiring", {})
        if "unsupported" in w:
            stats["unsupported"] += 1
            ctx.notes.append("tracer unsupported: " + w["unsupported"])
        elif "err" in w:
            ctx.report(f"compile:{json.dumps(desc, sort_keys=True)}", "counterexample", "compile_outer failed against the mocked conversion",
                       {**desc, "error": w["err"], "traceback": w.get("tb"), "replay": replay})
        else:
            stats["wiring_traced"] += 1
            got_call = [encw_py(x) for x in w["call_args"]]
            got_outs = [[encw_py(x) for x in grp] for grp in w["outputs"]]
            distinct.add(json.dumps([got_call, got_outs]))
            if got_call != spec_call or got_outs != spec_outs:
                stats["mismatch"] += 1
                ctx.report(f"wiring:{json.dumps(desc, sort_keys=True)}", "counterexample",
                           "wrapper wiring differs from the documented matching (registers in order, k-th angle -> k-th smallest name, bits then qubits)",
                           {**desc, "pytket": pyt, "expected_call_args": spec_call, "traced_call_args": got_call,
                            "expected_outputs": spec_outs, "traced_outputs": got_outs,
                            "encoding": "[0,i,0]=i-th qubit arg; [1,r,j]=element j of register array r; [2,k,0]=user's k-th angle; [3,0,0]=false; [4,k,0]=k-th output of the circuit call",
                            "replay": replay})
            if model is not None and k in model:
                m_call, m_outs, m_sig, m_acc = conv(model[k])
                if m_call != got_call or m_outs != got_outs:
                    stats["mismatch"] += 1
                    ctx.report(f"model-wiring:{json.dumps(desc, sort_keys=True)}", "correspondence", "Coq model of compile_outer differs from the real wiring",
                               {**desc, "model_call_args": m_call, "traced_call_args": got_call, "model_outputs": m_outs, "traced_outputs": got_outs})
        if model is not None and k in model:
            m_call, m_outs, m_sig, m_acc = conv(model[k])
            stats["sig_compared"] += 1
            if [list(m_sig[0]), list(m_sig[1])] != impl_sig:
                stats["mismatch"] += 1
                ctx.report(f"sig:{json.dumps(desc, sort_keys=True)}", "counterexample",
                           "_signature_from_circuit differs from the model (one borrowed qubit per qubit / array per register, one angle per symbol, one bool per bit)",
                           {**desc, "pytket": pyt, "real_signature": res["sig"], "model_signature_encoded": m_sig, "real_signature_encoded": impl_sig, "replay": replay})
            if case.get("stub"):
                stats["stubs"] += 1
                kind = case["stub"]["kind"]
                stats["stub_kinds"][kind] = stats["stub_kinds"].get(kind, 0) + 1
                acc = res["stub_accepted"]
                stats["stubs_accepted"] += acc is True
                stats["stubs_rejected"] += acc is False
                if acc is not m_acc:
                    stats["mismatch"] += 1
                    ctx.report(f"stub:{json.dumps(desc, sort_keys=True)}", "counterexample",
                               "stub acceptance differs from 'accepted iff its signature equals the circuit's'",
                               {**desc, "pytket": pyt, "real": acc, "error": res.get("stub_error"), "expected_accept": m_acc,
                                "inferred_signature": res["sig"], "replay": replay})
    # ------------------------------------------------------------------ histories
    hstats = {"histories": len(histories), "compiles": 0, "compiles_after_inplace_change": 0, "same_object_again": 0,
              "copies": 0, "stale_or_wrong": 0, "errors": 0, "model_compared": 0}
    hmodel = None
    gate_ids = {}
    if (vlib.COQ / "C26" / "History.vo").exists() and (vlib.COQ / "C26" / "GenState.vo").exists():
        try:
            ok_h = [i for i, recs in enumerate(himpl) if all("contents" in rc for op, rc in zip(histories[i]["ops"], recs) if op[0] in ("new", "copy", "mutate"))]
            files = {}
            for ci in range(0, len(ok_h), 60):
                ks = ok_h[ci:ci + 60]
                files[f"h{ci}"] = HIST_HEADER + "Definition outs := [\n" + ";\n".join(coq_history(histories[i], himpl[i], gate_ids) for i in ks) + "].\nEval vm_compute in outs.\n"
            outs = ctx.coq_eval_many(files)
            hmodel = {}
            for ci in range(0, len(ok_h), 60):
                for i, v in zip(ok_h[ci:ci + 60], parse_model(outs[f"h{ci}"])):
                    hmodel[i] = v
        except RuntimeError as e:
            ctx.notes.append("history model evaluation failed: " + str(e)[-500:])
    for i, (hist, recs) in enumerate(zip(histories, himpl)):
        seen_compile_of, changed_since = {}, {}
        slot_of = {}
        for j, (op, rec) in enumerate(zip(hist["ops"], recs)):
            hdesc = {"history": hist["ops"][:j + 1], "parameter_order_of_mock": hist["mode"], "step": j}
            hreplay = ("cd /verif && echo '{\"cases\": [], \"histories\": [<the history above>]}' | VERIF_REPO=<repo> PYTHONPATH=tools:<repo>/guppylang/src:"
                       "<repo>/guppylang-internals/src /venv/bin/python props/C26/impl_pytket.py   (compare \"body\" with \"current\" of the last compile)")
            if "err" in rec or "unsupported" in rec:
                hstats["errors"] += 1
                ctx.report(f"history-error:{json.dumps(hdesc, sort_keys=True)}", "counterexample",
                           "a load/compile history over a circuit object fails although each step is valid on its own",
                           {**hdesc, "error": rec.get("err") or rec.get("unsupported"), "traceback": rec.get("tb"), "replay": hreplay})
                break
            if op[0] == "load":
                slot_of[op[1]] = (op[2], op[3])
            if op[0] == "mutate":
                changed_since[op[1]] = True
            if op[0] == "copy":
                hstats["copies"] += 1
            if op[0] != "compile":
                continue
            slot, arrays = slot_of[op[1]]
            hstats["compiles"] += 1
            if slot in seen_compile_of:
                hstats["compiles_after_inplace_change" if changed_since.get(slot) else "same_object_again"] += 1
            seen_compile_of[slot] = True
            changed_since[slot] = False
            cur, body = rec["current"], rec["body"]
            case_now = {"arrays": arrays, "symbols": cur["symbols"], "meta_order": order_by_mode(cur["symbols"], hist["mode"])}
            s_call, s_outs = spec_wiring(case_now, cur)
            got_call = [encw_py(x) for x in rec["wiring"]["call_args"]]
            got_outs = [[encw_py(x) for x in grp] for grp in rec["wiring"]["outputs"]]
            body_core = {k: body[k] for k in ("commands", "q_registers", "c_registers", "symbols")} if body else None
            cur_core = {k: cur[k] for k in ("commands", "q_registers", "c_registers", "symbols")}
            distinct.add(json.dumps([got_call, got_outs, cur_core["commands"]]))
            if body_core != cur_core or got_call != s_call or got_outs != s_outs:
                hstats["stale_or_wrong"] += 1
                ctx.report(f"history:{json.dumps(hdesc, sort_keys=True)}", "counterexample",
                           "after this history the compiled function does not reflect the circuit object's contents at compile time",
                           {**hdesc, "circuit_now": cur_core, "body_called_was_converted_from": body_core,
                            "expected_call_args": s_call, "traced_call_args": got_call, "expected_outputs": s_outs, "traced_outputs": got_outs,
                            "signature": rec.get("sig"), "replay": hreplay})
            if hmodel is not None and i in hmodel:
                m_call, m_outs, m_sig, m_body = conv(hmodel[i][j])
                hstats["model_compared"] += 1
                impl_sig = [[enc_type_str(t) + [1 if io else 0] for t, io in rec["sig"]["inputs"]], enc_type_str(rec["sig"]["output"])]
                impl_body = [[gate_ids.get(x, -5) for x in body["commands"]],
                             [[s_ for _, s_ in body["q_registers"]] + [-1] + [s_ for _, s_ in body["c_registers"]],
                              [10 * sorted(body["symbols"]).index(n_) + 3 for n_ in body["meta_order"]]]] if body else None
                if m_call != got_call or m_outs != got_outs or [list(m_sig[0]), list(m_sig[1])] != impl_sig or \
                        [list(m_body[0]), [list(m_body[1][0]), list(m_body[1][1])]] != impl_body:
                    hstats["stale_or_wrong"] += 1
                    ctx.report(f"history-model:{json.dumps(hdesc, sort_keys=True)}", "counterexample",
                               "loader state machine (no state between compiles) and the real loader disagree on this history",
                               {**hdesc, "model": {"call": m_call, "outputs": m_outs, "sig": m_sig, "body": m_body},
                                "real": {"call": got_call, "outputs": got_outs, "sig": impl_sig, "body": impl_body},
                                "circuit_now": cur_core, "body_called_was_converted_from": body_core, "replay": hreplay})
    if hmodel is None:
        ctx.report("history-model-unavailable", "correspondence", "loader state machine could not be evaluated", {"notes": ctx.notes[-3:]}, found_input=False)
    if scan["state"] and not ctx.violations:
        ctx.report("module-state:" + ",".join(scan["state"]), "proof-broken", "loader_has_no_module_state",
                   {"module_level_state_found": scan["state"], "histories_searched": len(histories),
                    "meaning": "pytket_circuits.py now keeps state between compiles; no history distinguishing it from the stateless loader was found"},
                   found_input=False)
    if not info["ok"] and not ctx.violations:
        ctx.report("proof-broken:" + str(info["failed"]), "proof-broken", str(info["failed"]),
                   {"coq_error": vlib.CoqResult(False, info["log"]).error_excerpt(), "searched_cases": len(cases)}, found_input=False)
    if model is None:
        ctx.report("model-unavailable", "correspondence", "model side could not be evaluated", {"notes": ctx.notes}, found_input=False)
    if stats["wiring_traced"] < 0.8 * len(cases):
        ctx.report("tie-too-thin", "correspondence", "too few cases could be traced through compile_outer", {"stats": stats, "notes": ctx.notes[:5]}, found_input=False)
    cov = proof_coverage(
        info, "make -f Makefile.C26 C26/Props.vo && coqc C26/Props.v (Print Assumptions)",
        ["Coq 8.16.1 kernel; no axioms",
         "hand-written model coq/C26/Model.v of compile_outer / _signature_from_circuit (X tie only, not translated)",
         "props/C26/impl_pytket.py: MOCK of tket.circuit.Tk2Circuit (pass-through HUGR function + TKET1.input_parameters), metadata bridge for the shim's Node.metadata, HUGR tracer",
         "pytket 2.18.1: q_registers / c_registers / free_symbols / circ.qubits ordering; parameter names abstracted to their rank",
         "NOT claimed: the action of the converted circuit (tket), i.e. the first sentence of the property beyond wire matching"],
        explanation=("Index algebra of the wrapper only. Theorems (all metadata orders, all register shapes): perm_correct, call_wiring, "
                     "outputs_bits_then_qubits, arrays_repacked, signature_counts, stub_accepted_iff. Tie: real _signature_from_circuit and real stub "
                     "check on generated pytket circuits; compile_outer against a mock of Tk2Circuit (real conversion not importable here) with the "
                     "call wiring read from the HUGR, compared with the model and, independently, with the property's wording."),
        evaluations=len(cases) + hstats["compiles"], distinct_nontrivial=len(distinct),
        rule="seeded random circuits: 1-3 qubit registers (names added in random order, sizes 1-3), 0-2 bit registers, 0-4 symbols with a random "
             "metadata order, arrays on/off, stubs exact or mutated (10 kinds); distinct/non-trivial = distinct traced (call arguments, outputs) wirings",
        traces_validated_against_impl=stats["wiring_traced"] + hstats["compiles"], stats=stats, history_stats=hstats, module_state_scan=scan,
        samples=[{"case": cases[j], "impl": impl[j]} for j in (0, len(cases) // 2, len(cases) - 1)], notes=ctx.notes[:10])
    return ctx.finish(LEVEL, cov, ["Tk2Circuit orders the converted function's ports as circ.qubits, circ.bits, then the listed parameters (mock does)",
                                   "pytket reports registers in lexicographic order (checked on every generated circuit)",
                                   "the circuit's own action is tket's"])
