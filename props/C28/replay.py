"""Replay one C28 history on the real EmulatorInstance of $VERIF_REPO (default /repo):
    VERIF_REPO=/repo /venv/bin/python props/C28/replay.py '<history json>'
Prints, after every action, what each configuration would hand to the backend
(simulator class code / simulator seed / random_seed argument), and the violations."""
import json
import os
import subprocess
import sys
from pathlib import Path

here = Path(__file__).resolve().parent
sys.path[:0] = [str(here.parent.parent / "tools"), str(here)]
import tr_emu  # noqa: E402
import vlib  # noqa: E402

repo = Path(os.environ.get("VERIF_REPO", "/repo"))
hist = json.loads(sys.argv[1])
_, meta = tr_emu.translate(repo / vlib.SRC_PUB / "emulator/instance.py")
names = [n for n, _ in meta["run_names"]]
p = subprocess.run([vlib.PY, str(here / "impl_emu.py")], input=json.dumps({"histories": [hist[:k] for k in range(1, len(hist) + 1)], "meta": meta}),
                   text=True, capture_output=True, env=vlib.impl_env(repo))
if p.returncode:
    sys.exit(p.stderr)
res = json.loads(p.stdout)
for k, r in enumerate(res):
    print(f"after {hist[k]}:")
    for i, o in enumerate(r.get("final", [])):
        print(f"   c{i}: simulator=(code {o[1]}, random_seed {o[3] if o[2] else None})   full={o}")
print("layout of `full`:", meta["run_names"])
v = res[-1].get("viol", [])
print(f"{len(v)} violation(s)")
for x in v:
    print("  ", json.dumps(x))
sys.exit(1 if v else 0)
