"""Fail-closed translator: guppylang/emulator/instance.py  ->  coq/C28/GenEmu.v

Reads the two frozen dataclasses `_Options` and `EmulatorInstance` and symbolically executes
the straight-line body of every public configuration method (`with_*`, `*_sim`).  Reading:

  * a field annotated with a selene component type (Simulator, Runtime, ErrorModel,
    EventHook) holds a *reference* into the model heap; int/bool/`T | None` fields hold
    values; `_instance` (the SeleneInstance handle, never written by guppylang) is an
    opaque id;
  * `dataclasses.replace(rec, _f=e, ...)` on a configuration record -> functional record update;
  * `self._with_option(**kw)` -> `replace(self, _options=replace(self._options, **kw))`
    (the helper's body is checked to be exactly that);
  * `Quest()` / `Coinflip()` / `Stim()` / default_factory=Cls -> allocation of a new heap object;
  * `copy(x)` / `copy.copy(x)` / `deepcopy(x)` / `replace(x, random_seed=e)` on a heap
    object -> allocation of a new object with the same class and (updated) seed;
  * `<ref expr>.random_seed = e` -> a heap WRITE at that reference (`hset_seed`);
  * `self.other_method(e)` -> call of that method's generated step function;
  * `self.<property>` -> the property's body, inlined.

Anything else (branches, loops, other calls, stores on other attributes, dunder methods,
non-frozen dataclasses, unknown annotations) raises TranslatorError: the tie is broken.
`_run_instance` must be a single `return self._instance.run_shots(k=e, ...)`; its keyword
list becomes the observation function `run_args`.  `run` / `_iterate_shots` are scanned for
stores and unknown calls (they must not write anything)."""
from __future__ import annotations

import ast

from tr_common import HEADER, TranslatorError, decorator_kwargs, find_class, find_func, parse_file, strip_doc

REF_ANN = {"Simulator", "Runtime", "ErrorModel", "EventHook"}
VAL_ANN = {"int": "Z", "bool": "bool", "int | None": "option Z", "datetime.timedelta | None": "option Z",
           "Path | None": "option Z", "SeleneInstance": "Z"}
# class codes shared with the implementation harness (impl_emu.py builds real objects from them)
CLS = {"Quest": 1, "Stim": 2, "Coinflip": 3, "SimpleRuntime": 10, "IdealErrorModel": 20, "NoEventHook": 30}
COPY_FUNCS = {"copy", "copy.copy", "deepcopy", "copy.deepcopy"}
RUN_CALL_WHITELIST = {"self._run_instance", "self._iterate_shots", "QsysShot", "shot_results.append",
                      "all_results.append", "EmulatorError", "EmulatorResult", "cast", "tqdm"}


def _fail(node, why):
    raise TranslatorError(f"instance.py: cannot translate `{ast.unparse(node)[:90]}` (line {getattr(node, 'lineno', '?')}): {why}")


def ann_type(node, ann: str) -> str:
    if ann in REF_ANN:
        return "ref"
    if ann in VAL_ANN:
        return VAL_ANN[ann]
    if ann == "_Options":
        return "opts"
    _fail(node, f"unknown field/parameter annotation {ann!r}")


def lit(v, ty, node):
    """Python constant -> Coq literal of model type ty."""
    if ty == "Z" and isinstance(v, int) and not isinstance(v, bool):
        return f"({v})%Z"
    if ty == "bool" and isinstance(v, bool):
        return "true" if v else "false"
    if ty == "option Z" and v is None:
        return "(@None Z)"
    if ty == "option Z" and isinstance(v, int) and not isinstance(v, bool):
        return f"(Some ({v})%Z)"
    _fail(node, f"constant {v!r} where a {ty} is expected")


class Rec:
    def __init__(self, cls: ast.ClassDef, coq: str, pref: str):
        self.cls, self.coq, self.pref = cls, coq, pref
        kw = decorator_kwargs(cls)
        if kw.get("frozen") is not True:
            raise TranslatorError(f"{cls.name} is no longer @dataclass(frozen=True): instances are mutable")
        for n in cls.body:
            if isinstance(n, (ast.FunctionDef, ast.AsyncFunctionDef)) and n.name.startswith("__"):
                raise TranslatorError(f"{cls.name} defines {n.name}: construction/attribute protocol changed")
        self.fields = []  # (name, type, default-node)
        for n in cls.body:
            if isinstance(n, ast.AnnAssign) and isinstance(n.target, ast.Name):
                self.fields.append((n.target.id, ann_type(n, ast.unparse(n.annotation)), n.value))
            elif isinstance(n, ast.Assign):
                _fail(n, "un-annotated class attribute (shared class-level state)")

    def ftype(self, f):
        for n, t, _ in self.fields:
            if n == f:
                return t
        return None

    def proj(self, f):
        return f"f_{f}"

    def setter(self, f):
        return f"set_{self.pref}_{f}"

    def coq_decl(self):
        out = [f"Record {self.coq} := mk_{self.coq} {{ " + "; ".join(f"{self.proj(n)} : {t}" for n, t, _ in self.fields) + " }."]
        for n, t, _ in self.fields:
            args = " ".join(f"(v)" if m == n else f"({self.proj(m)} x)" for m, _, _ in self.fields)
            out.append(f"Definition {self.setter(n)} (x : {self.coq}) (v : {t}) : {self.coq} := mk_{self.coq} {args}.")
        return "\n".join(out)


class Tr:
    def __init__(self, mod: ast.Module):
        self.mod = mod
        self.opts = Rec(find_class(mod, "_Options"), "opts", "opts")
        self.inst = Rec(find_class(mod, "EmulatorInstance"), "inst", "inst")
        self.recs = {"opts": self.opts, "inst": self.inst}
        if [t for _, t, _ in self.inst.fields].count("opts") != 1 or self.inst.ftype("_options") != "opts":
            raise TranslatorError("EmulatorInstance must have exactly one _Options field named _options")
        if any(t == "opts" for _, t, _ in self.opts.fields):
            raise TranslatorError("_Options nests another _Options")
        self.imported = set()
        for n in mod.body:
            if isinstance(n, ast.ImportFrom):
                self.imported |= {a.asname or a.name for a in n.names}
            elif isinstance(n, ast.Import):
                self.imported |= {(a.asname or a.name).split(".")[0] for a in n.names}
            elif isinstance(n, (ast.Assign, ast.AugAssign, ast.AnnAssign, ast.FunctionDef)):
                _fail(n, "module-level state or function in instance.py (not modelled)")
        self.props = {}
        self.methods = {}
        for n in self.inst.cls.body:
            if isinstance(n, ast.FunctionDef):
                decs = [ast.unparse(d) for d in n.decorator_list]
                if decs == ["property"]:
                    self.props[n.name] = n
                elif decs:
                    _fail(n, f"decorated method {decs}")
                else:
                    self.methods[n.name] = n
            elif isinstance(n, ast.AsyncFunctionDef):
                _fail(n, "async method")
        self.check_with_option()
        self.done = {}      # method name -> (coq def text, param type or None)
        self.order = []
        self.stack = []

    # ------------------------------------------------------------------ helpers
    def check_with_option(self):
        f = self.methods.get("_with_option")
        if f is None:
            self.has_with_option = False
            return
        body = strip_doc(f.body)
        want = "return replace(self, _options=replace(self._options, **kwargs))"
        if len(body) != 1 or ast.unparse(body[0]) != want or f.args.kwarg is None or f.args.kwarg.arg != "kwargs" or len(f.args.args) != 1:
            _fail(f, f"_with_option is no longer `{want}`")
        self.has_with_option = True

    def public_methods(self):
        return [n for n in self.methods if not n.startswith("_") and n != "run"]

    # ------------------------------------------------------------------ symbolic execution
    class Frame:
        def __init__(self):
            self.lines, self.h, self.n, self.env = [], "h", 0, {}

        def fresh(self, base):
            self.n += 1
            return f"{base}{self.n}"

        def new_heap(self, term):
            hv = self.fresh("h")
            self.lines.append(f"let {hv} := {term} in")
            self.h = hv

    def coerce(self, node, term, ty, want):
        if ty == want:
            return term
        if ty.startswith("const:"):
            return lit(ast.literal_eval(ty[6:]), want, node)
        _fail(node, f"value of type {ty} where {want} is expected")

    def alloc(self, fr, objterm):
        r = fr.fresh("r")
        fr.lines.append(f"let {r} := halloc_r {fr.h} in")
        fr.new_heap(f"halloc_h {fr.h} {objterm}")
        return r

    def expr(self, fr, e):
        if isinstance(e, ast.Constant):
            if e.value is None or isinstance(e.value, (bool, int)):
                return "", "const:" + repr(e.value)
            _fail(e, "constant kind")
        if isinstance(e, ast.Name):
            if e.id in fr.env:
                return fr.env[e.id]
            _fail(e, "unknown name")
        if isinstance(e, ast.Attribute):
            t, ty = self.expr(fr, e.value)
            if ty in self.recs:
                rec = self.recs[ty]
                fty = rec.ftype(e.attr)
                if fty is not None:
                    return f"({rec.proj(e.attr)} {t})", fty
                if ty == "inst" and e.attr in self.props:
                    return self.inline_prop(fr, e.attr, t)
                _fail(e, f"unknown attribute on {ty}")
            if ty == "ref" and e.attr == "random_seed":
                return f"(o_seed (hget {fr.h} {t}))", "option Z"
            _fail(e, f"attribute read on a value of type {ty}")
        if isinstance(e, ast.Call):
            return self.call(fr, e)
        _fail(e, f"expression kind {type(e).__name__}")

    def inline_prop(self, fr, name, selfterm):
        f = self.props[name]
        body = strip_doc(f.body)
        if len(body) != 1 or not isinstance(body[0], ast.Return) or body[0].value is None:
            _fail(f, "property body is not a single return")
        if name in self.stack:
            _fail(f, "recursive property")
        self.stack.append(name)
        sub = Tr.Frame()
        sub.h, sub.env = fr.h, {"self": (selfterm, "inst")}
        t, ty = self.expr(sub, body[0].value)
        if sub.lines:
            _fail(f, "property with side effects")
        self.stack.pop()
        return t, ty

    def record_update(self, fr, node, base, bty, kws):
        rec = self.recs[bty]
        t = base
        for k in kws:
            if k.arg is None:
                _fail(node, "** in replace()")
            fty = rec.ftype(k.arg)
            if fty is None:
                _fail(node, f"replace() of unknown field {k.arg}")
            v, vty = self.expr(fr, k.value)
            t = f"({rec.setter(k.arg)} {t} {self.coerce(k.value, v, vty, fty)})"
        return t, bty

    def call(self, fr, e):
        fn = ast.unparse(e.func)
        if fn in ("replace", "dataclasses.replace"):
            if len(e.args) != 1:
                _fail(e, "replace() arity")
            base, bty = self.expr(fr, e.args[0])
            if bty in self.recs:
                return self.record_update(fr, e, base, bty, e.keywords)
            if bty == "ref":
                seed = f"(o_seed (hget {fr.h} {base}))"
                for k in e.keywords:
                    if k.arg != "random_seed":
                        _fail(e, "replace() on a heap object with a field other than random_seed")
                    v, vty = self.expr(fr, k.value)
                    seed = self.coerce(k.value, v, vty, "option Z")
                return self.alloc(fr, f"(obj_with_seed (hget {fr.h} {base}) {seed})"), "ref"
            _fail(e, f"replace() on {bty}")
        if fn in COPY_FUNCS:
            if len(e.args) != 1 or e.keywords or fn.split(".")[0] not in self.imported:
                _fail(e, "copy call shape")
            base, bty = self.expr(fr, e.args[0])
            if bty != "ref":
                _fail(e, f"copy of {bty}")
            return self.alloc(fr, f"(hget {fr.h} {base})"), "ref"
        if fn == "self._with_option":
            if not self.has_with_option or e.args:
                _fail(e, "_with_option call shape")
            st, _ = fr.env["self"]
            o, _ = self.record_update(fr, e, f"(f__options {st})", "opts", e.keywords)
            return f"({self.inst.setter('_options')} {st} {o})", "inst"
        if fn in CLS and fn in self.imported:
            seed = "(@None Z)"
            if e.args:
                _fail(e, "positional constructor argument")
            for k in e.keywords:
                if k.arg != "random_seed":
                    _fail(e, "constructor argument other than random_seed (class code table would be wrong)")
                v, vty = self.expr(fr, k.value)
                seed = self.coerce(k.value, v, vty, "option Z")
            return self.alloc(fr, f"(mkObj cls_{fn} {seed})"), "ref"
        if isinstance(e.func, ast.Attribute) and ast.unparse(e.func.value) == "self" and e.func.attr in self.methods and not e.func.attr.startswith("_") and e.func.attr != "run":
            name = e.func.attr
            pty = self.method(name)
            st, _ = fr.env["self"]
            if e.keywords or len(e.args) != (0 if pty is None else 1):
                _fail(e, "method call arity")
            a = ""
            if pty is not None:
                v, vty = self.expr(fr, e.args[0])
                a = " " + self.coerce(e.args[0], v, vty, pty)
            p = fr.fresh("p")
            fr.lines.append(f"let {p} := m_{name} {fr.h} {st}{a} in")
            fr.new_heap(f"fst {p}")
            return f"(snd {p})", "inst"
        _fail(e, "unknown callee")

    def method(self, name):
        """Translate (memoised) and return the parameter type (None if no parameter)."""
        if name in self.done:
            return self.done[name][1]
        if name in self.stack:
            raise TranslatorError(f"recursive method {name}")
        self.stack.append(name)
        f = self.methods[name]
        a = f.args
        if a.vararg or a.kwarg or a.kwonlyargs or a.posonlyargs or len(a.args) not in (1, 2) or a.args[0].arg != "self":
            _fail(f, "method signature")
        fr = Tr.Frame()
        fr.env["self"] = ("self", "inst")
        pty = None
        if len(a.args) == 2:
            if a.args[1].annotation is None:
                _fail(f, "parameter without annotation")
            pty = ann_type(f, ast.unparse(a.args[1].annotation))
            if pty in self.recs:
                _fail(f, "record-typed parameter")
            fr.env[a.args[1].arg] = ("value", pty)
        result = None
        for s in strip_doc(f.body):
            if result is not None:
                _fail(s, "statement after return")
            if isinstance(s, ast.Return) and s.value is not None:
                t, ty = self.expr(fr, s.value)
                if ty != "inst":
                    _fail(s, f"method returns {ty}, not an EmulatorInstance")
                result = t
            elif isinstance(s, ast.Assign) and len(s.targets) == 1 and isinstance(s.targets[0], ast.Name):
                t, ty = self.expr(fr, s.value)
                if ty.startswith("const:"):
                    _fail(s, "local bound to a bare constant")
                v = fr.fresh("v_" + s.targets[0].id + "_")
                fr.lines.append(f"let {v} := {t} in")
                fr.env[s.targets[0].id] = (v, ty)
            elif isinstance(s, ast.Assign) and len(s.targets) == 1 and isinstance(s.targets[0], ast.Attribute):
                tg = s.targets[0]
                o, oty = self.expr(fr, tg.value)
                if oty != "ref":
                    _fail(s, f"attribute store on a value of type {oty} (frozen record or opaque handle)")
                if tg.attr != "random_seed":
                    _fail(s, "store on a heap-object attribute other than random_seed")
                v, vty = self.expr(fr, s.value)
                fr.new_heap(f"hset_seed {fr.h} {o} {self.coerce(s.value, v, vty, 'option Z')}")
            else:
                _fail(s, "statement kind not supported in a configuration method")
        if result is None:
            _fail(f, "method does not return a configuration")
        sig = f"(h : heap) (self : inst)" + (f" (value : {pty})" if pty else "")
        body = "\n  ".join(fr.lines + [f"({fr.h}, {result})"])
        self.done[name] = (f"Definition m_{name} {sig} : heap * inst :=\n  {body}.", pty)
        self.order.append(name)
        self.stack.pop()
        return pty

    # ------------------------------------------------------------------ run
    def run_args(self):
        f = self.methods.get("_run_instance")
        if f is None:
            raise TranslatorError("_run_instance not found")
        body = strip_doc(f.body)
        if len(body) != 1 or not isinstance(body[0], ast.Return) or not isinstance(body[0].value, ast.Call):
            _fail(f, "_run_instance is not a single return of a call")
        c = body[0].value
        if ast.unparse(c.func) != "self._instance.run_shots" or c.args:
            _fail(c, "backend call is not self._instance.run_shots(keyword=...)")
        fr = Tr.Frame()
        fr.env["self"] = ("self", "inst")
        items, names = [('("<instance>"%string, VZ (f__instance self))')], [("<instance>", "Z")]
        for k in c.keywords:
            if k.arg is None:
                _fail(c, "** in backend call")
            t, ty = self.expr(fr, k.value)
            if fr.lines:
                _fail(c, "backend argument with side effects")
            wrap = {"Z": "VZ {t}", "option Z": "VOptZ {t}", "bool": "VBool {t}", "ref": "VObj (hget h {t})"}.get(ty)
            if wrap is None:
                _fail(k.value, f"backend argument of type {ty}")
            items.append(f'("{k.arg}"%string, {wrap.format(t=t)})')
            names.append((k.arg, ty))
        for name in ("run", "_iterate_shots"):
            g = self.methods.get(name)
            if g is None:
                raise TranslatorError(f"{name} not found")
            for n in ast.walk(g):
                if isinstance(n, (ast.Assign, ast.AugAssign, ast.AnnAssign, ast.Delete)):
                    tgts = n.targets if isinstance(n, (ast.Assign, ast.Delete)) else [n.target]
                    for t in tgts:
                        if not isinstance(t, ast.Name):
                            _fail(n, f"store to a non-local in {name}")
                if isinstance(n, ast.Call) and ast.unparse(n.func) not in RUN_CALL_WHITELIST:
                    _fail(n, f"unknown call in {name} (could write shared state)")
                if isinstance(n, (ast.Global, ast.Nonlocal, ast.With, ast.AsyncWith)):
                    _fail(n, f"statement kind in {name}")
            if name == "run" and "self._run_instance()" not in ast.unparse(g):
                _fail(g, "run() does not call self._run_instance()")
        return "Definition run_args (h : heap) (self : inst) : obs :=\n  [" + ";\n   ".join(items) + "].", names

    # ------------------------------------------------------------------ root construction
    def mk_root(self):
        fr = Tr.Frame()
        vals = {}
        for rec, given in ((self.opts, {}), (self.inst, {"_instance": "instance", "_n_qubits": "n_qubits"})):
            args = []
            for n, t, d in rec.fields:
                if n in given:
                    args.append(given[n])
                elif t == "opts":
                    if d is None or ast.unparse(d) != "field(default_factory=_Options)":
                        _fail(d or rec.cls, "_options default is not field(default_factory=_Options)")
                    args.append(vals["opts"])
                elif d is None:
                    _fail(rec.cls, f"field {n} has no default and is not a constructor argument of the model")
                elif isinstance(d, ast.Constant):
                    args.append(lit(d.value, t, d))
                elif isinstance(d, ast.Call) and ast.unparse(d.func) == "field" and len(d.keywords) == 1 and d.keywords[0].arg == "default_factory" and not d.args:
                    c = ast.unparse(d.keywords[0].value)
                    if t != "ref" or c not in CLS or c not in self.imported:
                        _fail(d, "default_factory is not a known selene component class")
                    args.append(self.alloc(fr, f"(mkObj cls_{c} (@None Z))"))
                else:
                    _fail(d, "field default shape")
            vals[rec.coq] = f"(mk_{rec.coq} " + " ".join(args) + ")"
        body = "\n  ".join(fr.lines + [f"({fr.h}, {vals['inst']})"])
        return f"Definition mk_root (h : heap) (instance n_qubits : Z) : heap * inst :=\n  {body}."

    # ------------------------------------------------------------------ whole file
    def translate(self):
        pubs = self.public_methods()
        for m in pubs:
            self.method(m)
        run_def, run_names = self.run_args()
        out = [HEADER.format(src="guppylang/emulator/instance.py", tool="props/C28/tr_emu.py"),
               "From Coq Require Import ZArith List Bool String.\nFrom V.C28 Require Import ModelBase.\nImport ListNotations.\nOpen Scope Z_scope.\n"]
        out += [f"Definition cls_{c} : Z := {v}." for c, v in CLS.items()]
        out += ["", self.opts.coq_decl(), "", self.inst.coq_decl(), ""]
        # references held by a configuration, and its full content (references observed by value)
        refs, content, ref_paths = [], [], []
        for rec, pre in ((self.inst, "c"), (self.opts, "(f__options c)")):
            for n, t, _ in rec.fields:
                p = f"({rec.proj(n)} {pre})"
                if t == "ref":
                    refs.append(p)
                    ref_paths.append(n if rec is self.inst else f"_options.{n}")
                    content.append(f"VObj (hget h {p})")
                elif t != "opts":
                    content.append({"Z": "VZ", "option Z": "VOptZ", "bool": "VBool"}[t] + " " + p)
        out.append("Definition inst_refs (c : inst) : list ref := [" + "; ".join(refs) + "].")
        out.append("Definition content (h : heap) (c : inst) : list oval :=\n  [" + ";\n   ".join(content) + "].\n")
        out.append(self.mk_root() + "\n")
        out += [self.done[m][0] + "\n" for m in self.order]
        ctors, uses, cases = [], [], []
        for m in pubs:
            pty = self.done[m][1]
            if pty is None:
                ctors.append(f"| M_{m}"); uses.append(f"| M_{m} => false"); cases.append(f"| M_{m} => m_{m} h self")
            elif pty == "ref":
                ctors.append(f"| M_{m}"); uses.append(f"| M_{m} => true"); cases.append(f"| M_{m} => m_{m} h self ra")
            else:
                ctors.append(f"| M_{m} (value : {pty})"); uses.append(f"| M_{m} _ => false"); cases.append(f"| M_{m} v => m_{m} h self v")
        out.append("Inductive meth :=\n" + "\n".join(ctors) + ".\n")
        out.append("Definition meth_uses_ref (m : meth) : bool :=\n  match m with\n  " + "\n  ".join(uses) + "\n  end.\n")
        out.append("(* one derivation: method m applied to configuration self (ra = the reference passed as\n   `value` when the method takes a component object) *)")
        out.append("Definition step (m : meth) (ra : ref) (h : heap) (self : inst) : heap * inst :=\n  match m with\n  " + "\n  ".join(cases) + "\n  end.\n")
        out.append(run_def + "\n")
        unf = [f"m_{m}" for m in self.order] + [r.setter(n) for r in (self.opts, self.inst) for n, _, _ in r.fields]
        out.append("(* for the proofs: everything generated above may be unfolded by `autounfold with emu` *)")
        out.append("#[global] Hint Unfold step mk_root inst_refs content run_args " + " ".join(unf) + " : emu.\n")
        meta = {"methods": [{"name": m, "arg": self.done[m][1]} for m in pubs], "run_names": run_names,
                "ref_paths": ref_paths, "cls": CLS}
        return "\n".join(out), meta


def translate(path):
    return Tr(parse_file(path)).translate()


if __name__ == "__main__":
    import sys
    text, meta = translate(sys.argv[1])
    print(text)
    print("(*", meta, "*)")
