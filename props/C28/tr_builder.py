"""Fail-closed translator: guppylang/emulator/builder.py -> coq/C28/GenBuilder.v

EmulatorBuilder is a frozen dataclass of values (strings, paths, flags, an optional dict
of build arguments).  Every `with_*` method must be made of
    return replace(self, _f=<expr>)      and      if self._f is None: ... else: ...
where <expr> is a parameter, a dict display `{key: value}` or `self._f | {key: value}`
(a NEW dict).  Any store to an attribute or subscript, any mutating dict/list method, any
other call fails closed.  `build` must be `instance = selene_sim.build(package, k=self._f...,
**self._custom_args or {})` followed by `return EmulatorInstance(_instance=instance,
_n_qubits=n_qubits)` (that is the model's ONew); its arguments become `build_args`."""
from __future__ import annotations

import ast

from tr_common import HEADER, TranslatorError, decorator_kwargs, find_class, parse_file, strip_doc

ANN = {"str | None": "option Z", "Path | None": "option Z", "bool": "bool", "BuildPlanner | None": "option Z",
       "Sequence[Utility] | None": "option Z", "QuantumInterface | None": "option Z",
       "dict[str, Any] | None": "option dict", "str": "Z", "Any": "Z"}
MUTATORS = {"update", "setdefault", "pop", "popitem", "clear", "append", "extend", "insert", "remove", "sort",
            "reverse", "__setitem__", "__setattr__", "__delitem__", "setattr", "delattr"}
WRAP = {"Z": "VZ {t}", "option Z": "VOptZ {t}", "bool": "VBool {t}"}


def _fail(node, why):
    raise TranslatorError(f"builder.py: cannot translate `{ast.unparse(node)[:90]}` (line {getattr(node, 'lineno', '?')}): {why}")


def translate(path):
    mod = parse_file(path)
    cls = find_class(mod, "EmulatorBuilder")
    if decorator_kwargs(cls).get("frozen") is not True:
        raise TranslatorError("EmulatorBuilder is no longer @dataclass(frozen=True)")
    for n in mod.body:
        if isinstance(n, (ast.Assign, ast.AugAssign, ast.FunctionDef)) or (isinstance(n, ast.AnnAssign)):
            _fail(n, "module-level state or function in builder.py")
    fields, methods = [], {}
    for n in cls.body:
        if isinstance(n, ast.AnnAssign) and isinstance(n.target, ast.Name):
            a = ast.unparse(n.annotation)
            if a not in ANN:
                _fail(n, f"unknown annotation {a!r}")
            if not isinstance(n.value, ast.Constant):
                _fail(n, "field default is not a constant")
            fields.append((n.target.id, ANN[a], n.value.value))
        elif isinstance(n, ast.FunctionDef):
            if n.name.startswith("__"):
                _fail(n, "dunder method")
            decs = [ast.unparse(d) for d in n.decorator_list]
            if decs not in ([], ["property"]):
                _fail(n, "decorator")
            methods[n.name] = (n, decs == ["property"])
        elif isinstance(n, ast.Assign):
            _fail(n, "class-level state")
    ftype = {n: t for n, t, _ in fields}
    # no method of the class may write anything but locals
    for name, (f, _) in methods.items():
        for n in ast.walk(f):
            if isinstance(n, (ast.Assign, ast.AugAssign, ast.AnnAssign, ast.Delete)):
                tg = n.targets if isinstance(n, (ast.Assign, ast.Delete)) else [n.target]
                if any(not isinstance(t, ast.Name) for t in tg):
                    _fail(n, f"store to a non-local in {name}")
            if isinstance(n, ast.Call) and isinstance(n.func, (ast.Attribute, ast.Name)) and (n.func.attr if isinstance(n.func, ast.Attribute) else n.func.id) in MUTATORS:
                _fail(n, f"mutating call in {name}")
            if isinstance(n, (ast.Global, ast.Nonlocal)):
                _fail(n, "global")

    def lit(v, t):
        if t == "bool" and isinstance(v, bool):
            return "true" if v else "false"
        if t.startswith("option") and v is None:
            return "None"
        raise TranslatorError(f"builder default {v!r} : {t}")

    def setter(n):
        return f"bset_{n}"

    out = [HEADER.format(src="guppylang/emulator/builder.py", tool="props/C28/tr_builder.py"),
           "From Coq Require Import ZArith List Bool String.\nFrom V.C28 Require Import ModelBase.\nImport ListNotations.\nOpen Scope Z_scope.\n"]
    out.append("Record bcfg := mk_bcfg { " + "; ".join(f"b{n} : {t}" for n, t, _ in fields) + " }.")
    for n, t, _ in fields:
        args = " ".join("(v)" if m == n else f"(b{m} x)" for m, _, _ in fields)
        out.append(f"Definition {setter(n)} (x : bcfg) (v : {t}) : bcfg := mk_bcfg {args}.")
    out.append("Definition b_default : bcfg := mk_bcfg " + " ".join(lit(d, t) for _, t, d in fields) + ".\n")

    def expr(e, env):
        if isinstance(e, ast.Name) and e.id in env:
            return env[e.id]
        if isinstance(e, ast.Attribute) and ast.unparse(e) in env:
            return env[ast.unparse(e)]
        if isinstance(e, ast.Attribute) and ast.unparse(e.value) == "self" and e.attr in ftype:
            return f"(b{e.attr} self)", ftype[e.attr]
        if isinstance(e, ast.Dict) and len(e.keys) == 1 and e.keys[0] is not None:
            (k, kt), (v, vt) = expr(e.keys[0], env), expr(e.values[0], env)
            if (kt, vt) != ("Z", "Z"):
                _fail(e, "dict display types")
            return f"[({k}, {v})]", "dict"
        if isinstance(e, ast.BinOp) and isinstance(e.op, ast.BitOr):
            (a, ta), (b, tb) = expr(e.left, env), expr(e.right, env)
            if (ta, tb) != ("dict", "dict"):
                _fail(e, f"`|` on {ta}, {tb} (None | dict raises)")
            return f"(dict_or {a} {b})", "dict"
        _fail(e, "expression not supported")

    def body(stmts, env):
        stmts = strip_doc(stmts)
        if len(stmts) != 1:
            _fail(stmts[0] if stmts else cls, "method body is not a single return / if")
        s = stmts[0]
        if isinstance(s, ast.Return) and isinstance(s.value, ast.Call) and ast.unparse(s.value.func) == "replace":
            c = s.value
            if len(c.args) != 1 or ast.unparse(c.args[0]) != "self":
                _fail(s, "replace() not on self")
            t = "self"
            for k in c.keywords:
                if k.arg not in ftype:
                    _fail(s, "replace() of unknown field")
                v, vt = expr(k.value, env)
                want = ftype[k.arg]
                if vt == want:
                    pass
                elif want == "option " + vt:
                    v = f"(Some {v})"
                else:
                    _fail(s, f"replace({k.arg}=...) with a {vt}")
                t = f"({setter(k.arg)} {t} {v})"
            return t
        if isinstance(s, ast.If) and s.orelse and isinstance(s.test, ast.Compare) and len(s.test.ops) == 1 and isinstance(s.test.ops[0], ast.Is) \
                and ast.unparse(s.test.comparators[0]) == "None" and ast.unparse(s.test.left).startswith("self.") and ast.unparse(s.test.left)[5:] in ftype:
            f = ast.unparse(s.test.left)[5:]
            if not ftype[f].startswith("option "):
                _fail(s, "`is None` on a non-optional field")
            env2 = dict(env)
            env2["self." + f] = ("d", ftype[f][7:])
            return f"(match b{f} self with None => {body(s.body, env)} | Some d => {body(s.orelse, env2)} end)"
        _fail(s, "statement not supported in a builder method")

    meths, ctors, cases = [], [], []
    for name, (f, is_prop) in methods.items():
        if is_prop or name == "build":
            continue
        if name.startswith("_"):
            _fail(f, "private helper (not modelled)")
        a = f.args
        if a.vararg or a.kwarg or a.kwonlyargs or a.args[0].arg != "self":
            _fail(f, "signature")
        env, sig, ptys = {}, "", []
        for p in a.args[1:]:
            ann = ast.unparse(p.annotation) if p.annotation else "?"
            if ann not in ANN or ANN[ann] == "option dict":
                _fail(f, f"parameter annotation {ann!r}")
            env[p.arg] = (p.arg, ANN[ann])
            sig += f" ({p.arg} : {ANN[ann]})"
            ptys.append(ANN[ann])
        out.append(f"Definition b_{name} (self : bcfg){sig} : bcfg := {body(f.body, env)}.")
        meths.append({"name": name, "args": ptys})
        ctors.append(f"| B_{name}" + "".join(f" (a{i} : {t})" for i, t in enumerate(ptys)))
        cases.append(f"| B_{name}" + "".join(f" a{i}" for i in range(len(ptys))) + f" => b_{name} self" + "".join(f" a{i}" for i in range(len(ptys))))
    out.append("\nInductive bmeth :=\n" + "\n".join(ctors) + ".")
    out.append("Definition bstep (m : bmeth) (self : bcfg) : bcfg :=\n  match m with\n  " + "\n  ".join(cases) + "\n  end.\n")
    # build
    f = methods.get("build", (None,))[0]
    if f is None or [x.arg for x in f.args.args] != ["self", "package", "n_qubits"]:
        raise TranslatorError("EmulatorBuilder.build signature changed")
    st = strip_doc(f.body)
    if len(st) != 2 or not isinstance(st[0], ast.Assign) or ast.unparse(st[0].targets[0]) != "instance" or not isinstance(st[0].value, ast.Call) \
            or ast.unparse(st[0].value.func) != "selene_sim.build" or ast.unparse(st[1]) != "return EmulatorInstance(_instance=instance, _n_qubits=n_qubits)":
        _fail(f, "build body shape")
    c = st[0].value
    if [ast.unparse(x) for x in c.args] != ["package"]:
        _fail(c, "positional arguments of selene_sim.build")
    items, names = ['("<package>"%string, VZ package)'], [["<package>", "Z"]]
    for k in c.keywords:
        if k.arg is None:
            if ast.unparse(k.value) != "self._custom_args or {}":
                _fail(c, "** argument")
            items.append('("**"%string, VDict (match b_custom_args self with Some d => d | None => [] end))')
            names.append(["**", "dict"])
        else:
            v, vt = expr(k.value, {})
            if vt not in WRAP:
                _fail(k.value, "argument type")
            items.append(f'("{k.arg}"%string, {WRAP[vt].format(t=v)})')
            names.append([k.arg, vt])
    out.append("Definition build_args (self : bcfg) (package : Z) : obs :=\n  [" + ";\n   ".join(items) + "].\n")
    return "\n".join(out), {"methods": meths, "build_names": names, "fields": [[n, t] for n, t, _ in fields]}


if __name__ == "__main__":
    import sys
    t, m = translate(sys.argv[1])
    print(t); print(m)
