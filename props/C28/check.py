"""C28 — emulator configurations are immutable and reproducible.   Tie: T + X.

1. T: regenerate coq/C28/GenEmu.v from guppylang/emulator/instance.py (records, one step
   function per with_*/..._sim method, root construction, the observation function of run());
   builder.py is scanned by the same fail-closed rules (tr_builder.py -> GenBuilder.v).
2. re-check coq/C28/Props.v: derive_pure, run_reproducible, run_same_every_time (all
   histories, induction over fold_left) against the regenerated step functions.
3. X: corpus + systematic two-step histories + seeded random histories are run on the real
   EmulatorBuilder/EmulatorInstance with a recording fake backend and on the model
   (vm_compute); run log, final observation of every configuration and the observation of
   every isolated chain replay are compared.
4. failing-input search (always on): on the implementation alone, every configuration is
   re-observed after every later operation (derive_pure) and compared with the isolated
   replay of its own chain (reproducible).  The shortest violating history is the replay."""
import json

import vlib
from vlib import proof_coverage

LEVEL = "proof"
SRC = "emulator/instance.py"
SRC_B = "emulator/builder.py"

USER_CODES = {"with_simulator": [1, 2, 3, 4, 5], "with_runtime": [10, 11], "with_error_model": [20, 21],
              "with_event_hook": [30, 31, 32]}
ALL_CODES = [c for v in USER_CODES.values() for c in v]


def generate(ctx):
    import tr_builder
    import tr_emu
    text, meta = tr_emu.translate(ctx.pub_src(SRC))
    ctx.gen("GenEmu.v", text)
    btext, bmeta = tr_builder.translate(ctx.pub_src(SRC_B))
    ctx.gen("GenBuilder.v", btext)
    meta["builder"] = bmeta
    return meta


# ---------------------------------------------------------------------------------- histories

def scalar_for(r, m):
    name, ty = m["name"], m["arg"]
    if ty == "Z":
        return r.choice([0, 1, 2, 3, 5, 100])
    if ty == "bool":
        return r.choice([True, False])
    if ty == "option Z":
        if name == "with_timeout":
            return r.choice([None, 1000000, 2500000])
        return r.choice([None, 0, 1, 2, 3, 42])
    return None


def gen_history(r, meta, n_ops):
    methods = meta["methods"]
    weights = [6 if m["name"] == "with_seed" else 3 if m["arg"] == "ref" or m["arg"] is None else 1 for m in methods]
    h, ncfg, users = [["new", r.randrange(1, 9), r.randrange(1, 6)]], 1, []
    for _ in range(n_ops):
        x = r.random()
        if x < 0.05:
            h.append(["new", r.randrange(1, 9), r.randrange(1, 6)]); ncfg += 1
        elif x < 0.13:
            users.append(r.choice(ALL_CODES))
            h.append(["alloc", users[-1], r.choice([None, None, 4, 5])])
        elif x < 0.30:
            h.append(["run", r.randrange(ncfg)])
        else:
            m = r.choices(methods, weights)[0]
            src = r.choice([0, ncfg - 1, r.randrange(ncfg), r.randrange(ncfg)])
            a = None
            if m["arg"] == "ref":
                # well-typed arguments only: a simulator where a Simulator is expected, ...
                codes = USER_CODES.get(m["name"], ALL_CODES)
                leafs = [p.split(".")[-1] for p in meta["ref_paths"]]
                y = r.random()
                if y < 0.45 and "_" + m["name"][5:] in leafs:   # the user passes a component another configuration holds
                    a = ["field", r.randrange(ncfg), leafs.index("_" + m["name"][5:])]
                else:
                    mine = [k for k, c in enumerate(users) if c in codes]
                    if not mine or y > 0.8:
                        users.append(r.choice(codes))
                        h.append(["alloc", users[-1], r.choice([None, None, 4, 5])])
                        a = ["user", len(users) - 1]
                    else:
                        a = ["user", r.choice(mine)]
            h.append(["derive", src, m["name"], scalar_for(r, m), a]); ncfg += 1
    return h


def systematic(meta):
    """new; a = e.m1(); b = (a|e).m2(); run a, run e — over one instance of every method."""
    insts = []
    for m in meta["methods"]:
        if m["arg"] == "ref":
            insts.append((m["name"], None, "user"))
        elif m["arg"] is None:
            insts.append((m["name"], None, None))
        elif m["arg"] == "bool":
            insts.append((m["name"], True, None))
        elif m["name"] == "with_timeout":
            insts.append((m["name"], 1000000, None))
        else:
            insts.append((m["name"], 3, None))
            if m["name"] == "with_seed":
                insts.append((m["name"], None, None))
    out = []
    for m1 in insts:
        for m2 in insts:
            for src2 in (0, 1):
                h, nuser = [["new", 1, 2]], 0
                for (name, sc, a), src in ((m1, 0), (m2, src2)):
                    arg = None
                    if a == "user":
                        h.append(["alloc", USER_CODES.get(name, ALL_CODES)[-1], 4]); arg = ["user", nuser]; nuser += 1
                    h.append(["derive", src, name, sc, arg])
                h += [["run", 1], ["run", 0]]
                out.append(h)
    return out


def coq_meth(meta, name, sc):
    ty = {m["name"]: m["arg"] for m in meta["methods"]}[name]
    if ty is None or ty == "ref":
        return f"M_{name}"
    if ty == "Z":
        return f"(M_{name} ({sc}))"
    if ty == "bool":
        return f"(M_{name} {'true' if sc else 'false'})"
    return f"(M_{name} {'None' if sc is None else f'(Some ({sc}))'})"


def coq_hist(meta, h):
    items = []
    for op in h:
        if op[0] == "alloc":
            items.append(f"OAlloc (mkObj ({op[1]}) {'None' if op[2] is None else f'(Some ({op[2]}))'})")
        elif op[0] == "new":
            items.append(f"ONew ({op[1]}) ({op[2]})")
        elif op[0] == "run":
            items.append(f"ORun {op[1]}%nat")
        else:
            _, src, name, sc, a = op
            arg = "ANone" if a is None else f"(AUser {a[1]}%nat)" if a[0] == "user" else f"(AField {a[1]}%nat {a[2]}%nat)"
            items.append(f"ODerive {src}%nat {coq_meth(meta, name, sc)} {arg}")
    return "[" + "; ".join(items) + "]"


def coq_cases(meta, hists, full=False):
    return "\n".join([
        "From Coq Require Import ZArith List.", "From V.C28 Require Import ModelBase GenEmu ModelHist.",
        "Import ListNotations. Open Scope Z_scope.",
        "Definition hists : list (list op) := [", ";\n".join(coq_hist(meta, h) for h in hists), "].",
        "Eval vm_compute in map (fun h => let w := exec h w0 in " +
        ("(enc_world w, enc_chains w)" if full else "[cksum (fst (enc_world w)); cksum (snd (enc_world w)); cksum (enc_chains w)]") + ") hists."])


CK_P = 2305843009213693951


def cksum(table):
    acc = 17
    for row in table:
        a = (acc * 31 + 1) & CK_P
        for z in row:
            a = (a * 8191 + z + 7) & CK_P
        acc = a
    return acc


def gen_bhistory(r, bmeta, n_ops):
    h, n = [["bnew"]], 1
    for _ in range(n_ops):
        x = r.random()
        if x < 0.08:
            h.append(["bnew"]); n += 1
        elif x < 0.3:
            h.append(["bbuild", r.randrange(n), r.randrange(1, 50)])
        else:
            m = r.choices(bmeta["methods"], [4 if len(m["args"]) == 2 else 1 for m in bmeta["methods"]])[0]
            args = []
            for t in m["args"]:
                args.append(r.choice([True, False]) if t == "bool" else r.choice([None, 1, 2, 3]) if t == "option Z" else r.randrange(1, 4) if not args else r.randrange(1, 90))
            h.append(["bderive", r.choice([0, n - 1, r.randrange(n)]), m["name"], args]); n += 1
    return h


def coq_bcases(bmeta, hists):
    def val(t, v):
        if t == "bool":
            return "true" if v else "false"
        if t == "option Z":
            return "None" if v is None else f"(Some ({v}))"
        return f"({v})"
    tys = {m["name"]: m["args"] for m in bmeta["methods"]}
    def one(h):
        items = []
        for op in h:
            if op[0] == "bnew":
                items.append("BNew")
            elif op[0] == "bbuild":
                items.append(f"BBuild {op[1]}%nat ({op[2]})")
            else:
                items.append(f"BDerive {op[1]}%nat (B_{op[2]} " + " ".join(val(t, v) for t, v in zip(tys[op[2]], op[3])) + ")")
        return "[" + "; ".join(items) + "]"
    return "\n".join(["From Coq Require Import ZArith List.", "From V.C28 Require Import ModelBase GenBuilder ModelBuilder.",
                      "Import ListNotations. Open Scope Z_scope.",
                      "Definition hists : list (list bop) := [", ";\n".join(one(h) for h in hists), "].",
                      "Eval vm_compute in map (fun h => let e := enc_bworld (bexec h bw0) in [cksum (fst e); cksum (snd e)]) hists."])


def program_text(h):
    """A copy-pasteable Python program for a history (what the replay runs)."""
    ctor = {1: "Quest()", 2: "Stim()", 3: "Coinflip()", 4: "Coinflip(bias=0.25)", 5: "Stim(angle_threshold=0.01)", 10: "SimpleRuntime()",
            11: "SoftRZRuntime()", 20: "IdealErrorModel()", 21: "DepolarizingErrorModel(p_1q=0.125)", 30: "NoEventHook()",
            31: "CircuitExtractor()", 32: "MetricStore()"}
    fields = ["simulator", "runtime", "error_model", "_options._event_hook"]
    lines, nc, nu = [], 0, 0
    for op in h:
        if op[0] == "alloc":
            lines.append(f"u{nu} = {ctor[op[1]]}" + (f"; u{nu}.random_seed = {op[2]}" if op[2] is not None else "")); nu += 1
        elif op[0] == "new":
            lines.append(f"c{nc} = EmulatorInstance(_instance=backend, _n_qubits={op[2]})"); nc += 1
        elif op[0] == "run":
            lines.append(f"c{op[1]}.run()   # look at backend.run_shots.call_args.kwargs['simulator'].random_seed etc.")
        else:
            _, src, name, sc, a = op
            arg = "" if a is None and sc is None and name.endswith("_sim") else repr(sc)
            if a is not None:
                arg = f"u{a[1]}" if a[0] == "user" else f"c{a[1]}.{fields[a[2]] if a[2] < len(fields) else a[2]}"
            if name == "with_timeout" and sc is not None:
                arg = f"datetime.timedelta(microseconds={sc})"
            lines.append(f"c{nc} = c{src}.{name}({arg})"); nc += 1
    return lines


# ---------------------------------------------------------------------------------- run

def run(ctx):
    tr_error = None
    try:
        meta = generate(ctx)
        info = ctx.coq_props()
    except vlib.TranslatorError as e:
        # the tie is broken.  Still search the implementation for a concrete failing history,
        # driving it with the interface recorded from the last translatable source.
        tr_error = str(e)
        meta = json.loads((ctx.dir / "fallback_meta.json").read_text())
        meta["run_names"] = [tuple(x) for x in meta["run_names"]]
        info = {"ok": False, "obligations": 1, "discharged": 0, "axioms": [], "log": "translator failed closed: " + tr_error,
                "failed": "translator: " + tr_error, "theorems": [], "props_theorems": []}
        ctx.notes.append("translator failed closed; implementation driven with props/C28/fallback_meta.json")
    r = vlib.rng(ctx.seed, "C28")
    corpus = []
    for f in sorted((ctx.dir / "corpus").glob("*.json")):
        corpus += json.loads(f.read_text())
    known_methods = {m["name"] for m in meta["methods"]}
    corpus = [h for h in corpus if all(op[0] != "derive" or op[2] in known_methods for op in h)]
    syst = systematic(meta)
    n_rand = 400 if ctx.quick else 6000
    rand = [gen_history(r, meta, r.randrange(3, 13)) for _ in range(n_rand)]
    hists = corpus + syst + rand
    impl = json.loads(ctx.impl("impl_emu.py", {"histories": hists, "meta": meta}))
    bh = [gen_bhistory(r, meta["builder"], r.randrange(3, 12)) for _ in range(300 if ctx.quick else 2000)]
    bimpl = json.loads(ctx.impl("impl_builder.py", {"histories": bh, "meta": meta["builder"]}))

    # ---- model side
    model = None
    if tr_error is None and (vlib.COQ / "C28" / "ModelHist.vo").exists() and (vlib.COQ / "C28" / "ModelHist.vo").stat().st_mtime >= (vlib.COQ / "C28" / "GenEmu.v").stat().st_mtime:
        chunks = [hists[i:i + 400] for i in range(0, len(hists), 400)]
        try:
            outs = ctx.coq_eval_many({f"cases{i}": coq_cases(meta, c) for i, c in enumerate(chunks)})
            model = []
            for i in range(len(chunks)):
                model += vlib.parse_coq_values(outs[f"cases{i}"])[0]
        except RuntimeError as e:
            model = None
            ctx.notes.append(f"model evaluation failed: {str(e)[-600:]}")
    else:
        ctx.notes.append("model not built (ModelHist.vo missing or stale): correspondence skipped")

    bmodel = None
    if model is not None:
        try:
            chunks = [bh[i:i + 500] for i in range(0, len(bh), 500)]
            outs = ctx.coq_eval_many({f"bcases{i}": coq_bcases(meta["builder"], c) for i, c in enumerate(chunks)})
            bmodel = []
            for i in range(len(chunks)):
                bmodel += vlib.parse_coq_values(outs[f"bcases{i}"])[0]
        except RuntimeError as e:
            ctx.notes.append(f"builder model evaluation failed: {str(e)[-600:]}")
    # ---- correspondence model vs implementation
    disagreements = 0
    if bmodel is not None:
        for h, i, m in zip(bh, bimpl, bmodel):
            if "error" in i or i["viol"]:
                continue
            if list(m) != [cksum([[s_] + o for s_, o in i["log"]]), cksum(i["final"])]:
                disagreements += 1
                if disagreements <= 2:
                    ctx.report("bcorr:" + json.dumps(h), "correspondence", "model vs EmulatorBuilder (checksums of run log / final observations differ)",
                               {"history": h, "impl": i, "model_checksums": m, "obs_layout": meta["builder"]["build_names"]})
    if model is not None:
        for h, i, m in zip(hists, impl, model):
            if "error" in i:
                continue
            want = [cksum([[s_] + o for s_, o in i["log"]]), cksum(i["final"]), cksum(i["iso"])]
            if list(m) != want and not i["viol"]:
                disagreements += 1
                if disagreements <= 3:
                    which = [n for n, a, b in zip(("run log", "final observations", "isolated chain replays"), m, want) if a != b]
                    try:
                        full = vlib.parse_coq_values(ctx.coq_eval(f"full{disagreements}", coq_cases(meta, [h], full=True)))[0][0]
                    except Exception as e:  # noqa: BLE001
                        full = str(e)[-400:]
                    ctx.report("corr:" + json.dumps(h), "correspondence", "model vs EmulatorInstance: " + ", ".join(which),
                               {"history": h, "program": program_text(h), "impl": i, "model (log, final, chains)": full,
                                "obs_layout": meta["run_names"],
                                "meaning": "the generated model and the real classes disagree on what the backend receives"})
    # ---- harness errors (the implementation raised): a broken tie
    errs = [(h, i["error"]) for h, i in zip(hists, impl) if "error" in i]
    for h, e in errs[:2]:
        ctx.report("impl-error:" + json.dumps(h), "correspondence", "implementation raised on a valid history",
                   {"history": h, "program": program_text(h), "error": e})

    # ---- failing-input search on the implementation alone (specification side)
    bad = sorted([(len(h), k, h, i["viol"]) for k, (h, i) in enumerate(zip(hists, impl)) if "error" not in i and i["viol"]])
    shown = 0
    seen_kinds = set()
    for _, k, h, viol in bad:
        v = viol[0]
        sig = (v["kind"], (v.get("after_op") or [None, None, None])[2] if v["kind"] == "derive_pure" else None)
        if sig in seen_kinds:
            continue
        seen_kinds.add(sig)
        shown += 1
        name = ("theorem file C28/Props.v no longer checks (" + str(info["failed"]) + ")") if not info["ok"] else \
            "implementation violates the property although the proofs pass (translator gap)"
        ctx.report("history:" + json.dumps(h), "counterexample", name,
                   {"history": h, "program": ["from unittest.mock import Mock; backend = Mock(); backend.run_shots.side_effect = lambda **kw: iter([])"] + program_text(h),
                    "violation": v, "all_violations_in_history": len(viol), "obs_layout": meta["run_names"],
                    "expected": "every configuration hands the backend the same values as when it was created, equal to the isolated replay of its own derivation chain",
                    "histories_violating": len(bad),
                    "coq_error": None if info["ok"] else vlib.CoqResult(False, info["log"]).error_excerpt(),
                    "replay": f"cd /verif && VERIF_REPO={ctx.repo} /venv/bin/python props/C28/replay.py '{json.dumps(h)}'"})
        if shown >= 3:
            break
    bbad = sorted([(len(h), h, i["viol"]) for h, i in zip(bh, bimpl) if "error" not in i and i["viol"]], key=lambda x: x[0])
    for _, h, viol in bbad[:1]:
        ctx.report("builder:" + json.dumps(h), "counterexample", "EmulatorBuilder: " + viol[0]["kind"],
                   {"history": h, "violation": viol[0], "obs_layout": meta["builder"]["build_names"],
                    "replay": "ops: bnew = EmulatorBuilder(); bderive src m args = builders[src].m(*args) with names 'n<k>', dirs Path('/tmp/d<k>'), keys 'k<i>'; compare selene_sim.build kwargs of builders[config] before/after"})
    for h, i in [(h, i) for h, i in zip(bh, bimpl) if "error" in i][:1]:
        ctx.report("bimpl-error:" + json.dumps(h), "correspondence", "EmulatorBuilder raised on a valid history", {"history": h, "error": i["error"]})
    if not info["ok"] and not bad and not bbad:
        ctx.report("proof-broken:" + str(info["failed"]), "proof-broken", str(info["failed"]),
                   {"coq_error": vlib.CoqResult(False, info["log"]).error_excerpt(), "searched_histories": len(hists),
                    "builder_histories": len(bh)}, found_input=False)

    # ---- evidence
    ok_impl = [(h, i) for h, i in zip(hists, impl) if "error" not in i]
    def nontrivial(h):   # some configuration is derived from an ancestor that has another descendant or is re-observed later
        srcs = [op[1] for op in h if op[0] == "derive"]
        return len(srcs) >= 2 and (len(set(srcs)) < len(srcs) or any(op[0] == "run" for op in h))
    distinct = {json.dumps(h) for h in hists if nontrivial(h)}
    mh = {}
    for h in hists:
        for op in h:
            key = op[2] if op[0] == "derive" else op[0]
            mh[key] = mh.get(key, 0) + 1
    shared = sum(1 for h in hists if any(op[0] == "derive" and op[4] and op[4][0] == "field" for op in h))
    cov = proof_coverage(
        info, "make C28/Props.vo && coqc C28/Props.v (Print Assumptions)",
        ["Coq 8.16.1 kernel (vm_compute in Examples and in the correspondence evaluation)",
         "props/C28/tr_emu.py, tr_builder.py: reading of frozen dataclasses, dataclasses.replace, copy, attribute stores on component objects as heap writes (fail-closed on everything else)",
         "modelled, not verified: selene's SeleneInstance.run_shots (assumed not to write to the component objects it is given and to be deterministic given its arguments when seeded); component objects are abstracted to (class/parameter code, random_seed)",
         "props/C28/impl_emu.py recording fake backend and canonicaliser"],
        evaluations=len(hists) + len(bh), distinct_nontrivial=len(distinct),
        rule="histories = corpus + all two-step derivations (every method pair, from the root or chained) + seeded random histories of 3..12 actions over {construct component, new instance, derive with any method from any configuration (component arguments: user objects, possibly shared, or components held by other configurations), run}; non-trivial = at least two derivations and (an ancestor with two descendants or an explicit run); every configuration is re-observed after every later action",
        traces_validated_against_impl=len(ok_impl) if model is not None else 0,
        model_impl_disagreements=disagreements, impl_errors=len(errs),
        histories={"corpus": len(corpus), "systematic": len(syst), "random": len(rand)},
        observations_compared=sum(len(i["final"]) * 2 + len(i["log"]) for _, i in ok_impl),
        histories_passing_shared_component=shared, action_histogram=mh,
        spec_violations_on_impl=len(bad) + len(bbad),
        builder={"histories": len(bh), "validated_against_model": len(bh) if bmodel is not None else 0, "sample": bh[0]},
        samples=[{"history": hists[j], "program": program_text(hists[j]), "impl_final": impl[j].get("final")} for j in (0, len(corpus) + 7, len(hists) - 1)],
        notes=ctx.notes)
    return ctx.finish(LEVEL, cov, [
        "run() results are a function of the values handed to SeleneInstance.run_shots (including the fields of the component objects at call time) when a seed is fixed",
        "the backend does not write to the component objects",
        "users do not assign to component objects themselves between actions (not an action of the quantified histories)"])
