"""Implementation side for the EmulatorBuilder half of C28 (stdin: {"histories", "meta"}).
ops: ["bnew"] | ["bderive", src, method, [args]] | ["bbuild", src, package]
Values: names are "n<k>", build dirs Path("/tmp/d<k>"), build-arg keys "k<i>", values ints.
obs = flat ints in the order of meta["build_names"] (what selene_sim.build received)."""
import json
import sys
from pathlib import Path

import repo_shim  # noqa: F401
import selene_sim

from guppylang.emulator.builder import EmulatorBuilder

CALLS = []


def fake_build(*args, **kw):
    CALLS.append((args, kw))
    return ("fake-selene-instance", args[0] if args else None)


selene_sim.build = fake_build


def dec(v):
    if v is None or isinstance(v, bool):
        return v
    if isinstance(v, int):
        return v
    if isinstance(v, str):
        return int(v[1:])
    if isinstance(v, Path):
        return int(v.name[1:])
    return -77


def observe(b, package, names):
    n0 = len(CALLS)
    inst = b.build(package, 3)
    if len(CALLS) != n0 + 1:
        return [-999]
    args, kw = CALLS.pop()
    if list(args) != [package] or inst._instance != ("fake-selene-instance", package) or inst.n_qubits != 3:
        return [-998]
    out = [package]
    known = {n for n, _ in names}
    for n, ty in names[1:]:
        if ty == "dict":
            extra = [(k, v) for k, v in kw.items() if k not in known]
            out += [len(extra)] + [x for k, v in extra for x in (dec(k), dec(v))]
        elif n not in kw:
            return [-997]
        elif ty == "bool":
            out += [1 if kw[n] else 0]
        elif ty == "Z":
            out += [dec(kw[n])]
        else:
            out += [0, 0] if kw[n] is None else [1, dec(kw[n])]
    return out


def arg(method, i, v):
    if v is None or isinstance(v, bool):
        return v
    if method == "with_name":
        return f"n{v}"
    if method == "with_build_dir":
        return Path(f"/tmp/d{v}")
    if method == "with_build_arg" and i == 0:
        return f"k{v}"
    return v


def run_history(h, meta):
    names = meta["build_names"]
    env, chains, created, log, viol = [], [], [], [], []
    for t, op in enumerate(h):
        if op[0] == "bnew":
            env.append(EmulatorBuilder()); chains.append([]); created.append(observe(env[-1], 0, names))
        elif op[0] == "bderive":
            _, src, m, args = op
            env.append(getattr(env[src], m)(*[arg(m, i, a) for i, a in enumerate(args)]))
            chains.append(chains[src] + [(m, args)]); created.append(observe(env[-1], 0, names))
        else:
            log.append([op[1], observe(env[op[1]], op[2], names)])
        for i, b in enumerate(env):
            o = observe(b, 0, names)
            if o != created[i] and not any(v["config"] == i for v in viol):
                viol.append({"kind": "derive_pure", "history": h, "config": i, "after_op_index": t, "after_op": op,
                             "obs_when_created": created[i], "obs_now": o})
    final = [observe(b, 0, names) for b in env]
    for i, ch in enumerate(chains):
        b = EmulatorBuilder()
        for m, args in ch:
            b = getattr(b, m)(*[arg(m, j, a) for j, a in enumerate(args)])
        o = observe(b, 0, names)
        if o != final[i]:
            viol.append({"kind": "reproducible", "history": h, "config": i, "chain": ch, "obs_isolated_replay": o, "obs_in_history": final[i]})
    return {"log": log, "final": final, "viol": viol}


inp = json.load(sys.stdin)
out = []
for h in inp["histories"]:
    try:
        out.append(run_history(h, inp["meta"]))
    except Exception as e:  # noqa: BLE001
        out.append({"error": f"{type(e).__name__}: {e}"})
json.dump(out, sys.stdout)
