"""Implementation side for C28: run histories on the real EmulatorInstance / EmulatorBuilder
of the repo under test with a recording fake backend (stdin: JSON {"histories", "meta"}).

History ops (same encoding as the Coq side, see check.py):
  ["alloc", cls_code, seed|null]          user constructs a selene component object
  ["new", id, n_qubits]                   EmulatorBuilder().build(<package id>, n_qubits) with
                                          selene_sim.build replaced by a recording fake
  ["derive", src, method, scalar|null, null | ["user", k] | ["field", cfg, j]]
  ["run", src]
For every history the output holds
  log    explicit runs: [src, obs]
  final  obs of every configuration at the end (obtained by running it)
  iso    obs of every configuration's own derivation chain replayed in a fresh world
  viol   spec violations found on the implementation alone:
         derive_pure  — obs of a configuration after some later op differs from its obs when created
         reproducible — final obs differs from the isolated replay of its chain
obs = flat list of ints in the order of meta["run_names"]; a component object is
[class/param code, 0|1, seed]."""
import datetime
import json
import sys

import repo_shim  # noqa: F401
import selene_sim
from selene_sim.backends.bundled_error_models import DepolarizingErrorModel, IdealErrorModel
from selene_sim.backends.bundled_runtimes import SimpleRuntime, SoftRZRuntime
from selene_sim.backends.bundled_simulators import Coinflip, Quest, Stim
from selene_sim.event_hooks import CircuitExtractor, MetricStore, NoEventHook

import guppylang.emulator.instance as inst_mod
from guppylang.emulator.builder import EmulatorBuilder

inst_mod.tqdm = lambda it, **kw: it   # no progress bar output

FACTORY = {1: Quest, 2: Stim, 3: Coinflip, 4: lambda: Coinflip(bias=0.25), 5: lambda: Stim(angle_threshold=0.01),
           10: SimpleRuntime, 11: SoftRZRuntime, 20: IdealErrorModel, 21: lambda: DepolarizingErrorModel(p_1q=0.125),
           30: NoEventHook, 31: CircuitExtractor, 32: MetricStore}


def obj_key(o):
    d = {k: v for k, v in vars(o).items() if k != "random_seed"}
    return (type(o).__module__, type(o).__qualname__, repr(sorted(d.items(), key=lambda kv: kv[0])) if type(o).__name__.endswith("Plugin") else "")


CODE = {obj_key(f()): c for c, f in FACTORY.items()}


def make(code, seed):
    o = FACTORY[code]()
    if seed is not None:
        o.random_seed = seed
    return o


def enc_opt(v):
    return [0, 0] if v is None else [1, int(v)]


def enc_obj(o):
    return [CODE.get(obj_key(o), -1)] + enc_opt(getattr(o, "random_seed", None))


class FakeSelene:
    """Stands for the SeleneInstance: records what it is asked to run."""
    def __init__(self, ident):
        self.ident, self.calls = ident, []

    def run_shots(self, *args, **kw):
        self.calls.append((args, dict(kw)))
        return iter([])


def fake_build(package, **kw):
    return FakeSelene(package)


selene_sim.build = fake_build


def observe(cfg, names):
    """Run the configuration on the fake backend; encode what the backend received."""
    fake = cfg._instance
    n0 = len(fake.calls)
    cfg.run()
    if len(fake.calls) != n0 + 1:
        return [-999, len(fake.calls) - n0]
    args, kw = fake.calls.pop()
    out = [fake.ident]
    if args or set(kw) != {n for n, _ in names[1:]}:
        return [-998] + sorted(kw)
    for n, ty in names[1:]:
        v = kw[n]
        if ty == "ref":
            out += enc_obj(v)
        elif ty == "Z":
            out += [int(v)]
        elif ty == "bool":
            out += [1 if v else 0]
        elif isinstance(v, datetime.timedelta):
            out += [1, v // datetime.timedelta(microseconds=1)]
        else:
            out += enc_opt(v)
    return out


def scalar(method_ty, v):
    if method_ty == "option Z:timeout":
        return None if v is None else datetime.timedelta(microseconds=v)
    return v


def getpath(o, path):
    for p in path.split("."):
        o = getattr(o, p)
    return o


def apply(cfg, method, sc, argobj, mty):
    f = getattr(cfg, method)
    if mty is None:
        return f()
    if mty == "ref":
        return f(argobj)
    if method == "with_timeout":
        return f(None if sc is None else datetime.timedelta(microseconds=sc))
    if mty == "bool":
        return f(bool(sc))
    return f(sc)


def run_history(hist, meta):
    names = meta["run_names"]
    mty = {m["name"]: m["arg"] for m in meta["methods"]}
    cfgs, users, chains, created, log, viol = [], [], [], [], [], []

    def check_all(t, op):
        for i, c in enumerate(cfgs):
            o = observe(c, names)
            if o != created[i] and not any(v["kind"] == "derive_pure" and v["config"] == i for v in viol):
                viol.append({"kind": "derive_pure", "config": i, "after_op_index": t, "after_op": op,
                             "obs_when_created": created[i], "obs_now": o})

    for t, op in enumerate(hist):
        k = op[0]
        if k == "alloc":
            users.append(make(op[1], op[2]))
        elif k == "new":
            cfgs.append(EmulatorBuilder().build(op[1], op[2]))
            chains.append([("new", op[1], op[2])])
            created.append(observe(cfgs[-1], names))
        elif k == "derive":
            _, src, method, sc, a = op
            argobj = None
            if a is not None:
                argobj = users[a[1]] if a[0] == "user" else getpath(cfgs[a[1]], meta["ref_paths"][a[2]])
            argc = None if argobj is None else enc_obj(argobj)
            new = apply(cfgs[src], method, sc, argobj, mty[method])
            cfgs.append(new)
            chains.append(chains[src] + [("step", method, sc, argc)])
            created.append(observe(new, names))
        elif k == "run":
            log.append([op[1], observe(cfgs[op[1]], names)])
        check_all(t, op)
    final = [observe(c, names) for c in cfgs]
    iso = []
    for i, ch in enumerate(chains):
        c = None
        for st in ch:
            if st[0] == "new":
                c = EmulatorBuilder().build(st[1], st[2])
            else:
                _, method, sc, argc = st
                arg = None if argc is None else make(argc[0], argc[2] if argc[1] else None)
                c = apply(c, method, sc, arg, mty[method])
        iso.append(observe(c, names))
        if iso[-1] != final[i]:
            viol.append({"kind": "reproducible", "config": i, "chain": ch, "obs_isolated_replay": iso[-1], "obs_in_history": final[i]})
    return {"log": log, "final": final, "iso": iso, "viol": viol}


def main():
    inp = json.load(sys.stdin)
    out = []
    for h in inp["histories"]:
        try:
            out.append(run_history(h, inp["meta"]))
        except Exception as e:  # noqa: BLE001
            out.append({"error": f"{type(e).__name__}: {e}"})
    json.dump(out, sys.stdout)


if __name__ == "__main__":
    main()
