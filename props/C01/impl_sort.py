"""C01: run /repo's real sort_vars / compare_var on rows of real Variable places.
stdin: {"rows": [[[name, droppable], ...], ...], "perms": [[...indices...] or null, ...]}
stdout: {"sorted": [[[name, droppable], ...], ...], "sorted_perm": [... or null]}
Droppable places get type `int`, non-droppable ones `qubit`."""
import json
import sys

import repo_shim  # noqa: F401
import guppylang_internals.compiler.cfg_compiler as cc
from guppylang_internals.checker.core import Variable
from guppylang_internals.tys.builtin import int_type
from guppylang.std.quantum import qubit
from guppylang_internals.engine import ENGINE  # noqa: F401


def qubit_ty():
    from guppylang_internals.tys.ty import OpaqueType
    defn = qubit
    # `qubit` is a GuppyTypeDefinition wrapper; get the checked type definition
    d = getattr(defn, "wrapped", defn)
    from guppylang_internals.engine import DEF_STORE
    tdef = DEF_STORE.raw_defs[d.id] if hasattr(d, "id") and d.id in DEF_STORE.raw_defs else d
    return OpaqueType([], tdef)


def main():
    payload = json.load(sys.stdin)
    it, qt = int_type(), qubit_ty()
    assert it.droppable and not qt.droppable
    out, outp = [], []
    for row, perm in zip(payload["rows"], payload["perms"]):
        places = [Variable(n, it if d else qt, None) for n, d in row]
        out.append([[p.name, bool(p.ty.droppable)] for p in cc.sort_vars(places)])
        if perm is None:
            outp.append(None)
        else:
            outp.append([[p.name, bool(p.ty.droppable)] for p in cc.sort_vars([places[i] for i in perm])])
    json.dump({"sorted": out, "sorted_perm": outp}, sys.stdout)


if __name__ == "__main__":
    main()
