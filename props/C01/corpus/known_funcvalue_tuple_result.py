# KNOWN FINDING (pre-existing on /repo HEAD): a function value whose result is a tuple is passed
# where a generic parameter `Callable[[], T]` is instantiated with T := tuple[int, float]: the
# value has HUGR type [] -> [int, float] (a row), the generic callee expects [] -> [Tuple(int, float)]
from collections.abc import Callable
from guppylang import guppy

T = guppy.type_var("T")


@guppy
def run(f: Callable[[], T]) -> T:
    return f()


@guppy
def pair() -> tuple[int, float]:
    return 1, 2.0


@guppy
def main() -> float:
    a, b = run(pair)
    return a + b
