import guppylang
guppylang.enable_experimental_features()
from guppylang import guppy
from guppylang.std.builtins import owned, array, comptime, nat
from guppylang.std.quantum import qubit, discard, h, project_z

T = guppy.type_var("T")
L = guppy.type_var("L", copyable=False, droppable=False)
n = guppy.nat_var("n")

@guppy.struct
class S:
    q: qubit
    x: int

@guppy
def ident(x: T) -> T:
    return x

@guppy
def pick(c: bool, a: T, b: T) -> T:
    if c:
        return a
    return b

@guppy
def ident_l(x: L @owned) -> L:
    return x

@guppy
def arr_first(a: array[int, n]) -> int:
    return a[0]

@guppy
def arr_len(a: array[T, n]) -> int:
    return n

@guppy
def scale(k: int @comptime, x: int) -> int:
    if k > 2:
        return x * k
    return x

@guppy
def rep(k: nat @comptime, x: int) -> int:
    acc = 0
    for _ in range(k):
        acc += x
    return acc

@guppy
def flag(f: bool @comptime, x: int) -> int:
    return x + 1 if f else x

@guppy
def main(x: int, b: bool, q: qubit @owned, s: S @owned) -> int:
    def inner(y: int) -> int:
        if b:
            return y + x
        return y
    def plain(y: int) -> int:
        return y * 2
    def fact(k: int) -> int:
        if k < 1:
            return x
        return k * fact(k - 1)
    a = array(x, 2, 3)
    z = ident(inner(x)) + pick(b, plain(1), 2) + arr_first(a) + arr_len(a) + fact(3)
    q = ident_l(q)
    s = ident_l(s)
    h(s.q)
    t = ident((x, b))
    w = scale(comptime(3), z) + rep(comptime(2), z) + flag(comptime(True), t[0])
    for v in a:
        w += v
    discard(q)
    discard(s.q)
    return w
