# entries: d_once_i d_twice_i d_thrice_i d_none d_tuple d_struct d_generic o_work o_work_t o_work_none 
# the same CheckedCFG lowered once / twice / three times (comptime-argument monomorphization), for functions
# that never return (exit block without predecessors) and ordinary ones; return type None / int / tuple / struct
from guppylang import guppy
from guppylang.std.builtins import comptime, owned
from guppylang.std.quantum import qubit, discard, h

T = guppy.type_var("T")

@guppy.struct
class P:
    x: int
    y: int

@guppy
def spin_i(n: int @comptime) -> int:
    while True:
        pass

@guppy
def spin_n(n: int @comptime) -> None:
    while True:
        pass

@guppy
def spin_t(n: int @comptime, f: bool @comptime) -> tuple[int, bool]:
    while True:
        pass

@guppy
def spin_q(n: int @comptime, q: qubit) -> P:
    while True:
        h(q)

@guppy
def work(n: int @comptime, x: int) -> int:
    if x > n:
        return x - n
    return x + n

@guppy
def work_t(f: bool @comptime, x: int) -> tuple[int, int]:
    if f:
        return x, 1
    return 2, x

@guppy
def work_none(n: int @comptime, q: qubit) -> None:
    if n > 1:
        h(q)

@guppy
def gen_spin(n: int @comptime, x: T) -> T:
    while True:
        pass

@guppy
def d_once_i() -> int:
    return spin_i(1)
@guppy
def d_twice_i() -> int:
    return spin_i(1) + spin_i(2)
@guppy
def d_thrice_i(b: bool) -> int:
    if b:
        return spin_i(1) + spin_i(2)
    return spin_i(3) + spin_i(1)
@guppy
def d_none(b: bool) -> None:
    spin_n(1)
    if b:
        spin_n(2)
    spin_n(3)
@guppy
def d_tuple() -> int:
    a, b = spin_t(1, True)
    c = spin_t(2, True)
    d = spin_t(1, False)
    return a + c[0] + d[0]
@guppy
def d_struct(q: qubit) -> int:
    return spin_q(1, q).x + spin_q(2, q).y
@guppy
def d_generic() -> int:
    a = gen_spin(1, 2)
    b = gen_spin(2, (1, True))
    gen_spin(3, None)
    return a + b[0]
@guppy
def o_work(x: int) -> int:
    return work(1, x) + work(2, x) + work(3, x) + work(1, x)
@guppy
def o_work_t(x: int) -> int:
    a, b = work_t(True, x)
    c, d = work_t(False, x)
    return a + b + c + d
@guppy
def o_work_none(q: qubit) -> None:
    work_none(1, q)
    work_none(2, q)
    work_none(3, q)
