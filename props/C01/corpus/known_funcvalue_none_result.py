# KNOWN FINDING (pre-existing on /repo HEAD): as known_funcvalue_tuple_result.py with T := None:
# `nop` has HUGR type [] -> [], the generic callee expects [] -> [Unit]
from collections.abc import Callable
from guppylang import guppy

T = guppy.type_var("T")


@guppy
def run(f: Callable[[], T]) -> T:
    return f()


@guppy
def nop() -> None:
    pass


@guppy
def main() -> int:
    run(nop)
    return 1
