# entries: main main2
# an already-typed generic function value checked against a concrete function type
# (operands of a binary operator are synthesised first, then checked against the dunder's
# parameter types): ExprChecker.check built TypeApply(value=…, tys=inst), so the node had no
# `inst` and compiling raised AttributeError (repaired by the "fix:" commit recorded for C01)
from collections.abc import Callable
from guppylang import guppy

T = guppy.type_var("T")


@guppy.struct
class S:
    x: int

    @guppy
    def __add__(self: "S", f: Callable[[int], int]) -> int:
        return f(self.x)

    @guppy
    def __radd__(self: "S", f: Callable[[int], int]) -> int:
        return f(self.x + 1)


@guppy
def ident(x: T) -> T:
    return x


@guppy
def main() -> int:
    return S(1) + ident


@guppy
def main2() -> int:
    return ident + S(2)
