# entries: t_none_stmt t_none_val t_none_ret t_none_call t_none_opt t_tuple0 t_tuple1 t_tuple2 t_tuple_nested t_tuple_stmt t_tuple_ret t_struct t_lin_struct t_array t_option t_box t_funcval t_funcval2 t_nested_generic_arg
# generic functions returning a bare type parameter, instantiated with None / tuples / structs /
# options / arrays / function values, in statement, value, argument, unpacking and return position
import guppylang
guppylang.enable_experimental_features()
from collections.abc import Callable
from typing import Generic
from guppylang import guppy
from guppylang.std.builtins import owned, array, comptime, nat
from guppylang.std.option import Option, some, nothing
from guppylang.std.quantum import qubit, discard, h

T = guppy.type_var("T")
S = guppy.type_var("S")
L = guppy.type_var("L", copyable=False, droppable=False)
A = guppy.type_var("A", copyable=False, droppable=True)

@guppy.struct
class P:
    x: int
    y: int

@guppy.struct
class Q:
    q: qubit
    x: int

@guppy.struct
class Box(Generic[T]):
    v: T

    @guppy
    def get(self: "Box[T]") -> T:
        return self.v

@guppy
def ident(x: T) -> T:
    return x
@guppy
def first(x: T, y: S) -> T:
    return x
@guppy
def second(x: S, y: T) -> T:
    return y
@guppy
def ident_l(x: L @owned) -> L:
    return x
@guppy
def ident_a(x: A @owned) -> A:
    return x
@guppy
def run(f: Callable[[], T]) -> T:
    return f()
@guppy
def app(f: Callable[[S], T], x: S) -> T:
    return f(x)
@guppy
def nop() -> None:
    pass
@guppy
def seven() -> int:
    return 7
@guppy
def mkp() -> P:
    return P(1, 2)
@guppy
def mkarr() -> array[int, 2]:
    return array(1, 2)
@guppy
def inc(x: int) -> int:
    return x + 1
@guppy
def tofl(x: int) -> float:
    return x + 0.5

@guppy
def t_none_stmt() -> int:
    ident(None)
    return 1
@guppy
def t_none_val() -> int:
    a = ident(None)
    return 1
@guppy
def t_none_ret() -> None:
    return ident(None)
@guppy
def t_none_call() -> int:
    first(nop(), 5)
    second(5, nop())
    return 2
@guppy
def t_none_opt() -> int:
    o = some(None)
    o.unwrap()
    return 1
@guppy
def t_tuple0() -> int:
    a = ident(())
    return 1
@guppy
def t_tuple1() -> int:
    a = ident((1,))
    (b,) = ident((2,))
    return a[0] + b
@guppy
def t_tuple2() -> float:
    a, b = ident((1, 2.0))
    c = first((3, 4.0), 5)
    return a + b + c[0] + c[1]
@guppy
def t_tuple_nested() -> int:
    a = ident(((1, 2), (3,)))
    return a[0][1] + a[1][0]
@guppy
def t_tuple_stmt() -> int:
    ident((1, 2))
    return 1
@guppy
def t_tuple_ret() -> tuple[int, bool]:
    return ident((1, True))
@guppy
def t_struct() -> int:
    p = ident(P(1, 2))
    return first(p, 1).x + ident(mkp()).y
@guppy
def t_lin_struct() -> int:
    s = ident_l(Q(qubit(), 3))
    t = ident_l((qubit(), s))
    q, s2 = t
    discard(q)
    discard(s2.q)
    return s2.x
@guppy
def t_array() -> int:
    a = ident_a(array(1, 2, 3))
    b = ident_a(mkarr())
    return a[0] + b[1]
@guppy
def t_option() -> int:
    o = ident(some(3))
    p = some((1, 2)).unwrap()
    q = some(P(1, 2)).unwrap()
    return o.unwrap() + p[0] + q.x
@guppy
def t_box() -> int:
    b = Box(5)
    c = Box((1, 2))
    d = Box(None)
    d.get()
    return b.get() + c.get()[1]
@guppy
def t_funcval() -> int:
    p = run(mkp)
    return run(seven) + p.x + app(inc, 2)
@guppy
def t_funcval2() -> float:
    return app(tofl, 2) + app(tofl, 3)
@guppy
def t_nested_generic_arg() -> int:
    return first(ident((1, 2)), ident(None))[0] + second(ident(None), 3)
