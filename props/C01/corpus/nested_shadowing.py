# entries: n_shadow_same_cap n_shadow_same_nocap n_shadow_later_cap n_shadow_later_nocap n_shadow_loop_cap n_shadow_loop_nocap n_rec_branch_cap n_rec_loop_cap n_rec_nocap n_rec_then_shadow n_in_branch n_in_loop n_nested2
# nested functions: capturing or not x recursive or not x a local shadowing the function's own name
import guppylang
guppylang.enable_experimental_features()
from collections.abc import Callable
from guppylang import guppy

@guppy
def app(f: Callable[[int], int], x: int) -> int:
    return f(x)

@guppy
def n_shadow_same_cap(x: int) -> int:
    def f(y: int) -> int:
        f = y + x
        return f
    return f(1)
@guppy
def n_shadow_same_nocap(x: int) -> int:
    def f(y: int) -> int:
        f = y + 1
        return f
    return f(x)
@guppy
def n_shadow_later_cap(x: int) -> int:
    def f(y: int) -> int:
        f = y + x
        if y > 0:
            return f
        return x
    return f(1)
@guppy
def n_shadow_later_nocap(x: int) -> int:
    def f(y: int) -> int:
        f = y + 2
        if y > 0:
            return f
        return 3
    return f(x)
@guppy
def n_shadow_loop_cap(x: int, n: int) -> int:
    def acc(k: int) -> int:
        acc = 0
        i = 0
        while i < k:
            acc += x
            i += 1
        return acc
    return acc(n)
@guppy
def n_shadow_loop_nocap(n: int) -> int:
    def acc(k: int) -> int:
        acc = 0
        i = 0
        while i < k:
            acc += i
            i += 1
        return acc
    return acc(n)
@guppy
def n_rec_branch_cap(x: int) -> int:
    def f(y: int) -> int:
        if y > 10:
            return y
        return f(y + x + 1)
    return f(1)
@guppy
def n_rec_loop_cap(x: int) -> int:
    def f(y: int) -> int:
        r = 0
        i = 0
        while i < y:
            r += f(i) + x
            i += 1
        return r
    return f(3)
@guppy
def n_rec_nocap(x: int) -> int:
    def f(y: int) -> int:
        if y > 10:
            return y
        return f(y + 2)
    return f(x)
@guppy
def n_rec_then_shadow(x: int) -> int:
    def f(y: int) -> int:
        if y > 10:
            return y
        r = f(y + x + 1)
        f = r + 1
        return f
    return f(1)
@guppy
def n_in_branch(x: int, b: bool) -> int:
    if b:
        def g(y: int) -> int:
            g = y * x
            if g > 3:
                return g
            return y
        return app(g, x)
    return 0
@guppy
def n_in_loop(x: int) -> int:
    t = 0
    i = 0
    while i < 3:
        def g(y: int) -> int:
            g = y + i
            while g < 5:
                g += x
            return g
        t += g(i)
        i += 1
    return t
@guppy
def n_nested2(x: int) -> int:
    def outer(a: int) -> int:
        def inner(b: int) -> int:
            inner = b + a
            if b > 0:
                return inner + x
            return inner
        outer = inner(a)
        if a > 2:
            return outer
        return inner(outer)
    return outer(x)
