# entries: p0 p1 p2 c1 c3
# modifier arguments that borrow a variable the body also captures: `with power(m(t)): u(t)`
# (before fix-1.patch the body was called with the wire of `t` from before `m(t)`: qubit used twice)
import guppylang
guppylang.enable_experimental_features()
from guppylang import guppy
from guppylang.std.builtins import owned, array, nat
from guppylang.std.quantum import qubit, discard, h, project_z

power = object(); control = object(); dagger = object()

@guppy
def m(t: qubit) -> nat:
    return nat(2)

@guppy(unitary=True, power=True, control=True, dagger=True)
def u(t: qubit) -> None:
    h(t)

@guppy
def p1(t: qubit) -> None:
    with power(m(t)):
        u(t)

@guppy
def p0(t: qubit, k: nat) -> None:
    with power(k):
        u(t)

@guppy
def c1(t: qubit, c: qubit) -> None:
    with control(c):
        u(t)


@guppy
def mc(t: qubit) -> qubit:
    return qubit()

@guppy
def c3(t: qubit) -> None:
    c = mc(t)
    with control(c):
        u(t)
    discard(c)

@guppy
def p2(t: qubit) -> None:
    k = m(t)
    with power(k):
        u(t)
