# entries: a3 a1 a2
# may-reject: a1 a2
# owned vs borrowed inputs of function values with an affine (non-copyable, droppable) type: a1/a2 pass an
# owning function where a borrowing one is expected and vice versa (must be rejected: fix-2.patch; when
# accepted the call through the function value has the wrong HUGR signature)
from collections.abc import Callable
from guppylang import guppy
from guppylang.std.builtins import owned, array

@guppy
def eat(a: array[int, 3] @owned) -> None:
    pass

@guppy
def bor(a: array[int, 3]) -> None:
    a[0] = 5

@guppy
def call_b(f: Callable[[array[int, 3]], None], a: array[int, 3]) -> None:
    f(a)

@guppy
def call_o(f: Callable[[array[int, 3] @owned], None], a: array[int, 3] @owned) -> None:
    f(a)

@guppy
def a1() -> int:
    a = array(1, 2, 3)
    call_b(eat, a)
    return a[0]

@guppy
def a2() -> int:
    a = array(1, 2, 3)
    call_o(bor, a)
    return 1

@guppy
def a3() -> int:
    a = array(1, 2, 3)
    call_b(bor, a)
    call_o(eat, a)
    return 1
