# not modelled, only validated: generics, nested functions (closure), comptime argument
import guppylang
guppylang.enable_experimental_features()
from guppylang import guppy
from guppylang.std.builtins import owned, comptime, nat

T = guppy.type_var("T")
n = guppy.nat_var("n")


@guppy
def ident(x: T) -> T:
    return x


@guppy
def rep(k: nat @comptime, x: int) -> int:
    acc = 0
    for _ in range(k):
        acc += x
    return acc


@guppy
def main(x: int, b: bool) -> int:
    def inner(y: int) -> int:
        if b:
            return y + x
        return y

    z = ident(inner(x))
    return rep(comptime(3), z) + ident(2)
