# successors of a branch need different places: x and the array only on one side, the qubit on both
from guppylang import guppy
from guppylang.std.builtins import owned, array
from guppylang.std.quantum import qubit, discard, h


@guppy
def main(q: qubit @owned, b: bool, x: int, tmp10: int, tmp9: int) -> int:
    a = array(x, tmp9, tmp10)
    if b:
        y = x + a[1] + tmp10
        h(q)
    else:
        y = 2 + tmp9
    while y < 10:
        y += 1
        h(q)
    discard(q)
    return y
