# a struct is moved out as a whole, then one non-copyable field is assigned again and the struct
# is used again: DFContainer must re-pack it (stale packed wire -> linear port connected twice)
from guppylang import guppy
from guppylang.std.builtins import owned
from guppylang.std.quantum import qubit, discard


@guppy.struct
class S:
    q: qubit
    x: int


@guppy
def use_s(s: S @owned) -> int:
    discard(s.q)
    return s.x


@guppy
def main(s0: S @owned) -> int:
    i1 = use_s(s0)
    s0.q = qubit()
    i1 = use_s(s0)
    return i1
