import guppylang
guppylang.enable_experimental_features()
from guppylang import guppy
from guppylang.std.builtins import owned, array, comptime, nat
from guppylang.std.quantum import qubit, discard, h
from collections.abc import Callable

T = guppy.type_var("T")
n = guppy.nat_var("n")

@guppy
def apply(f: Callable[[int], int], x: int) -> int:
    return f(x)

@guppy
def twice(f: Callable[[T], T], x: T) -> T:
    return f(f(x))

@guppy
def gen_arr(a: array[T, n], i: int) -> T:
    return a[i]

@guppy
def main(x: int, b: bool) -> int:
    y = x + 1
    def cap(k: int) -> int:
        if k < 1:
            return y
        return k + cap(k - 1)
    def outer(k: int) -> int:
        def innermost(j: int) -> int:
            return j + k + x
        return innermost(k)
    r = 0
    while r < 3:
        def in_loop(z: int) -> int:
            return z + r
        r = apply(in_loop, r) + 1
    if b:
        def br(z: int) -> int:
            return z + 1
    else:
        def br(z: int) -> int:
            return z + 2
    a = array(1, 2, 3)
    fs = twice(br, 3)
    return cap(2) + outer(3) + fs + gen_arr(a, 1) + apply(cap, 1) + twice(outer, 1)
