"""C01: drive /repo's real DFContainer (compiler/core.py) on a real hugr Dfg with scripts of
__setitem__/__getitem__ calls over struct/tuple places.
stdin : {"cases": [{"env": [tree], "ret": [bool], "script": [["set"|"get", [root, sel...]], ...]}]}
  tree = "q" | "i" | "a" | ["tuple", [tree...]] | ["struct", [tree...]]
stdout: per case {"steps": n successful ops, "locals": [[wire, pid...]...], "log": [[kind, w, ws...]...],
                  "inv": invariant of dfc_linear evaluated on the real locals after every successful op,
                  "error": the exception that ended the script}
Wires are numbered in creation order exactly as the model does: a fresh number for the wire given
to each __setitem__, then the outputs of every UnpackTuple / MakeTuple the container adds."""
import json
import sys

import repo_shim  # noqa: F401
from hugr import ops, tys as ht
from hugr.build.dfg import Dfg
from hugr.build.function import Module

from guppylang_internals.checker.core import FieldAccess, TupleAccess, Variable
from guppylang_internals.compiler.core import CompilerContext, DFContainer
from guppylang_internals.definition.common import DefId
from guppylang_internals.definition.struct import CheckedStructDef, StructField
from guppylang_internals.tys.builtin import array_type, int_type
from guppylang_internals.tys.ty import StructType, TupleType

import impl_sort

_n = [0]


def mk_ty(tree):
    if tree == "q":
        return impl_sort.qubit_ty()
    if tree == "i":
        return int_type()
    if tree == "a":
        return array_type(int_type(), 2)
    kind, kids = tree
    tys_ = [mk_ty(k) for k in kids]
    if kind == "tuple":
        return TupleType(tys_)
    _n[0] += 1
    defn = CheckedStructDef(DefId.fresh(), f"St{_n[0]}", None, [], [StructField(f"f{i}", t) for i, t in enumerate(tys_)])
    return StructType([], defn)


def place(roots, pid):
    p = roots[pid[0]]
    for i in pid[1:]:
        if isinstance(p.ty, StructType):
            p = FieldAccess(p, p.ty.fields[i], None)
        elif isinstance(p.ty, TupleType):
            p = TupleAccess(p, p.ty.element_types[i], i, None)
        else:
            return None
    return p


def run_case(case, ctx):
    roots = []
    for r, (tree, is_ret) in enumerate(zip(case["env"], case["ret"])):
        roots.append(Variable(f"%ret{r}" if is_ret else f"v{r}", mk_ty(tree), None))
    script = case["script"]
    places = []
    for kind, pid in script:
        try:
            places.append(place(roots, pid) if pid and pid[0] < len(roots) else None)
        except IndexError:
            places.append(None)
    set_tys = [p.ty.to_hugr(ctx) for (k, _), p in zip(script, places) if k == "set" and p is not None]
    d = Dfg(*set_tys)
    inputs = list(d.inputs())
    counter = [0]
    wid = {}
    log = []
    orig_add_op = d.add_op

    def key(w):
        port = w.out_port()
        return (port.node.idx, port.offset)

    def add_op(op, *args, **kw):
        node = orig_add_op(op, *args, **kw)
        n_out = len(op.types) if isinstance(op, ops.UnpackTuple) else 1
        outs = []
        for i in range(n_out):
            wid[key(node[i])] = counter[0]
            outs.append(counter[0])
            counter[0] += 1
        ins = [wid[key(a)] for a in args]
        if isinstance(op, ops.MakeTuple):
            log.append([0, outs[0]] + ins)
        else:
            log.append([1, ins[0]] + outs)
        return node
    d.add_op = add_op
    dfg = DFContainer(d, ctx)
    pid_of = {}
    steps, error, inv = 0, None, True
    snap = ([], [])
    nset = 0
    for (kind, pid), p in zip(script, places):
        snap = (dict(dfg.locals), len(log), counter[0])
        try:
            if p is None:
                raise KeyError("no such place")
            if kind == "set":
                w = inputs[nset]
                nset += 1
                wid[key(w)] = counter[0]
                counter[0] += 1
                dfg[p] = w
            else:
                dfg[p]
        except Exception as e:  # noqa: BLE001
            error = type(e).__name__
            dfg.locals = snap[0]
            del log[snap[1]:]
            break
        steps += 1
        # the invariant of dfc_linear on the real object
        keys = list(dfg.locals.keys())
        for a in keys:
            for b in keys:
                if a is not b and is_ancestor(a, b) and linear_id(roots, b):
                    inv = False
    locals_ = [[wid[key(w)]] + pid_path(roots, k) for k, w in dfg.locals.items()]
    return {"steps": steps, "locals": sorted(locals_), "log": log, "inv": inv, "error": error}


def chain(pid):
    out = [pid]
    while hasattr(pid, "parent"):
        pid = pid.parent
        out.append(pid)
    return out


def is_ancestor(a, b):
    return a in chain(b)[1:]


def pid_path(roots, k):
    ch = chain(k)[::-1]
    root = [i for i, r in enumerate(roots) if r.id == ch[0]][0]
    path = [root]
    p = roots[root]
    for step in ch[1:]:
        if hasattr(step, "field"):
            i = [f.name for f in p.ty.fields].index(step.field)
            p = FieldAccess(p, p.ty.fields[i], None)
        else:
            i = step.index
            p = TupleAccess(p, p.ty.element_types[i], i, None)
        path.append(i)
    return path


def linear_id(roots, k):
    path = pid_path(roots, k)
    return place(roots, path).ty.linear


def main():
    payload = json.load(sys.stdin)
    ctx = CompilerContext(Module())
    out = []
    for case in payload["cases"]:
        try:
            out.append(run_case(case, ctx))
        except Exception as e:  # noqa: BLE001
            import traceback
            out.append({"harness_error": f"{type(e).__name__}: {e}", "tb": traceback.format_exc()[-1200:]})
    json.dump(out, sys.stdout)


if __name__ == "__main__":
    main()
