"""C01 — accepted programs lower to valid HUGR (partial: block-wiring core proved, the rest
differentially validated).

1. regenerate coq/C01/GenCmp.v from compare_var / sort_vars in cfg_compiler.py (T, fail-closed);
2. re-check coq/C01/Props.v (rows_agree, sort_vars order theorems, insert_return_vars, dfc_linear);
3. X-tie (rows): corpus + seeded generated programs are compiled by /repo under the shim; the
   checked CFG handed to compile_cfg is dumped before/after insert_return_vars and every
   DataflowBlock's inputs / Sum rows / other outputs are read from the HUGR; the model
   (ModelObs.observe, vm_compute) must predict exactly those; check_hugr must accept every
   accepted program (validator self-test: one good and one broken package per run);
4. X-tie (sort_vars): real sort_vars vs model on random rows; permutation invariance and
   droppable-first are also checked on the implementation alone (specification side);
5. X-tie (DFContainer): random set/get scripts over struct/tuple place trees, real DFContainer
   on a real hugr Dfg vs ModelDfc; the invariant of dfc_linear is checked on the real object.
An internal compiler error or a check_hugr rejection of an accepted program is a counterexample
(the replay holds the minimised program)."""
import hashlib
import json
import sys
from concurrent.futures import ThreadPoolExecutor
from pathlib import Path

import vlib
from vlib import proof_coverage

LEVEL = "proof"
HERE = Path(__file__).resolve().parent
sys.path.insert(0, str(HERE))


def generate(ctx):
    import tr_cmp
    text, comps = tr_cmp.translate(ctx.int_src("compiler/cfg_compiler.py"))
    ctx.gen("GenCmp.v", text)
    import tr_ret
    rtext, guard = tr_ret.translate(ctx.int_src("compiler/cfg_compiler.py"), ctx.int_src("compiler/core.py"))
    ctx.gen("GenRet.v", rtext)
    return comps + [guard]


# ---------------------------------------------------------------------------------------------
# implementation side


def run_programs(ctx, progs, selftest=False, workers=10, chunk=12):
    chunks = [progs[i:i + chunk] for i in range(0, len(progs), chunk)]

    def one(args):
        k, ch = args
        try:
            out = ctx.impl("impl_lower.py", {"programs": ch, "selftest": selftest and k == 0}, timeout=1500)
            return json.loads(out)
        except Exception as e:  # noqa: BLE001
            return {"results": [{"id": p["id"], "status": "harness_crash", "error": str(e)[-1500:]} for p in ch]}
    results, st = [], None
    with ThreadPoolExecutor(max_workers=workers) as ex:
        for d in ex.map(one, list(enumerate(chunks))):
            results += d["results"]
            st = d.get("selftest") or st
    return results, st


# ---------------------------------------------------------------------------------------------
# model side (Coq text)


def cps(s):
    return "[" + "; ".join(str(ord(c)) for c in s) + "]"


def coq_var(v):
    return f"(mkVar {cps(v['name'])} {'true' if v['drop'] else 'false'} {v['ty']})"


def coq_row(r):
    return "[" + "; ".join(coq_var(v) for v in r) + "]"


def coq_cfg(c):
    bbs = []
    for b in c["bbs"]:
        outs = "[" + "; ".join(coq_row(r) for r in b["outs"]) + "]"
        succs = "[" + "; ".join(f"{s}%nat" for s in b["succs"]) + "]"
        bbs.append(f"mkBB {coq_row(b['in'])} {outs} {succs}")
    ret = "[" + "; ".join(f"({t}, {'true' if d else 'false'})" for t, d in c["ret"]) + "]"
    return f"(mkCfg [{'; '.join(bbs)}] {c['entry']}%nat {c['exit']}%nat {ret})"


def coq_inputs(c):
    return "[" + "; ".join(f"({t}, {'true' if io else 'false'})" for t, io in c["inputs"]) + "]"


def cps_z(s):
    return "[" + "; ".join(f"{ord(c)}%Z" for c in s) + "]"


def coq_var_z(v):
    return f"(mkVar {cps_z(v['name'])} {'true' if v['drop'] else 'false'} {v['ty']}%Z)"


def coq_cfg_z(c):
    """coq_cfg with explicit %Z / nat literals (for files where nat_scope is open)"""
    bbs = []
    for b in c["bbs"]:
        outs = "[" + "; ".join("[" + "; ".join(coq_var_z(v) for v in r) + "]" for r in b["outs"]) + "]"
        succs = "[" + "; ".join(str(s) for s in b["succs"]) + "]"
        bbs.append(f"mkBB [{'; '.join(coq_var_z(v) for v in b['in'])}] {outs} {succs}")
    ret = "[" + "; ".join(f"({t}%Z, {'true' if d else 'false'})" for t, d in c["ret"]) + "]"
    return f"(mkCfg [{'; '.join(bbs)}] {c['entry']} {c['exit']} {ret})"


HEADER = ("From Coq Require Import ZArith List Bool.\nFrom V.C01 Require Import ModelLower ModelObs.\n"
          "Import ListNotations.\nOpen Scope Z_scope.\n")


def enc_var(v):
    return [1 if v["drop"] else 0, v["ty"]] + [ord(c) for c in v["name"]]


def tys(ts):
    return [[t] for t in ts]


def expected_obs(rec):
    """What the model must predict, assembled from what /repo built."""
    post, blocks = rec["post"], rec["blocks"]
    node2blk = {b["node"]: i for i, b in enumerate(blocks) if b and not b["exit"]}
    fo = rec["func_outputs"]
    obs = [[[[[1]]], [tys(rec["cfg_outputs"]), tys(fo if fo is not None else rec["cfg_outputs"])]]]
    problems = []
    for i, (b, hb) in enumerate(zip(post["bbs"], blocks)):
        sec_a = [[enc_var(v) for v in b["in"]]] + [[enc_var(v) for v in r] for r in b["outs"]]
        if i == post["exit"]:
            obs.append([sec_a, [], [], [], []])
            continue
        if hb is None:
            problems.append(f"block {i} was not compiled")
            obs.append([sec_a, [], [], [], []])
            continue
        sec_b = [tys(hb["inputs"])] + [tys(v) for v in hb["variants"]] + [tys(hb["others"])]
        sec_c = []
        for k, sn in enumerate(hb["succ_nodes"]):
            if sn in node2blk:
                j = node2blk[sn]
                sec_c.append(tys(blocks[j]["inputs"]))
            else:
                j = post["exit"]
                sec_c.append(tys(rec["cfg_outputs"]))
            if k >= len(b["succs"]) or b["succs"][k] != j:
                problems.append(f"block {i}: HUGR successor {k} is block {j}, CFG says {b['succs']}")
        if len(hb["succ_nodes"]) != len(b["succs"]):
            problems.append(f"block {i}: {len(hb['succ_nodes'])} HUGR successors, {len(b['succs'])} in the CFG")
        sec_e = []
        cd = hb.get("cond")
        if cd is not None:
            if "error" in cd or any("error" in c for c in cd["cases"]):
                problems.append(f"block {i}: Conditional not readable: {cd}")
            else:
                if any(cd["pred_rows"]):
                    problems.append(f"block {i}: predicate of the Conditional is not a unit sum: {cd['pred_rows']}")
                if [c["tag"] for c in cd["cases"]] != list(range(len(cd["cases"]))):
                    problems.append(f"block {i}: case k does not tag with k: {[c['tag'] for c in cd['cases']]}")
                sec_e = [[[1]], tys(cd["other_inputs"])] + [[[o] for o in c["offsets"]] for c in cd["cases"]]
        obs.append([sec_a, sec_b, sec_c, sec_c, sec_e])
    return obs, problems


def first_diff(a, b, path=()):
    if isinstance(a, list) and isinstance(b, list):
        for i, (x, y) in enumerate(zip(a, b)):
            d = first_diff(x, y, path + (i,))
            if d:
                return d
        if len(a) != len(b):
            return path, f"length {len(a)} vs {len(b)}"
        return None
    return None if a == b else (path, f"{a} vs {b}")


SECTIONS = {4: "Conditional of choose_vars_for_tuple_sum (consistency flag, other inputs, per-case Tag input offsets)",
            0: "signature after insert_return_vars", 1: "block inputs / Sum rows / other outputs",
            2: "row delivered to successor vs its inputs", 3: "row declared by successor"}


def str_injective(cfg):
    bad = 0
    for b in cfg["bbs"]:
        for r in [b["in"]] + b["outs"]:
            names = {}
            for v in r:
                if names.setdefault(v["name"], v["pid"]) != v["pid"]:
                    bad += 1
    return bad == 0


# ---------------------------------------------------------------------------------------------
# shrinking of failing programs


def fail_class(r):
    if r["status"] == "ice":
        return "ice:" + r["error"].split(":")[0]
    if r["status"] == "ok" and r.get("check_hugr") != "ok":
        m = r["check_hugr"]
        if "Conflicting signature" in m or "Error loading" in m:
            return None
        return "check_hugr:" + ("more than one connection" if "more than one connection" in m else m.split("Caused by:")[-1].strip()[:60])
    return None


def split_prelude(src):
    """(prelude, body) for generated programs, ("", src) for corpus programs"""
    import gen_progs
    for pre in (gen_progs.PRELUDE, gen_progs.GENERIC_PRELUDE, gen_progs.NESTED_PRELUDE, gen_progs.MULTI_PRELUDE):
        if src.startswith(pre):
            return pre, src[len(pre):]
    return "", src


def shrink(ctx, src, cls, rounds=5, max_cands=30):
    pre, body = split_prelude(src)
    if not pre:
        return src
    body = body.split("\n")
    for _ in range(rounds):
        cands = []
        for i, line in enumerate(body):
            if not line.strip() or line.startswith("@") or line.startswith("def "):
                continue
            ind = len(line) - len(line.lstrip())
            j = i + 1
            while j < len(body) and body[j].strip() and len(body[j]) - len(body[j].lstrip()) > ind:
                j += 1
            cands.append(body[:i] + body[j:])                      # drop statement (with its block)
            if j > i + 1 and not line.strip().startswith(("else", "elif")):
                inner = [l[4:] for l in body[i + 1:j]]
                cands.append(body[:i] + inner + body[j:])          # replace compound by its body
        cands.sort(key=len)
        cands = cands[:max_cands]
        progs = [{"id": str(k), "src": pre + "\n".join(c), "entry": "main"} for k, c in enumerate(cands)]
        res, _ = run_programs(ctx, progs, chunk=4)
        hit = [k for k, r in enumerate(res) if fail_class(r) == cls]
        if not hit:
            break
        body = min((cands[k] for k in hit), key=len)
    return pre + "\n".join(body)


# ---------------------------------------------------------------------------------------------


def bridge_phase(ctx, cfg_jobs, cfg_ok_of, by_id):
    """C06 bridge: evaluate C06's model of check_cfg_linearity on the CheckedCFG[Variable] of the same
    functions, compare the linear leaves live before each block (c06_live) with the non-droppable
    places of the rows compile_cfg consumed (the `reads` relation of rows_agree_from_c06), and
    report every CFG that C06 accepts while cfg_ok is false."""
    sys.path.insert(0, str(HERE.parent / "C06"))
    import tie as c06tie
    cov = {"functions": 0, "c06_unmodelled": 0, "unmodelled_reasons": {}, "c06_accept": 0, "c06_other_verdict": 0,
           "theorem_hypotheses_hold": 0, "reads_relation_checked_blocks": 0, "reads_mismatches": 0,
           "c06_accept_but_not_cfg_ok": 0}
    jobs = []
    for t, lst in cfg_jobs.items():
        pid, rec = lst[0]
        c6 = rec.get("c06")
        cov["functions"] += 1
        if not c6 or c6.get("unmodelled") or not c6.get("dump"):
            cov["c06_unmodelled"] += 1
            for u in (c6 or {}).get("unmodelled", ["no dump"]):
                u = u.split(":")[0]
                cov["unmodelled_reasons"][u] = cov["unmodelled_reasons"].get(u, 0) + 1
            continue
        if len(c6["dump"]["blocks"]) != len(rec["post"]["bbs"]):
            cov["c06_unmodelled"] += 1
            continue
        jobs.append((t, pid, rec, c6))
    if ctx.quick and len(jobs) > 160:
        cov["not_evaluated_in_quick_tier"] = len(jobs) - 160
        jobs = jobs[:160]
    if not jobs:
        return cov
    pre = ("From Coq Require Import ZArith List Bool Arith.\nFrom V.C09 Require Import Analysis.\n"
           "From V.C06 Require Import Linearity Token Hyps.\nFrom V.C01 Require Import ModelLower ModelBridge.\n"
           "Import ListNotations.\nLocal Open Scope nat_scope.\n")

    def z(t):       # the cfg / var terms carry Z literals
        import re as _re
        return t

    def tbl_of(rec, names):
        vars_ = {}
        for b in rec["post"]["bbs"]:
            for r_ in [b["in"]] + b["outs"]:
                for v in r_:
                    vars_.setdefault(v["name"], v)
        return "[" + "; ".join(coq_var_z(vars_[n]) if n in vars_ else f"(mkVar {cps_z(n)} true 0%Z)" for n in names) + "]"
    per = 16
    files = {f"br{k}": pre + "\n".join(
        f"Eval vm_compute in (bridge_obs {c06tie.c_lcfg(c6['dump'])} {tbl_of(rec, c6['names'])} {coq_cfg_z(rec['post'])})."
        for _, _, rec, c6 in jobs[k * per:(k + 1) * per]) for k in range((len(jobs) + per - 1) // per)}
    try:
        outs = ctx.coq_eval_many(files)
        vals = []
        for k in range(len(files)):
            vals += vlib.parse_coq_values(outs[f"br{k}"])
        if len(vals) != len(jobs):
            raise RuntimeError(f"bridge: parsed {len(vals)} of {len(jobs)} values")
    except RuntimeError as e:
        ctx.report("bridge-eval", "correspondence", "C06 model could not be evaluated on the dumped CFGs", {"error": str(e)[-1500:]}, found_input=False)
        return cov
    for (t, pid, rec, c6), (verdict, flags) in zip(jobs, vals):
        uniform, wf_shape, reads_ok, struct_ok, ok = flags
        accept = list(verdict) == [0]
        cov["c06_accept" if accept else "c06_other_verdict"] += 1
        if not accept:
            continue
        hyps_ok = uniform and wf_shape
        cov["theorem_hypotheses_hold"] += bool(hyps_ok and reads_ok and struct_ok)
        cov["reads_relation_checked_blocks"] += sum(len(b["succs"]) for i, b in enumerate(rec["post"]["bbs"]) if i != rec["post"]["exit"])
        detail = {"program_id": pid, "function": rec.get("func_name"), "flags": {"uniform": uniform, "wf_shape": wf_shape,
                  "reads_b": reads_ok, "cfg_struct_ok": struct_ok, "cfg_ok": ok}, "leaf_names": c6["names"],
                  "checked_cfg": rec["post"], "program": by_id[pid]["src"]}
        if hyps_ok and not ok:
            cov["c06_accept_but_not_cfg_ok"] += 1
            ctx.report("c06-accept-not-cfg_ok:" + hashlib.sha1(t.encode()).hexdigest()[:12], "counterexample",
                       "C06's model accepts the checked CFG (uniform, wf_shape) but cfg_ok is false on the CFG compile_cfg consumed", detail)
        if not reads_ok:
            cov["reads_mismatches"] += 1
            if cov["reads_mismatches"] <= 2:
                ctx.report("bridge-reads:" + hashlib.sha1(t.encode()).hexdigest()[:12], "correspondence",
                           "rows of the checked CFG are not the C06 model's liveness (reads_b = false: the `reads` hypothesis of rows_agree_from_c06)", detail)
    return cov


def load_corpus():
    out = []
    for f in sorted((HERE / "corpus").glob("*.py")):
        src = f.read_text()
        first = src.split("\n", 1)[0]
        entries = first[len("# entries:"):].split() if first.startswith("# entries:") else ["main"]
        may_reject = []
        for line in src.split("\n")[:4]:
            if line.startswith("# may-reject:"):
                may_reject = line[len("# may-reject:"):].split()
        for e in entries:
            out.append({"id": f"corpus/{f.name}" + ("" if e == "main" else f":{e}"), "src": src, "entry": e, "feat": ["corpus"],
                        "may_reject": e in may_reject})
    return out


def sort_rows(r, n):
    alpha = ["a", "b", "_", "0", "1", "9", "%", ".", "[", "]", "t", "m", "p", "é", "Ω", "10", "01", "tmp"]
    rows, perms = [], []
    for _ in range(n):
        k = r.randint(0, 7)
        names = ["".join(r.choice(alpha) for _ in range(r.randint(1, 4))) for _ in range(k)]
        if r.random() < 0.5:
            names = list(dict.fromkeys(names))          # distinct names: the situation of real rows
        row = [[nm, r.random() < 0.6] for nm in names]
        rows.append(row)
        if len({nm for nm, _ in row}) == len(row):
            p = list(range(len(row)))
            r.shuffle(p)
            perms.append(p)
        else:
            perms.append(None)
    return rows, perms


def run(ctx):
    import gen_progs
    import check_dfc
    try:
        comps = generate(ctx)
    except vlib.TranslatorError as e:
        comps = None
        ctx.notes.append(f"translator failed: {e}")
    import time
    t_p = time.time()
    info = ctx.coq_props()
    ctx.notes.append(f"proof re-check {time.time() - t_p:.0f}s")
    r = vlib.rng(ctx.seed, "C01")

    # ---- programs --------------------------------------------------------------------------
    n_gen = 64 if ctx.quick else 800
    progs = load_corpus()
    n_corpus = len(progs)
    for i in range(n_gen):
        pr = vlib.rng(ctx.seed, f"C01/prog/{i}")
        src, feat = gen_progs.generate(pr)
        progs.append({"id": f"gen{i}", "src": src, "entry": "main", "feat": feat})
    import time
    t_prog = time.time()
    results, selftest = run_programs(ctx, progs, selftest=True, workers=12, chunk=8)
    ctx.notes.append(f"compile phase {time.time() - t_prog:.0f}s")
    by_id = {p["id"]: p for p in progs}
    status = {}
    feats = {}
    cfg_jobs = {}          # coq text -> list of (prog id, rec)
    n_cfgs = 0
    reported = set()
    n_shrunk = 0
    for res in results:
        p = by_id[res["id"]]
        st = res["status"]
        cls = fail_class(res)
        if st == "ok" and res.get("check_hugr") != "ok" and cls is None:
            st = "ok_validator_env_mismatch"
        status[st] = status.get(st, 0) + 1
        if st in ("ok", "ok_validator_env_mismatch"):
            for f in p.get("feat", []):
                feats[f] = feats.get(f, 0) + 1
        if st == "rejected" and res["id"].startswith("corpus/") and not p.get("may_reject"):
            ctx.report(f"corpus-rejected:{res['id']}", "correspondence", "a corpus program is no longer accepted",
                       {"id": res["id"], "error": res.get("error"), "msg": res.get("msg")}, found_input=False)
            continue
        if st in ("harness_crash", "load_error"):
            ctx.report(f"harness:{res['id']}", "correspondence", "impl_lower.py could not run a program",
                       {"id": res["id"], "error": res.get("error"), "tb": res.get("tb"), "program": p["src"]}, found_input=False)
            continue
        if cls is not None:
            if cls in reported and n_shrunk >= 2:
                continue
            src = p["src"]
            if n_shrunk < 2 and not res["id"].startswith("corpus/"):
                try:
                    src = shrink(ctx, src, cls)
                except Exception as e:  # noqa: BLE001
                    ctx.notes.append(f"shrink failed: {e}")
                n_shrunk += 1
            body = split_prelude(src)[1]
            key = ("ice" if st == "ice" else "check_hugr") + ":" + hashlib.sha1((body + ("" if p.get("entry", "main") == "main" else p["entry"])).encode()).hexdigest()[:12]
            if key in reported:
                continue
            reported.add(key)
            if ctx.is_known(key) is None:
                reported.add(cls)
            ctx.report(key, "counterexample",
                       "accepted program does not lower to valid HUGR" if st == "ok" else "internal compiler error on an accepted program",
                       {"program_id": res["id"], "class": cls, "program": src,
                        "observed": res.get("check_hugr") if st == "ok" else res.get("error"), "traceback": res.get("tb"),
                        "expected": "compile_function() succeeds and selene_hugr_qis_compiler.check_hugr(pkg.to_bytes()) accepts",
                        "replay": "save `program` as prog.py; PYTHONPATH=/verif/tools:$REPO/guppylang/src:$REPO/guppylang-internals/src /venv/bin/python -c "
                                  "\"import repo_shim, prog, selene_hugr_qis_compiler as s; s.check_hugr(prog.main.compile_function().to_bytes())\""})
            continue
        if st.startswith("ok"):
            if res.get("harness_error"):
                ctx.report(f"harness:{res['id']}", "correspondence", "recorder failed", {"error": res["harness_error"], "program": p["src"]}, found_input=False)
                continue
            for rec in res["cfgs"]:
                n_cfgs += 1
                text = f"(observe {coq_cfg(rec['pre'])} {coq_inputs(rec['pre'])})"
                cfg_jobs.setdefault(text, []).append((res["id"], rec))

    # ---- model evaluation --------------------------------------------------------------------
    texts = list(cfg_jobs)
    model_ok = (vlib.COQ / "C01" / "ModelObs.vo").exists()
    n_compared = n_branching = n_tuplesum = n_noninj = n_distinct_branching = 0
    mismatches = 0
    vals = None
    if model_ok and texts:
        per = 25
        files = {f"obs{k}": HEADER + "\n".join(f"Eval vm_compute in {t}." for t in texts[k * per:(k + 1) * per])
                 for k in range((len(texts) + per - 1) // per)}
        try:
            outs = ctx.coq_eval_many(files)
            vals = []
            for k in range(len(files)):
                v = vlib.parse_coq_values(outs[f"obs{k}"])
                if len(v) != len(texts[k * per:(k + 1) * per]):
                    raise RuntimeError(f"obs{k}: parsed {len(v)} values")
                vals += v
        except RuntimeError as e:
            vals = None
            ctx.notes.append(f"model evaluation failed: {str(e)[-600:]}")
            if info["ok"]:
                ctx.report("model-eval", "correspondence", "ModelObs.observe could not be evaluated", {"error": str(e)[-1500:]}, found_input=False)
        if vals is not None:
            cfg_ok_of = {}
            for t, model in zip(texts, vals):
                try:
                    cfg_ok_of[t] = model[0][0][0][0][0]
                except (IndexError, TypeError):
                    cfg_ok_of[t] = None
                if any(hb and not hb["exit"] and len(hb["variants"]) > 1 for hb in cfg_jobs[t][0][1]["blocks"]):
                    n_distinct_branching += 1
                for pid, rec in cfg_jobs[t]:
                    n_compared += 1
                    exp, problems = expected_obs(rec)
                    if not str_injective(rec["post"]):
                        n_noninj += 1
                    for hb in rec["blocks"]:
                        if hb and not hb["exit"] and len(hb["variants"]) > 1:
                            n_branching += 1
                            if any(hb["variants"]):
                                n_tuplesum += 1
                    d = first_diff(model, exp)
                    if d or problems:
                        mismatches += 1
                        if mismatches > 3:
                            continue
                        path, what = d if d else ((), "")
                        where = "header (cfg_ok / exit row / function outputs)" if path[:1] == (0,) else \
                            (f"block {path[0] - 1}, {SECTIONS.get(path[1], '?')}" if len(path) > 1 else str(path))
                        p = by_id[pid]
                        body = split_prelude(p["src"])[1]
                        ctx.report("rows:" + hashlib.sha1((body + rec.get("func_name", "")).encode()).hexdigest()[:12],
                                   "counterexample" if path[1:2] == (2,) or path[:1] == (0,) else "correspondence",
                                   "block rows built by compile_cfg differ from the model (ModelLower)",
                                   {"program_id": pid, "function": rec.get("func_name"), "where": where, "path": list(path),
                                    "model_vs_implementation": what, "structural_problems": problems,
                                    "model": model[path[0]] if path else None, "implementation": exp[path[0]] if path else None,
                                    "types": res_types(results, pid), "checked_cfg_before_insert": rec["pre"],
                                    "program": p["src"],
                                    "replay": "compile `program` with /repo (see props/C01/impl_lower.py) and compare DataflowBlock rows"})

    bridge_cov = {}
    if model_ok and texts and vals is not None:
        try:
            t_br = time.time()
            bridge_cov = bridge_phase(ctx, cfg_jobs, cfg_ok_of, by_id)
            ctx.notes.append(f"C06 bridge phase {time.time() - t_br:.0f}s")
        except Exception as e:  # noqa: BLE001
            ctx.report("bridge-harness", "correspondence", "C06 bridge phase failed", {"error": f"{type(e).__name__}: {e}"}, found_input=False)

    # ---- sort_vars directly --------------------------------------------------------------------
    n_sort = 300 if ctx.quick else 4000
    rows, perms = sort_rows(vlib.rng(ctx.seed, "C01/sort"), n_sort)
    sort_bad = 0
    try:
        so = json.loads(ctx.impl("impl_sort.py", {"rows": rows, "perms": perms}))
        # specification side, implementation only
        for row, perm, s1, s2 in zip(rows, perms, so["sorted"], so["sorted_perm"]):
            flags = [d for _, d in s1]
            spec_fail = None
            if sorted(map(tuple, s1)) != sorted(map(tuple, row)):
                spec_fail = "result is not a permutation of the row"
            elif flags != sorted(flags, reverse=True):
                spec_fail = "a non-droppable place precedes a droppable one"
            elif s2 is not None and s1 != s2:
                spec_fail = "sorting a permutation of the same (distinctly named) places gives a different order"
            if spec_fail:
                sort_bad += 1
                if sort_bad <= 2:
                    ctx.report("sort-spec:" + json.dumps(row), "counterexample", "sort_vars violates its specification",
                               {"row": row, "permutation": perm, "sorted": s1, "sorted_of_permutation": s2, "violated": spec_fail,
                                "replay": "props/C01/impl_sort.py with {'rows': [row], 'perms': [permutation]}"})
        if model_ok:
            files = {}
            per = 400
            for k in range((len(rows) + per - 1) // per):
                body = "\n".join("Eval vm_compute in (observe_sort " + "[" + "; ".join(
                    f"(mkVar {cps(nm)} {'true' if d else 'false'} 0)" for nm, d in row) + "])." for row in rows[k * per:(k + 1) * per])
                files[f"sort{k}"] = HEADER + body
            outs = ctx.coq_eval_many(files)
            mvals = []
            for k in range(len(files)):
                mvals += vlib.parse_coq_values(outs[f"sort{k}"])
            if len(mvals) != len(rows):
                raise RuntimeError(f"sort: parsed {len(mvals)} of {len(rows)}")
            for row, s1, m in zip(rows, so["sorted"], mvals):
                e = [[1 if d else 0, 0] + [ord(c) for c in nm] for nm, d in s1]
                if e != m:
                    sort_bad += 1
                    if sort_bad <= 2:
                        ctx.report("sort-model:" + json.dumps(row), "correspondence", "sort_vars: model (GenCmp/CmpBase) vs implementation",
                                   {"row": row, "implementation": s1, "model": m})
    except RuntimeError as e:
        ctx.notes.append(f"sort differential failed: {str(e)[-800:]}")
        ctx.report("sort-harness", "correspondence", "sort_vars differential could not run", {"error": str(e)[-1500:]}, found_input=False)

    # ---- DFContainer -----------------------------------------------------------------------------
    dfc_cov = check_dfc.run(ctx, model_ok)

    # ---- validator self-test ---------------------------------------------------------------------
    if not selftest or selftest.get("good") != "accepted" or not str(selftest.get("broken", "")).startswith("rejected"):
        ctx.report("validator-selftest", "correspondence", "check_hugr self-test failed (validator does not discriminate)",
                   {"selftest": selftest}, found_input=False)

    # ---- proofs ----------------------------------------------------------------------------------
    if comps is None:
        ctx.report("translator", "proof-broken", "tr_cmp.py / tr_ret.py do not recognise compare_var/sort_vars or the insert_return_vars guard/skeleton any more",
                   {"notes": ctx.notes}, found_input=bool(ctx.violations))
    elif not info["ok"] and not ctx.violations:
        ctx.report("proof-broken:" + str(info["failed"]), "proof-broken", str(info["failed"]),
                   {"coq_error": vlib.CoqResult(False, info["log"]).error_excerpt(),
                    "searched": {"programs": len(progs), "sort_rows": len(rows)}}, found_input=False)
    elif not info["ok"]:
        ctx.notes.append("proofs broken: " + vlib.CoqResult(False, info["log"]).error_excerpt(12))

    accepted = status.get("ok", 0) + status.get("ok_validator_env_mismatch", 0)
    samples = []
    for res in results:
        if res["status"] == "ok" and res.get("cfgs") and len(samples) < 3:
            rec = res["cfgs"][0]
            samples.append({"program_id": res["id"], "function": rec.get("func_name"), "blocks": len(rec["blocks"]),
                            "block_rows": [b for b in rec["blocks"] if b and not b["exit"]][:2], "check_hugr": res["check_hugr"]})
    cov = proof_coverage(
        info, "make -f Makefile.C01 C01/Props.vo && coqc C01/Props.v (Print Assumptions)",
        ["Coq 8.16.1 kernel; vm_compute used for Examples and for the model side of the correspondence",
         "PARTIAL: only sort_vars/compare_var, compile_bb's input/output rows, insert_return_vars, the exit row and DFContainer are modelled and proved; "
         "expr_compiler.py, stmt_compiler.py, func_compiler.py, generics/monomorphization, nested functions, comptime, order edges and insert_drops are "
         "NOT modelled: for them only compile + check_hugr runs",
         "hand-written model ModelLower.v/ModelDfc.v (validated differentially each run); props/C01/tr_cmp.py reads compare_var's key tuple (T-tie) and "
         "recognises _name_sort_key only by exact AST shape; names with non-ASCII decimal digits are outside CmpBase.name_sort_key",
         "harness: gen_progs.py, impl_lower.py (recording wrapper around compile_cfg/compile_bb), impl_dfc.py, impl_sort.py, tools/repo_shim.py; hugr-py builder; "
         "selene_hugr_qis_compiler.check_hugr as auxiliary oracle (measure() is avoided: the sandbox's tket-exts gives MeasureFree another signature)"],
        evaluations=n_compared + len(rows) + dfc_cov.get("scripts", 0),
        distinct_nontrivial=n_distinct_branching,
        rule="cases = checked CFGs of compiled functions (corpus + seeded generated programs), sort rows, DFContainer scripts; "
             "distinct_nontrivial = number of DISTINCT checked CFGs (by their full row/edge text) that contain a block with more than one "
             "successor, i.e. reach compile_bb's branch output construction; program_stats.tuple_sum_blocks counts blocks whose Sum variants "
             "carry values (successors need different places)",
        traces_validated_against_impl=n_compared,
        programs=len(progs), disagreements_checked=n_compared + len(rows) + dfc_cov.get("scripts", 0),
        program_stats={"corpus": n_corpus, "generated": n_gen, "status": status, "accepted": accepted,
                  "cfgs_compared_with_model": n_compared, "distinct_cfgs_evaluated_in_coq": len(texts),
                  "branching_blocks": n_branching, "tuple_sum_blocks": n_tuplesum, "model_mismatches": mismatches,
                  "rows_where_str_is_not_injective_on_ids": n_noninj, "features_in_accepted_programs": feats},
        sort_vars={"rows": len(rows), "disagreements": sort_bad, "key_components": comps[:-1] if comps else None},
        return_var_guard=comps[-1] if comps else None,
        c06_bridge=bridge_cov, dfcontainer=dfc_cov, validator_selftest=selftest, samples=samples, notes=ctx.notes)
    return ctx.finish(LEVEL, cov, [
        "the checked CFG satisfies cfg_ok (decidable; evaluated on every compiled CFG of the run, a False is reported)",
        "str(place) identifies place.id within a row (counted per run)",
        "DFContainer theorems are about the code after props/C01/fix-1.patch",
        "hugr-py builder wires what add_op/set_block_outputs say; check_hugr is sound for the HUGR it accepts"])


def res_types(results, pid):
    for r in results:
        if r["id"] == pid:
            return r.get("types")
    return None
