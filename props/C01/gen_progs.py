"""Seeded generator of (mostly) accepted Guppy programs for C01: control flow x tuples x structs x
qubits x branch-dependent liveness.  Programs the checker rejects are simply skipped by the
check (and counted).  All randomness comes from the `random.Random` passed in."""

PRELUDE = '''import guppylang
guppylang.enable_experimental_features()
from collections.abc import Callable
from guppylang import guppy
from guppylang.std.builtins import owned, array, comptime, nat
from guppylang.std.quantum import qubit, discard, h, x, cx, project_z, reset

T = guppy.type_var("T")
L = guppy.type_var("L", copyable=False, droppable=False)
n = guppy.nat_var("n")


@guppy.struct
class P:
    x: int
    y: int


@guppy.struct
class S:
    q: qubit
    x: int


@guppy.struct
class N:
    s: S
    t: tuple[int, qubit]
    p: P


@guppy
def mk_p(a: int) -> P:
    return P(a, a + 1)


@guppy
def bor_s(s: S) -> None:
    h(s.q)


@guppy
def own_s(s: S @owned) -> S:
    return S(s.q, s.x + 1)


@guppy
def use_s(s: S @owned) -> int:
    discard(s.q)
    return s.x


@guppy
def use_n(n: N @owned) -> int:
    discard(n.s.q)
    discard(n.t[1])
    return n.p.x


@guppy
def bor_n(n: N) -> int:
    h(n.s.q)
    return n.t[0]


@guppy
def swap(t: tuple[int, bool]) -> tuple[bool, int]:
    return t[1], t[0]


@guppy
def ident(v: T) -> T:
    return v


@guppy
def pick(c: bool, a: T, b: T) -> T:
    if c:
        return a
    return b


@guppy
def ident_l(v: L @owned) -> L:
    return v


@guppy
def arr_at(a: array[T, n], i: int) -> T:
    return a[i]


@guppy
def arr_len(a: array[T, n]) -> int:
    return n


@guppy
def scale(k: int @comptime, v: int) -> int:
    if k > 2:
        return v * k
    return v + k


@guppy
def rep(k: nat @comptime, v: int) -> int:
    acc = 0
    for _ in range(k):
        acc += v
    return acc


@guppy
def flag(f: bool @comptime, v: int) -> int:
    return v + 1 if f else v


@guppy
def apply(f: Callable[[int], int], v: int) -> int:
    return f(v)


@guppy
def twice(f: Callable[[T], T], v: T) -> T:
    return f(f(v))

'''

TYPES = {"i": "int", "b": "bool", "p": "P", "t": "tuple[int, bool]", "q": "qubit", "s": "S", "n": "N",
         "tq": "tuple[qubit, int]", "a": "array[int, 3]"}
LINEAR = ("q", "s", "n", "tq")


class Gen:
    def __init__(self, r, size=12, max_depth=3):
        self.r = r
        self.size = size
        self.max_depth = max_depth
        self.cnt = {}
        self.defs = {}        # classical / affine variables definitely defined: name -> kind
        self.lin = {}         # live linear variables: name -> kind
        self.borrowed = set()
        self.ret_kind = None
        self.features = set()
        self.nest = 0

    # ---- names -------------------------------------------------------------------------
    def fresh(self, kind):
        k = self.cnt.get(kind, 0)
        self.cnt[kind] = k + 1
        return f"{kind}{k}"

    def pick_name(self, kind, reuse=0.5):
        """A name for assignment: an existing variable of that kind (reassignment) or a new one."""
        pool = [n for n, k in self.defs.items() if k == kind]
        if pool and self.r.random() < reuse:
            return self.r.choice(pool)
        return self.fresh(kind)

    def of(self, kind):
        return [n for n, k in self.defs.items() if k == kind]

    def lin_of(self, kind):
        return [n for n, k in self.lin.items() if k == kind]

    def owned_of(self, kind):
        pool = [n for n in self.lin_of(kind) if n not in self.borrowed]
        return self.r.choice(pool) if pool else None

    # ---- expressions --------------------------------------------------------------------
    def int_expr(self, d=0):
        r = self.r
        opts = ["lit"]
        if self.of("i"):
            opts += ["var"] * 4
        if self.of("p"):
            opts += ["p"]
        if self.of("t"):
            opts += ["t"]
        if self.of("a"):
            opts += ["a"]
        if self.lin_of("s"):
            opts += ["s"]
        if self.lin_of("n"):
            opts += ["n"]
        if self.lin_of("tq"):
            opts += ["tq"]
        if d < 2:
            opts += ["bin"] * 3 + ["ifexp", "generic", "comptime"]
            if self.of("f"):
                opts += ["callf"] * 3
            if self.of("a"):
                opts += ["arrgen"]
        o = r.choice(opts)
        if o == "lit":
            return str(r.randint(0, 9))
        if o == "generic":
            self.features.add("generic_hugr")
            if r.random() < 0.5:
                return f"ident({self.int_expr(d + 1)})"
            return f"pick({self.bool_expr(d + 1)}, {self.int_expr(d + 1)}, {self.int_expr(d + 1)})"
        if o == "comptime":
            k = r.choice(["int", "nat", "bool"])
            self.features.add("comptime_" + k)
            if k == "int":
                return f"scale(comptime({r.randint(0, 5)}), {self.int_expr(d + 1)})"
            if k == "nat":
                return f"rep(comptime({r.randint(0, 3)}), {self.int_expr(d + 1)})"
            return f"flag(comptime({r.choice(['True', 'False'])}), {self.int_expr(d + 1)})"
        if o == "callf":
            f = r.choice(self.of("f"))
            c = r.random()
            if c < 0.6:
                return f"{f}({self.int_expr(d + 1)})"
            self.features.add("higher_order")
            if c < 0.8:
                return f"apply({f}, {self.int_expr(d + 1)})"
            return f"twice({f}, {self.int_expr(d + 1)})"
        if o == "arrgen":
            self.features.add("generic_array")
            a = r.choice(self.of("a"))
            return f"arr_at({a}, {r.randint(0, 2)})" if r.random() < 0.6 else f"arr_len({a})" 
        if o == "var":
            return r.choice(self.of("i"))
        if o == "p":
            return r.choice(self.of("p")) + r.choice([".x", ".y"])
        if o == "t":
            return r.choice(self.of("t")) + "[0]"
        if o == "a":
            self.features.add("array")
            return r.choice(self.of("a")) + f"[{r.randint(0, 2)}]"
        if o == "s":
            return r.choice(self.lin_of("s")) + ".x"
        if o == "n":
            return r.choice(self.lin_of("n")) + r.choice([".s.x", ".p.x", ".p.y", ".t[0]"])
        if o == "tq":
            return r.choice(self.lin_of("tq")) + "[1]"
        if o == "ifexp":
            self.features.add("ifexp")
            return f"({self.int_expr(d + 1)} if {self.bool_expr(d + 1)} else {self.int_expr(d + 1)})"
        return f"({self.int_expr(d + 1)} {r.choice('+-*')} {self.int_expr(d + 1)})"

    def bool_expr(self, d=0):
        r = self.r
        opts = ["cmp"] * 3 + ["lit"]
        if self.of("b"):
            opts += ["var"] * 3
        if self.of("t"):
            opts += ["t"]
        if d < 2:
            opts += ["not", "and", "or"]
        o = r.choice(opts)
        if o == "lit":
            return r.choice(["True", "False"])
        if o == "var":
            return r.choice(self.of("b"))
        if o == "t":
            return r.choice(self.of("t")) + "[1]"
        if o == "not":
            return f"(not {self.bool_expr(d + 1)})"
        if o in ("and", "or"):
            self.features.add("shortcircuit")
            return f"({self.bool_expr(d + 1)} {o} {self.bool_expr(d + 1)})"
        return f"({self.int_expr(d + 1)} {r.choice(['<', '<=', '==', '!=', '>'])} {self.int_expr(d + 1)})"

    def s_expr(self):
        own = [q for q in self.lin_of("q") if q not in self.borrowed]
        if own and self.nest == 0 and self.r.random() < 0.4:
            q = self.r.choice(own)
            del self.lin[q]
            return f"S({q}, {self.int_expr(1)})"
        return f"S(qubit(), {self.int_expr(1)})"

    # ---- statements ----------------------------------------------------------------------
    def consume(self, name, out):
        kind = self.lin.pop(name)
        r = self.r
        ind = out.ind
        if kind == "q":
            if r.random() < 0.5:
                out.add(f"discard({name})")
            else:
                b = self.pick_name("b")
                out.add(f"{b} = project_z({name})")
                out.add(f"discard({name})")
                self.defs[b] = "b"
        elif kind == "s":
            if r.random() < 0.5:
                out.add(f"discard({name}.q)")
            else:
                i = self.pick_name("i")
                out.add(f"{i} = use_s({name})")
                self.defs[i] = "i"
        elif kind == "tq":
            qz = self.fresh("qz")
            iz = self.pick_name("i")
            out.add(f"{qz}, {iz} = {name}")
            out.add(f"discard({qz})")
            self.defs[iz] = "i"
        elif kind == "n":
            if r.random() < 0.5:
                out.add(f"discard({name}.s.q)")
                out.add(f"discard({name}.t[1])")
            else:
                i = self.pick_name("i")
                out.add(f"{i} = use_n({name})")
                self.defs[i] = "i"
        del ind

    def ret_stmt(self, out):
        """Consume everything owned that is not returned, then return."""
        k = self.ret_kind
        expr = None
        keep = None
        if k in LINEAR:
            own = [n for n in self.lin_of(k) if n not in self.borrowed]
            if own and self.r.random() < 0.7:
                keep = self.r.choice(own)
        for n in [n for n in list(self.lin) if n not in self.borrowed and n != keep]:
            self.consume(n, out)
        if k is None:
            out.add("return")
            return
        if k == "i":
            expr = self.int_expr()
        elif k == "b":
            expr = self.bool_expr()
        elif k == "p":
            expr = self.r.choice(self.of("p")) if self.of("p") and self.r.random() < 0.6 else f"P({self.int_expr(1)}, {self.int_expr(1)})"
        elif k == "t":
            expr = f"{self.int_expr(1)}, {self.bool_expr(1)}"
        elif k == "ip":
            expr = f"{self.int_expr(1)}, mk_p({self.int_expr(1)})"
        elif k == "q":
            expr = keep or "qubit()"
        elif k == "s":
            expr = keep or f"S(qubit(), {self.int_expr(1)})"
        elif k == "tq":
            expr = keep or f"(qubit(), {self.int_expr(1)})"
        elif k == "n":
            expr = keep or f"N(S(qubit(), {self.int_expr(1)}), ({self.int_expr(1)}, qubit()), mk_p(1))"
        if keep:
            del self.lin[keep]
        out.add(f"return {expr}")

    def simple_stmt(self, out):
        r = self.r
        opts = ["int"] * 4 + ["bool"] * 2 + ["p", "t", "alloc", "mk_s", "mk_tq", "aug"]
        if self.of("t"):
            opts += ["unpack_t", "swap"]
        if self.of("p"):
            opts += ["pcopy"]
        if self.lin_of("q"):
            opts += ["gate"] * 3 + ["meas"]
        if len(self.lin_of("q")) >= 2:
            opts += ["cx"] * 2
        if self.lin_of("s"):
            opts += ["s_field_gate", "s_bor", "s_own", "s_field_swap", "s_rebuild", "s_refill"] * 2
        if self.lin_of("tq"):
            opts += ["tq_unpack", "tq_gate"]
        if self.lin_of("n"):
            opts += ["n_gate", "n_bor", "n_sub_own", "n_sub_bor"] * 2
        if r.random() < 0.08:
            opts += ["mk_n"] * 6
        if r.random() < 0.15:
            opts += ["arr"] * 5
        if self.of("a"):
            opts += ["arr_set"] * 2
        opts += ["nested_fn"] * 2 + ["gen_val"]
        if [n for n in self.lin if n not in self.borrowed]:
            opts += ["gen_lin"] * 2
        o = r.choice(opts)
        if o == "nested_fn":
            self.nested_fn(out)
            return
        if o == "gen_val":
            self.features.add("generic_hugr")
            kind = r.choice([k for k in ("i", "b", "p", "t") if self.of(k)] or ["i"])
            if not self.of(kind):
                return
            src = r.choice(self.of(kind))
            n = self.pick_name(kind)
            out.add(f"{n} = ident({src})")
            self.defs[n] = kind
            return
        if o == "gen_lin":
            self.features.add("generic_linear")
            v = r.choice([n for n in self.lin if n not in self.borrowed])
            out.add(f"{v} = ident_l({v})")
            return
        if o == "int":
            e = self.int_expr()
            n = self.pick_name("i")
            out.add(f"{n} = {e}")
            self.defs[n] = "i"
        elif o == "aug":
            if self.of("i"):
                out.add(f"{r.choice(self.of('i'))} {r.choice(['+=', '-=', '*='])} {self.int_expr(1)}")
        elif o == "bool":
            e = self.bool_expr()
            n = self.pick_name("b")
            out.add(f"{n} = {e}")
            self.defs[n] = "b"
        elif o == "p":
            e = f"P({self.int_expr(1)}, {self.int_expr(1)})" if r.random() < 0.6 else f"mk_p({self.int_expr(1)})"
            n = self.pick_name("p")
            out.add(f"{n} = {e}")
            self.defs[n] = "p"
            self.features.add("struct")
        elif o == "pcopy":
            src = r.choice(self.of("p"))
            n = self.pick_name("p")
            out.add(f"{n} = {src}")
            self.defs[n] = "p"
        elif o == "t":
            e = f"({self.int_expr(1)}, {self.bool_expr(1)})"
            n = self.pick_name("t")
            out.add(f"{n} = {e}")
            self.defs[n] = "t"
            self.features.add("tuple")
        elif o == "unpack_t":
            src = r.choice(self.of("t"))
            a, b = self.pick_name("i"), self.pick_name("b")
            out.add(f"{a}, {b} = {src}")
            self.defs[a], self.defs[b] = "i", "b"
        elif o == "swap":
            src = r.choice(self.of("t"))
            b, a = self.pick_name("b"), self.pick_name("i")
            out.add(f"{b}, {a} = swap({src})")
            self.defs[a], self.defs[b] = "i", "b"
        elif o == "alloc":
            n = self.fresh("q")
            out.add(f"{n} = qubit()")
            self.lin[n] = "q"
            self.features.add("qubit")
        elif o == "gate":
            out.add(f"{r.choice(['h', 'x'])}({r.choice(self.lin_of('q'))})")
        elif o == "cx":
            a, b = r.sample(self.lin_of("q"), 2)
            out.add(f"cx({a}, {b})")
        elif o == "meas":
            q = r.choice(self.lin_of("q"))
            b = self.pick_name("b")
            out.add(f"{b} = project_z({q})")
            if q not in self.borrowed and r.random() < 0.6:
                out.add(f"discard({q})")
                out.add(f"{q} = qubit()")
            self.defs[b] = "b"
        elif o == "mk_s":
            e = self.s_expr()
            n = self.fresh("s")
            out.add(f"{n} = {e}")
            self.lin[n] = "s"
            self.features.add("linstruct")
        elif o == "s_field_gate":
            out.add(f"h({r.choice(self.lin_of('s'))}.q)")
        elif o == "s_bor":
            out.add(f"bor_s({r.choice(self.lin_of('s'))})")
        elif o == "s_own":
            s = self.owned_of("s")
            if s is None:
                return
            out.add(f"{s} = own_s({s})")
        elif o == "s_field_swap":
            s = self.owned_of("s")
            if s is None:
                return
            b = self.pick_name("b")
            out.add(f"{b} = project_z({s}.q)")
            out.add(f"discard({s}.q)")
            out.add(f"{s}.q = qubit()")
            self.defs[b] = "b"
            self.features.add("field_assign")
        elif o == "s_rebuild":
            s = self.owned_of("s")
            if s is None:
                return
            i = self.pick_name("i")
            out.add(f"{i} = use_s({s})")
            out.add(f"{s} = S(qubit(), {i})")
            self.defs[i] = "i"
        elif o == "s_refill":
            # move the whole struct out, then give it a new qubit through the field
            s = self.owned_of("s")
            if s is None:
                return
            i = self.pick_name("i")
            out.add(f"{i} = use_s({s})")
            out.add(f"{s}.q = qubit()")
            self.defs[i] = "i"
            self.features.add("refill_after_move")
        elif o == "mk_tq":
            n = self.fresh("tq")
            out.add(f"{n} = (qubit(), {self.int_expr(1)})")
            self.lin[n] = "tq"
            self.features.add("lintuple")
        elif o == "tq_unpack":
            src = r.choice(self.lin_of("tq"))
            if src in self.borrowed or self.nest > 0:
                return
            q, i = self.fresh("q"), self.pick_name("i")
            out.add(f"{q}, {i} = {src}")
            del self.lin[src]
            self.lin[q] = "q"
            self.defs[i] = "i"
        elif o == "tq_gate":
            out.add(f"h({r.choice(self.lin_of('tq'))}[0])")
        elif o == "mk_n":
            n = self.fresh("n")
            out.add(f"{n} = N({self.s_expr()}, ({self.int_expr(1)}, qubit()), mk_p({self.int_expr(1)}))")
            self.lin[n] = "n"
            self.features.add("nested")
        elif o == "n_gate":
            out.add(f"h({r.choice(self.lin_of('n'))}{r.choice(['.s.q', '.t[1]'])})")
        elif o == "n_bor":
            i = self.pick_name("i")
            out.add(f"{i} = bor_n({r.choice(self.lin_of('n'))})")
            self.defs[i] = "i"
        elif o == "n_sub_own":
            n = self.owned_of("n")
            if n is None:
                return
            out.add(f"{n}.s = own_s({n}.s)")
            self.features.add("field_assign")
        elif o == "n_sub_bor":
            out.add(f"bor_s({r.choice(self.lin_of('n'))}.s)")
        elif o == "arr":
            n = self.pick_name("a", reuse=0.3)
            out.add(f"{n} = array({self.int_expr(1)}, {self.int_expr(1)}, {self.int_expr(1)})")
            self.defs[n] = "a"
            self.features.add("array")
        elif o == "arr_set":
            out.add(f"{r.choice(self.of('a'))}[{r.randint(0, 2)}] = {self.int_expr(1)}")

    def nested_fn(self, out):
        """A nested function definition; captures copyable variables that are defined here."""
        r = self.r
        f = self.fresh("f")
        y = self.fresh("y")
        caps = self.of("i") + [None] * 2
        cap = [c for c in {r.choice(caps) for _ in range(r.randint(0, 2))} if c]
        bcap = r.choice(self.of("b")) if self.of("b") and r.random() < 0.3 else None
        rec = r.random() < 0.2
        atoms = [y, str(r.randint(0, 9))] + cap

        def e():
            return f"({r.choice(atoms)} {r.choice('+-*')} {r.choice(atoms)})"
        self.features.add("nested_capture" if cap or bcap else "nested_plain")
        out.add(f"def {f}({y}: int) -> int:")
        out.ind += 1
        if rec:
            self.features.add("nested_recursive")
            out.add(f"if {y} < 1:")
            out.add(f"    return {e()}")
            out.add(f"return {f}({y} - 1) + {r.choice(atoms)}")
        else:
            if bcap or r.random() < 0.5:
                out.add(f"if {bcap or f'({y} < {r.choice(atoms)})'}:")
                out.add(f"    return {e()}")
            out.add(f"return {e()}")
        out.ind -= 1
        self.defs[f] = "f"

    def block(self, out, n, depth, loop_lin=None, top=False):
        """Emit about n statements; returns True if the block ended with return/break/continue."""
        lin_before = set(self.lin)
        r = self.r
        for _ in range(max(1, n)):
            c = r.random()
            if depth < self.max_depth and c < 0.16:
                self.features.add("if")
                cond = self.bool_expr()
                out.add(f"if {cond}:")
                d0, l0 = dict(self.defs), dict(self.lin)
                t1 = self.sub(out, depth, loop_lin)
                d1 = self.defs
                has_else = r.random() < 0.7
                self.defs, self.lin = dict(d0), dict(l0)
                t2 = False
                if has_else:
                    out.add("else:")
                    t2 = self.sub(out, depth, loop_lin)
                d2 = self.defs
                if t1 and t2:
                    return True
                if t1:
                    self.defs = d2
                elif t2:
                    self.defs = d1
                else:
                    self.defs = {k: v for k, v in d1.items() if d2.get(k) == v}
                self.lin = dict(l0)
            elif depth < self.max_depth and c < 0.24:
                self.features.add("while")
                cond = self.bool_expr()
                out.add(f"while {cond}:")
                d0, l0 = dict(self.defs), dict(self.lin)
                self.sub(out, depth, set(self.lin))
                self.defs, self.lin = d0, l0
            elif depth < self.max_depth and c < 0.28:
                self.features.add("for")
                k = self.fresh("k")
                out.add(f"for {k} in range({r.randint(1, 4)}):")
                d0, l0 = dict(self.defs), dict(self.lin)
                self.defs[k] = "i"
                self.sub(out, depth, set(self.lin))
                self.defs, self.lin = d0, l0
            elif depth < self.max_depth and loop_lin is None and self.of("a") and c < 0.295:
                self.features.add("array_iter")
                a = r.choice(self.of("a"))
                v = self.fresh("v")
                out.add(f"for {v} in {a}:")
                del self.defs[a]
                d0, l0 = dict(self.defs), dict(self.lin)
                self.defs[v] = "i"
                self.sub(out, depth, set(self.lin))
                self.defs, self.lin = d0, l0
            elif depth > 0 and c < 0.31:
                self.features.add("early_return")
                self.ret_stmt(out)
                return True
            elif loop_lin is not None and c < 0.35 and set(self.lin) == loop_lin:
                self.features.add("break_continue")
                out.add(r.choice(["break", "continue"]))
                return True
            else:
                self.simple_stmt(out)
        if not top:
            for name in [x for x in list(self.lin) if x not in lin_before]:
                self.consume(name, out)
            # names consumed inside must still be there: blocks never consume outer linear values
        return False

    def sub(self, out, depth, loop_lin):
        out.ind += 1
        self.nest += 1
        mark = len(out.lines)
        t = self.block(out, self.r.randint(1, max(1, self.size // 3)), depth + 1, loop_lin)
        if len(out.lines) == mark:
            out.add("pass")
        out.ind -= 1
        self.nest -= 1
        return t

    def function(self):
        r = self.r
        out = Lines()
        params = []
        for _ in range(r.randint(0, 5)):
            kind = r.choice(["i", "i", "b", "b", "p", "t", "q", "q", "s", "s", "tq", "n"])
            if kind in LINEAR:
                name = self.fresh(kind)
                own = r.random() < 0.5
                self.lin[name] = kind
                if not own:
                    self.borrowed.add(name)
                    self.features.add("borrowed")
                params.append(f"{name}: {TYPES[kind]}" + (" @owned" if own else ""))
            else:
                name = self.fresh(kind)
                self.defs[name] = kind
                params.append(f"{name}: {TYPES[kind]}")
        self.ret_kind = r.choice([None, "i", "i", "b", "p", "t", "ip", "q", "s", "tq", "n"])
        ret_ty = {None: "None", "ip": "tuple[int, P]"}.get(self.ret_kind) or TYPES[self.ret_kind]
        out.add("@guppy")
        out.add(f"def main({', '.join(params)}) -> {ret_ty}:")
        out.ind = 1
        terminated = self.block(out, self.size, 0, None, top=True)
        if not terminated:
            self.ret_stmt(out)
        return PRELUDE + "\n" + "\n".join(out.lines) + "\n"


class Lines:
    def __init__(self):
        self.lines = []
        self.ind = 0

    def add(self, s):
        self.lines.append("    " * self.ind + s)


def generate(r, size=None):
    g = Gen(r, size=size or r.choice([3, 5, 8, 12, 16]), max_depth=r.choice([1, 2, 3]))
    src = g.function()
    return src, sorted(g.features)


# ---------------------------------------------------------------------------------------------
# mode 2: generic functions whose return type is a bare type parameter, instantiated with None,
# tuples (0/1/2 elements, nested), structs, options, arrays, function values -- in value,
# statement, argument, unpacking and return position; direct calls, method calls, function values

GENERIC_PRELUDE = '''import guppylang
guppylang.enable_experimental_features()
from collections.abc import Callable
from typing import Generic
from guppylang import guppy
from guppylang.std.builtins import owned, array
from guppylang.std.option import Option, some, nothing
from guppylang.std.quantum import qubit, discard, h

T = guppy.type_var("T")
S = guppy.type_var("S")
L = guppy.type_var("L", copyable=False, droppable=False)
A = guppy.type_var("A", copyable=False, droppable=True)


@guppy.struct
class P:
    x: int
    y: int


@guppy.struct
class Q:
    q: qubit
    x: int


@guppy.struct
class Box(Generic[T]):
    v: T

    @guppy
    def get(self: "Box[T]") -> T:
        return self.v


@guppy
def ident(x: T) -> T:
    return x


@guppy
def first(x: T, y: S) -> T:
    return x


@guppy
def second(x: S, y: T) -> T:
    return y


@guppy
def choose(c: bool, x: T, y: T) -> T:
    if c:
        return x
    return y


@guppy
def ident_l(x: L @owned) -> L:
    return x


@guppy
def ident_a(x: A @owned) -> A:
    return x


@guppy
def run(f: Callable[[], T]) -> T:
    return f()


@guppy
def app(f: Callable[[S], T], x: S) -> T:
    return f(x)


@guppy
def nop() -> None:
    pass


@guppy
def seven() -> int:
    return 7


@guppy
def mkp() -> P:
    return P(1, 2)


@guppy
def mkopt() -> Option[int]:
    return some(4)


@guppy
def inc(x: int) -> int:
    return x + 1


@guppy
def tofl(x: int) -> float:
    return x + 0.5

'''

# kind -> (expression template with {e} an int expression, consumer of variable {v} as an int or None)
GEN_VALUES = {
    "none": ("None", None),
    "none_call": ("nop()", None),
    "tuple0": ("()", None),
    "tuple1": ("({e},)", "{v}[0]"),
    "tuple2": ("({e}, 2.5)", "{v}[0]"),
    "tuple_nested": ("(({e}, 2), (3,))", "({v}[0][1] + {v}[1][0])"),
    "struct": ("P({e}, 2)", "{v}.x"),
    "option": ("some({e})", "{v}.unwrap()"),
    "option_tuple": ("some(({e}, True))", "{v}.unwrap()[0]"),
    "int": ("{e}", "{v}"),
    "bool": ("({e} > 1)", "(1 if {v} else 0)"),
    "func": ("inc", "{v}(2)"),
}
GEN_CALLS = {   # how the generic function is reached; {x} the instantiating value, {o} some other value
    "ident": "ident({x})",
    "first": "first({x}, {o})",
    "second": "second({o}, {x})",
    "choose": "choose(acc > 3, {x}, {x})",
    "unwrap": "some({x}).unwrap()",
    "box_get": "Box({x}).get()",
    "nested_call": "ident(first({x}, ident({o})))",
}


def generate_generic(r):
    feats = set()
    out = Lines()
    out.add("@guppy")
    ret_kind = r.choice(["int", "int", "none", "tuple2", "struct"])
    ret_ty = {"int": "int", "none": "None", "tuple2": "tuple[int, float]", "struct": "P"}[ret_kind]
    out.add(f"def main(a0: int, c0: bool) -> {ret_ty}:")
    out.ind = 1
    out.add("acc = a0")
    vars_ = []     # (name, kind) defined at top level: can instantiate later calls
    n_uses = r.randint(3, 9)
    for i in range(n_uses):
        kind = r.choice(list(GEN_VALUES))
        call = r.choice(list(GEN_CALLS))
        tmpl, consume = GEN_VALUES[kind]
        e = r.choice(["acc", "a0", str(r.randint(0, 9)), "(acc + 1)"])
        same = [n for n, k in vars_ if k == kind]
        x = r.choice(same) if same and r.random() < 0.4 else tmpl.format(e=e)
        o = r.choice(["1", "None", "(2, 3)", "nop()", "c0", "P(1, 2)"])
        expr = GEN_CALLS[call].format(x=x, o=o)
        pos = r.choice(["val", "val", "stmt", "arg", "unpack", "branch", "loop"])
        feats.add(f"g_inst_{kind}")
        feats.add(f"g_via_{call}")
        v = f"v{i}"
        if pos == "unpack" and kind == "tuple2":
            feats.add("g_pos_unpack")
            out.add(f"p{i}, q{i} = {expr}")
            out.add(f"acc += p{i}")
        elif pos == "stmt":
            feats.add("g_pos_stmt")
            out.add(expr)
        elif pos == "arg":
            feats.add("g_pos_arg")
            out.add(f"{v} = first({expr}, second({o}, acc))")
            vars_.append((v, kind))
            if consume:
                out.add(f"acc += {consume.format(v=v)}")
        elif pos == "branch":
            # the value is produced before a branch and used after it: it travels through block rows
            feats.add("g_pos_across_branch")
            out.add(f"{v} = {expr}")
            out.add(f"if c0 and acc > {r.randint(0, 5)}:")
            out.add(f"    acc += {consume.format(v=v) if consume else '1'}")
            out.add("else:")
            out.add(f"    w{i} = ident({v})")
            out.add("    acc += 2")
            vars_.append((v, kind))
        elif pos == "loop":
            feats.add("g_pos_in_loop")
            out.add(f"k{i} = 0")
            out.add(f"while k{i} < 2:")
            out.add(f"    {v} = {expr}")
            out.add(f"    acc += {consume.format(v=v) if consume else '1'}")
            out.add(f"    k{i} += 1")
        else:
            feats.add("g_pos_value")
            out.add(f"{v} = {expr}")
            vars_.append((v, kind))
            if consume:
                out.add(f"acc += {consume.format(v=v)}")
        if r.random() < 0.25:
            c = r.choice(["fv_int", "fv_struct", "fv_option", "fv_app", "lin", "arr"])
            feats.add("g_" + c)
            if c == "fv_int":
                out.add("acc += run(seven)")
            elif c == "fv_struct":
                out.add("acc += run(mkp).y")
            elif c == "fv_option":
                out.add("acc += run(mkopt).unwrap()")
            elif c == "fv_app":
                out.add(f"fl{i} = app(tofl, app(inc, acc))")
            elif c == "lin":
                out.add(f"s{i} = ident_l(Q(qubit(), acc))")
                out.add(f"t{i} = ident_l((qubit(), s{i}))")
                out.add(f"qa{i}, sb{i} = t{i}")
                out.add(f"discard(qa{i})")
                out.add(f"discard(sb{i}.q)")
                out.add(f"acc += sb{i}.x")
            else:
                out.add(f"ar{i} = ident_a(array(acc, 2, 3))")
                out.add(f"acc += ar{i}[1]")
    feats.add("g_ret_" + ret_kind)
    if ret_kind == "int":
        out.add("return ident(acc)")
    elif ret_kind == "none":
        out.add(r.choice(["return ident(None)", "return first(nop(), acc)", "return"]))
    elif ret_kind == "tuple2":
        out.add(r.choice(["return ident((acc, 1.5))", "return second(None, (acc, 2.5))"]))
    else:
        out.add("return ident(P(acc, 1))")
    return GENERIC_PRELUDE + "\n".join(out.lines) + "\n", sorted(feats)


# ---------------------------------------------------------------------------------------------
# mode 3: nested functions: capturing / not  x  recursive (in a branch, in a loop) / not  x  a local
# that shadows the function's own name (same block, later block, in a loop)  x  where it is defined
# and how it is called

NESTED_PRELUDE = '''import guppylang
guppylang.enable_experimental_features()
from collections.abc import Callable
from guppylang import guppy


@guppy
def app(f: Callable[[int], int], x: int) -> int:
    return f(x)

'''


def nested_body(r, name, caps, rec, shadow):
    """lines of the body of `def name(y: int) -> int`"""
    def cap():
        return r.choice(caps) if caps and r.random() < 0.8 else str(r.randint(1, 4))
    ls = []
    if rec == "branch":
        ls += ["if y < 1:", f"    return {cap()}", f"r = {name}(y - 1) + {cap()}"]
    elif rec == "loop":
        ls += ["r = 0", "i = 0", "while i < y:", f"    r += {name}(i) + {cap()}", "    i += 1"]
    else:
        ls += [f"r = y + {cap()}"]
    if shadow == "same":
        ls += [f"{name} = r + {cap()}", f"return {name}"]
    elif shadow == "later":
        ls += [f"{name} = r + {cap()}", "if y > 0:", f"    return {name}", f"return {cap()}"]
    elif shadow == "loop":
        ls += [f"{name} = 0", "j = 0", "while j < 3:", f"    {name} += r + {cap()}", "    j += 1", f"return {name}"]
    elif r.random() < 0.5:
        ls += ["if r > 5:", "    return r", f"return r + {cap()}"]
    else:
        ls += ["return r"]
    return ls


def generate_nested(r):
    feats = set()
    out = Lines()
    out.add("@guppy")
    out.add("def main(x: int, n: int, b: bool) -> int:")
    out.ind = 1
    out.add("t = x")
    for k in range(r.randint(1, 4)):
        name = r.choice(["f", "g", "acc", "h"]) + str(k)
        ncap = r.choice([0, 0, 1, 2])
        caps = r.sample(["x", "n", "t"], ncap)
        rec = r.choice([None, None, "branch", "loop"])
        shadow = r.choice([None, "same", "later", "later", "loop"])
        if rec and shadow and not caps:
            caps = ["x"]      # a non-capturing recursive function cannot re-bind its own name (rejected)
        place = r.choice(["top", "top", "branch", "loop"])
        depth2 = r.random() < 0.2
        feats.add(f"n_{'cap' if caps else 'nocap'}_{rec or 'norec'}_shadow_{shadow or 'none'}")
        feats.add(f"n_def_in_{place}")
        if place == "branch":
            out.add(f"if b or t > {r.randint(0, 5)}:")
            out.ind += 1
        elif place == "loop":
            out.add(f"i{k} = 0")
            out.add(f"while i{k} < 2:")
            out.ind += 1
        out.add(f"def {name}(y: int) -> int:")
        out.ind += 1
        if depth2:
            feats.add("n_depth2")
            inner = "in" + str(k)
            out.add(f"def {inner}(y: int) -> int:")
            out.ind += 1
            for l in nested_body(r, inner, caps + ["y"], r.choice([None, "branch"]), r.choice([None, "later", "loop"])):
                out.add(l)
            out.ind -= 1
            out.add(f"y = {inner}(y)")
        for l in nested_body(r, name, caps, rec, shadow):
            out.add(l)
        out.ind -= 1
        call = r.choice(["direct", "direct", "app", "twice"])
        feats.add(f"n_call_{call}")
        arg = r.choice(["t", "n", "2", "(t - 1)"])
        if call == "direct":
            out.add(f"t += {name}({arg})")
        elif call == "app":
            out.add(f"t += app({name}, {arg})")
        else:
            out.add(f"t += {name}({name}({arg}))")
        if place == "branch":
            out.ind -= 1
        elif place == "loop":
            out.add(f"i{k} += 1")
            out.ind -= 1
    out.add("return t")
    return NESTED_PRELUDE + "\n".join(out.lines) + "\n", sorted(feats)


_generate_general = generate


def generate(r, size=None):      # noqa: F811
    m = r.random()
    if m < 0.70:
        src, feats = _generate_general(r, size)
        return src, feats + ["mode_general"]
    if m < 0.85:
        src, feats = generate_generic(r)
        return src, feats + ["mode_generic_matrix"]
    src, feats = generate_nested(r)
    return src, feats + ["mode_nested_matrix"]


# ---------------------------------------------------------------------------------------------
# mode 4: the same checked CFG lowered several times (comptime-argument monomorphization), for
# functions that never return (exit block without predecessors) and ordinary ones

MULTI_PRELUDE = '''from guppylang import guppy
from guppylang.std.builtins import comptime, owned
from guppylang.std.quantum import qubit, discard, h

T = guppy.type_var("T")


@guppy.struct
class P:
    x: int
    y: int

'''
MULTI_RET = {"none": ("None", None), "int": ("int", "{v}"), "tuple": ("tuple[int, bool]", "{v}[0]"),
             "struct": ("P", "{v}.x"), "generic": ("T", None)}


def generate_multi(r):
    feats = set()
    out = Lines()
    helpers = []
    for k in range(r.randint(1, 3)):
        name = f"fn{k}"
        diverge = r.random() < 0.6
        ret = r.choice(list(MULTI_RET))
        ct = r.choice(["int", "bool", "int_bool"])
        params = {"int": "n: int @comptime", "bool": "f: bool @comptime", "int_bool": "n: int @comptime, f: bool @comptime"}[ct]
        extra = r.choice(["", "x: int", "q: qubit"])
        if ret == "generic":
            extra = "x: T"
        sig = ", ".join(p for p in (params, extra) if p)
        out.add("@guppy")
        out.add(f"def {name}({sig}) -> {MULTI_RET[ret][0]}:")
        cond = "n > 1" if "n:" in params else "f"
        val = {"none": None, "int": "3", "tuple": "(4, True)", "struct": "P(1, 2)", "generic": "x"}[ret]
        if diverge:
            form = r.choice(["while_true", "while_true_body", "branch_then_spin"])
            if form == "while_true":
                out.add("    while True:")
                out.add("        pass")
            elif form == "while_true_body":
                out.add("    k = 0")
                out.add("    while True:")
                out.add("        k += 1" if extra != "q: qubit" else "        h(q)")
            else:
                out.add(f"    if {cond}:")
                out.add("        while True:")
                out.add("            pass")
                out.add("    while True:")
                out.add("        pass")
        else:
            out.add(f"    if {cond}:")
            out.add(f"        return {val}" if val else "        return")
            if extra == "q: qubit":
                out.add("    h(q)")
            out.add(f"    return {val}" if val else "    return")
        out.add("")
        out.add("")
        helpers.append((name, ct, extra, ret, diverge))
        feats.add(f"m_{'diverging' if diverge else 'returning'}_ret_{ret}")
    out.add("@guppy")
    out.add("def main(a: int, b: bool, q0: qubit) -> int:")
    out.ind = 1
    out.add("acc = a")
    j = 0
    for name, ct, extra, ret, diverge in helpers:
        times = r.randint(1, 3)
        feats.add(f"m_lowered_{times}x")
        insts = []
        while len(insts) < times:
            c = {"int": lambda: str(r.randint(0, 4)), "bool": lambda: r.choice(["True", "False"]),
                 "int_bool": lambda: f"{r.randint(0, 3)}, {r.choice(['True', 'False'])}"}[ct]()
            if c not in insts or ct == "bool" and len(insts) >= 2:
                insts.append(c)
        for c in insts + ([insts[0]] if r.random() < 0.3 else []):
            arg = {"": "", "x: int": ", acc", "q: qubit": ", q0", "x: T": r.choice([", acc", ", (acc, b)", ", None", ", P(acc, 1)"])}[extra]
            call = f"{name}({c}{arg})"
            in_branch = r.random() < 0.3
            if in_branch:
                out.add(f"if b and acc > {r.randint(0, 5)}:")
                out.ind += 1
            consume = MULTI_RET[ret][1]
            if consume and r.random() < 0.8:
                out.add(f"w{j} = {call}")
                out.add(f"acc += {consume.format(v=f'w{j}')}")
            else:
                out.add(call if ret in ("none",) or r.random() < 0.5 else f"w{j} = {call}")
            if in_branch:
                out.ind -= 1
            j += 1
    out.add("return acc")
    return MULTI_PRELUDE + "\n".join(out.lines) + "\n", sorted(feats)


_generate_3modes = generate


def generate(r, size=None):      # noqa: F811
    if r.random() < 0.12:
        src, feats = generate_multi(r)
        return src, feats + ["mode_multi_lowering"]
    return _generate_3modes(r, size)
