def run(ctx, model_ok):
    return {"scripts": 0, "note": "not yet built"}
