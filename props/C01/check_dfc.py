"""C01 — X-tie for DFContainer: random place trees and set/get scripts, real DFContainer on a real
hugr Dfg (impl_dfc.py) vs ModelDfc.run_script (vm_compute); the invariant of dfc_linear is also
evaluated on the real container after every successful operation (specification side)."""
import json

import vlib

HEADER = ("From Coq Require Import ZArith List Bool.\nFrom V.C01 Require Import ModelDfc ModelObs.\n"
          "Import ListNotations.\n")


def gen_tree(r, depth):
    if depth == 0 or r.random() < 0.45:
        return r.choice(["q", "q", "i", "i", "a"])
    return [r.choice(["tuple", "struct"]), [gen_tree(r, depth - 1) for _ in range(r.randint(0, 3) if r.random() < 0.1 else r.randint(1, 3))]]


def sub_pids(tree, pre):
    out = [pre]
    if isinstance(tree, list):
        for i, k in enumerate(tree[1]):
            out += sub_pids(k, pre + [i])
    return out


def gen_case(r):
    env = [gen_tree(r, r.randint(0, 3)) for _ in range(r.randint(1, 3))]
    ret = [isinstance(t, list) and r.random() < 0.12 for t in env]
    pids = []
    for i, t in enumerate(env):
        pids += [[i]] if ret[i] else sub_pids(t, [i])
    script = []
    # mostly sensible: initialise some roots, then random accesses; sometimes garbage
    for i in range(len(env)):
        # a `%ret` variable is always assigned before it is read (the model keeps it as a leaf)
        if ret[i] or r.random() < 0.8:
            script.append(["set", [i]])
    for _ in range(r.randint(1, 8)):
        p = r.choice(pids)
        if r.random() < 0.04 and not ret[p[0]]:
            p = p + [r.randint(0, 3)]
        script.append([r.choice(["get", "get", "set"]), p])
    return {"env": env, "ret": ret, "script": script}


def flags(tree):
    """(copyable, droppable) of a type tree."""
    if tree == "q":
        return False, False
    if tree == "i":
        return True, True
    if tree == "a":
        return False, True
    fs = [flags(k) for k in tree[1]]
    return all(c for c, _ in fs), all(d for _, d in fs)


def coq_ty(tree, as_leaf=False):
    if not isinstance(tree, list) or as_leaf:
        c, d = flags(tree)
        return f"(TLeaf {'true' if c else 'false'} {'true' if d else 'false'})"
    return "(TNode [" + "; ".join(coq_ty(k) for k in tree[1]) + "])"


def coq_case(case):
    env = "[" + "; ".join(coq_ty(t, as_leaf=rt) for t, rt in zip(case["env"], case["ret"])) + "]"
    sc = "[" + "; ".join(("SSet " if k == "set" else "SGet ") + "[" + "; ".join(f"{i}%nat" for i in p) + "]" for k, p in case["script"]) + "]"
    return f"Eval vm_compute in (observe_dfc {env} {sc})."


def run(ctx, model_ok):
    r = vlib.rng(ctx.seed, "C01/dfc")
    n = 200 if ctx.quick else 3000
    cases = [json.loads(f.read_text()) for f in sorted((ctx.dir / "corpus").glob("dfc_*.json"))]
    cases += [gen_case(r) for _ in range(n)]
    cov = {"scripts": len(cases), "disagreements": 0, "invariant_violations_on_real_container": 0}
    try:
        impl = json.loads(ctx.impl("impl_dfc.py", {"cases": cases}))
    except RuntimeError as e:
        ctx.report("dfc-harness", "correspondence", "impl_dfc.py could not run", {"error": str(e)[-1500:]}, found_input=False)
        return cov
    full = packs = 0
    for case, res in zip(cases, impl):
        if "harness_error" in res:
            ctx.report("dfc-harness:" + json.dumps(case), "correspondence", "impl_dfc.py failed on a case",
                       {"case": case, "error": res["harness_error"], "tb": res.get("tb")}, found_input=False)
            return cov
        full += res["steps"] == len(case["script"])
        packs += any(o[0] == 0 for o in res["log"])
        if not res["inv"]:
            cov["invariant_violations_on_real_container"] += 1
            if cov["invariant_violations_on_real_container"] <= 2:
                ctx.report("dfc-inv:" + json.dumps(case), "counterexample",
                           "DFContainer holds a linear place both by its own entry and by a packed ancestor (dfc_linear)",
                           {"case": case, "observed": res, "expected": "no entry for a linear place below another entry",
                            "replay": "echo '{\"cases\": [<case>]}' | python props/C01/impl_dfc.py (PYTHONPATH as in vlib.impl_env)"})
    cov["scripts_running_to_the_end"] = full
    cov["scripts_with_a_MakeTuple"] = packs
    if not model_ok:
        return cov
    per = 250
    files = {f"dfc{k}": HEADER + "\n".join(coq_case(c) for c in cases[k * per:(k + 1) * per])
             for k in range((len(cases) + per - 1) // per)}
    try:
        outs = ctx.coq_eval_many(files)
        vals = []
        for k in range(len(files)):
            vals += vlib.parse_coq_values(outs[f"dfc{k}"])
        if len(vals) != len(cases):
            raise RuntimeError(f"parsed {len(vals)} of {len(cases)} values")
    except RuntimeError as e:
        ctx.report("dfc-model-eval", "correspondence", "ModelObs.observe_dfc could not be evaluated", {"error": str(e)[-1500:]}, found_input=False)
        return cov
    for case, res, m in zip(cases, impl, vals):
        hdr, mlocals, mlog = m
        exp = [[[res["steps"], 1 if res["inv"] else 0, hdr[0][2]]], sorted(res["locals"]), res["log"]]
        got = [hdr, sorted(mlocals), mlog]
        if exp != got:
            cov["disagreements"] += 1
            if cov["disagreements"] <= 2:
                ctx.report("dfc-model:" + json.dumps(case), "correspondence", "DFContainer: model (ModelDfc) vs implementation",
                           {"case": case, "implementation": exp, "model": got, "impl_error": res["error"],
                            "encoding": "[[steps_ok, invariant, env_ok]], locals as [wire, root, selectors...], log as [0=MakeTuple|1=UnpackTuple, wire, wires...]"})
    return cov
