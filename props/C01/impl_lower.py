"""C01 implementation-side harness: compile generated programs with /repo's compiler (under the
shim), record the checked CFG that compile_cfg consumes (before and after insert_return_vars)
and read the rows of every DataflowBlock back from the HUGR object; validate the package with
selene_hugr_qis_compiler.check_hugr.

stdin : {"programs": [{"id": str, "src": str, "entry": str}], "selftest": bool}
stdout: {"results": [...], "selftest": {...}}

The only code injected into /repo's pipeline is a *recording* wrapper around
cfg_compiler.compile_cfg / compile_bb (it calls the original and changes nothing)."""
import importlib.util
import json
import os
import sys
import traceback

import repo_shim  # noqa: F401
import selene_hugr_qis_compiler as sq
from hugr import ops

import guppylang_internals.compiler.cfg_compiler as cc
import guppylang_internals.compiler.func_compiler as fc
from guppylang_internals.checker.core import Variable
from guppylang_internals.error import GuppyError
from guppylang_internals.tys.ty import InputFlags, type_to_row

# ---- C06's structural dumper of the CheckedCFG[Variable] that reaches check_cfg_linearity -----
# (props/C06/impl_lin.py runs its main() on import, so only its definitions are loaded)
_c06_dumps = {}
try:
    import guppylang_internals.checker.linearity_checker as _lc
    _src = open(os.path.join(os.path.dirname(os.path.abspath(__file__)), "..", "C06", "impl_lin.py")).read()
    _ns = {"__name__": "c06_impl_lin_defs"}
    exec(compile(_src[:_src.index("records = []")], "impl_lin.py", "exec"), _ns)
    _Dumper = _ns["Dumper"]
    _orig_lin = _lc.check_cfg_linearity

    def _rec_lin(cfg, func_name, globals):
        d = _Dumper()
        rec = {}
        try:
            rec["dump"] = d.cfg(cfg)
        except Exception as e:  # noqa: BLE001
            d.unmodelled.append(f"dump failed: {type(e).__name__}: {e}")
        rec["unmodelled"] = sorted(set(d.unmodelled))
        rec["names"] = [n for n, _ in sorted(d.ids.items(), key=lambda kv: kv[1])]
        _c06_dumps[func_name] = rec
        return _orig_lin(cfg, func_name, globals)
    _lc.check_cfg_linearity = _rec_lin
    for _m in list(sys.modules.values()):
        if _m is not None and _m is not _lc and getattr(_m, "check_cfg_linearity", None) is _orig_lin:
            _m.check_cfg_linearity = _rec_lin
    _C06_ERR = None
except Exception as _e:  # noqa: BLE001
    _C06_ERR = f"{type(_e).__name__}: {_e}"

_orig_cfg, _orig_bb = cc.compile_cfg, cc.compile_bb
_stack = []
_records = []


class TyTable:
    def __init__(self):
        self.ids = {}

    def id(self, hugr_ty):
        # canonical form: the serialised type (repr distinguishes BorrowArray(...) from the equal ExtType(...))
        try:
            key = hugr_ty._to_serial_root().model_dump_json()
        except Exception:  # noqa: BLE001
            key = repr(hugr_ty)
        return self.ids.setdefault(key, len(self.ids))


_tt = TyTable()


def dump_var(p, ctx):
    return {"name": str(p), "pid": repr(p.id), "drop": bool(p.ty.droppable), "ty": _tt.id(p.ty.to_hugr(ctx)),
            "lin": bool(p.ty.linear), "hugr": str(p.ty.to_hugr(ctx))}


def dump_cfg(cfg, ctx):
    pos = {id(bb): i for i, bb in enumerate(cfg.bbs)}
    bbs = []
    for bb in cfg.bbs:
        bbs.append({"in": [dump_var(p, ctx) for p in bb.sig.input_row],
                    "outs": [[dump_var(p, ctx) for p in row] for row in bb.sig.output_rows],
                    "succs": [pos[id(s)] for s in bb.successors],
                    "preds": [pos.get(id(s), -1) for s in bb.predecessors],
                    "n_stmts": len(bb.statements), "reachable": bool(bb.reachable)})
    entry = cfg.entry_bb
    return {"bbs": bbs, "entry": pos[id(cfg.entry_bb)], "exit": pos[id(cfg.exit_bb)],
            "ret": [[_tt.id(t.to_hugr(ctx)), bool(t.droppable)] for t in type_to_row(cfg.output_ty)],
            "inputs": [[_tt.id(v.ty.to_hugr(ctx)), bool(isinstance(v, Variable) and InputFlags.Inout in v.flags)]
                       for v in entry.sig.input_row]}


def read_conditional(hugr, block, block_op):
    """For a block whose Sum variants carry values: the Conditional that produces the branch Sum
    (other-input types, and per Case the Input offsets wired into its Tag)."""
    if not any(len(r) for r in block_op.sum_ty.variant_rows):
        return None
    out_node = hugr.children(block)[1]
    src = list(hugr.linked_ports(out_node.inp(0)))
    if not src:
        return {"error": "branch port of the block is not connected"}
    cnode = src[0].node
    cop = hugr[cnode].op
    if not isinstance(cop, ops.Conditional):
        return {"error": f"branch Sum comes from {type(cop).__name__}, not a Conditional"}
    pred = list(hugr.linked_ports(cnode.inp(0)))
    cases = []
    for case in hugr.children(cnode):
        kids = hugr.children(case)
        inp = kids[0]
        tags = [k for k in kids if isinstance(hugr[k].op, ops.Tag)]
        if len(tags) != 1:
            cases.append({"error": f"{len(tags)} Tag nodes"})
            continue
        tag = tags[0]
        offs = []
        for j in range(hugr.num_in_ports(tag)):
            links = list(hugr.linked_ports(tag.inp(j)))
            if len(links) == 1 and links[0].node == inp:
                offs.append(links[0].offset)
            elif links:
                offs.append(-2)
        # the Tag must feed the Case output
        cases.append({"tag": hugr[tag].op.tag, "offsets": offs,
                      "n_case_inputs": hugr.num_out_ports(inp)})
    return {"pred_rows": [len(r) for r in cop.sum_ty.variant_rows],
            "other_inputs": [_tt.id(t) for t in cop.other_inputs], "cases": cases,
            "pred_from": type(hugr[pred[0].node].op).__name__ if pred else None}


def _rec_compile_cfg(cfg, container, inputs, ctx):
    cur = {"pre": dump_cfg(cfg, ctx), "nodes": {}}
    _stack.append(cur)
    try:
        res = _orig_cfg(cfg, container, inputs, ctx)
    finally:
        _stack.pop()
    cur["post"] = dump_cfg(cfg, ctx)
    hugr = res.hugr
    blocks = []
    for i, bb in enumerate(cfg.bbs):
        node = cur["nodes"].get(i)
        if node is None:
            blocks.append(None)
            continue
        node = node.to_node()
        op = hugr[node].op
        if isinstance(op, ops.ExitBlock):
            blocks.append({"exit": True, "cfg_outputs": [_tt.id(t) for t in op._cfg_outputs]})
            continue
        succ_nodes = []
        for k in range(hugr.num_out_ports(node)):
            links = list(hugr.linked_ports(node.out(k)))
            succ_nodes.append(links[0].node.idx if links else None)
        blocks.append({"exit": False, "node": node.idx, "cond": read_conditional(hugr, node, op),
                       "inputs": [_tt.id(t) for t in op.inputs],
                       "variants": [[_tt.id(t) for t in row] for row in op.sum_ty.variant_rows],
                       "others": [_tt.id(t) for t in op.other_outputs],
                       "succ_nodes": succ_nodes})
    cur["blocks"] = blocks
    cfg_op = hugr[res.parent_node].op
    cur["cfg_outputs"] = [_tt.id(t) for t in cfg_op.outputs]
    cur["cfg_inputs"] = [_tt.id(t) for t in cfg_op.inputs]
    par = hugr[res.parent_node].parent
    cur["parent"] = (hugr, par)
    del cur["nodes"]
    _records.append(cur)
    return res


def _rec_compile_bb(bb, builder, is_entry, ctx):
    node = _orig_bb(bb, builder, is_entry, ctx)
    cfg = bb.containing_cfg
    for i, b in enumerate(cfg.bbs):
        if b is bb:
            _stack[-1]["nodes"][i] = node
    return node


cc.compile_cfg = _rec_compile_cfg
cc.compile_bb = _rec_compile_bb
fc.compile_cfg = _rec_compile_cfg
for _m in list(sys.modules.values()):
    # any other module that did `from ...cfg_compiler import compile_cfg`
    if _m is not None and getattr(_m, "compile_cfg", None) is _orig_cfg:
        _m.compile_cfg = _rec_compile_cfg


def finish_records():
    out = []
    for cur in _records:
        hugr, par = cur.pop("parent")
        op = hugr[par].op
        fo = None
        if isinstance(op, ops.FuncDefn):
            try:
                fo = [_tt.id(t) for t in op.outputs]
            except Exception:  # noqa: BLE001
                fo = None
            cur["func_name"] = op.f_name
            cur["func_inputs"] = [_tt.id(t) for t in op.inputs]
        cur["func_outputs"] = fo
        cur["c06"] = _c06_dumps.get(cur.get("func_name")) if _C06_ERR is None else {"unmodelled": ["C06 dumper unavailable: " + _C06_ERR]}
        out.append(cur)
    return out


def load_module(name, path):
    spec = importlib.util.spec_from_file_location(name, path)
    mod = importlib.util.module_from_spec(spec)
    sys.modules[name] = mod
    spec.loader.exec_module(mod)
    return mod


def run_one(prog, k):
    global _tt
    _tt = TyTable()
    _records.clear()
    _stack.clear()
    _c06_dumps.clear()
    res = {"id": prog["id"]}
    name = f"c01prog_{os.getpid()}_{k}"
    path = os.path.join(os.getcwd(), name + ".py")
    with open(path, "w") as f:
        f.write(prog["src"])
    try:
        mod = load_module(name, path)
        entry = getattr(mod, prog.get("entry", "main"))
    except GuppyError as e:
        res.update(status="rejected", stage="load", error=type(e.error).__name__)
        return res
    except Exception as e:  # noqa: BLE001
        res.update(status="load_error", error=f"{type(e).__name__}: {e}", tb=traceback.format_exc()[-1500:])
        return res
    try:
        entry.check()
    except GuppyError as e:
        res.update(status="rejected", stage="check", error=type(e.error).__name__,
                   msg=str(getattr(e.error, "rendered_title", ""))[:200])
        return res
    except Exception as e:  # noqa: BLE001
        res.update(status="check_crash", error=f"{type(e).__name__}: {e}", tb=traceback.format_exc()[-1500:])
        return res
    try:
        pkg = entry.compile_function() if prog.get("mode", "function") == "function" else entry.compile()
        data = pkg.to_bytes()
    except GuppyError as e:
        res.update(status="rejected", stage="compile", error=type(e.error).__name__)
        return res
    except Exception as e:  # noqa: BLE001
        res.update(status="ice", error=f"{type(e).__name__}: {e}", tb=traceback.format_exc()[-2500:])
        return res
    res["status"] = "ok"
    res["n_bytes"] = len(data)
    try:
        res["cfgs"] = finish_records()
    except Exception as e:  # noqa: BLE001
        res["cfgs"] = []
        res["harness_error"] = f"{type(e).__name__}: {e}\n{traceback.format_exc()[-1500:]}"
    res["types"] = {v: k for k, v in _tt.ids.items()}
    try:
        sq.check_hugr(data)
        res["check_hugr"] = "ok"
    except BaseException as e:  # noqa: BLE001  (pyo3 errors)
        msg = str(e)
        cut = msg.find("Stack backtrace")
        res["check_hugr"] = (msg[:cut] if cut > 0 else msg)[:800].strip()
    return res


def validator_selftest():
    """Feed check_hugr one well-formed and one deliberately broken package: a linear (qubit)
    wire connected twice.  The validator must accept the first and reject the second."""
    from hugr import tys as ht
    from hugr.build.function import Module
    from hugr.package import Package

    def build(broken):
        m = Module()
        f = m.define_function("main", [ht.Qubit], [ht.Qubit, ht.Qubit] if broken else [ht.Qubit])
        (q,) = f.inputs()
        f.set_outputs(q, q) if broken else f.set_outputs(q)
        return Package([m.hugr]).to_bytes()

    out = {}
    for label, broken in (("good", False), ("broken", True)):
        try:
            sq.check_hugr(build(broken))
            out[label] = "accepted"
        except BaseException as e:  # noqa: BLE001
            msg = str(e)
            cut = msg.find("Stack backtrace")
            out[label] = "rejected: " + (msg[:cut] if cut > 0 else msg)[:300].strip()
    return out


def main():
    payload = json.load(sys.stdin)
    results = []
    for k, prog in enumerate(payload["programs"]):
        try:
            results.append(run_one(prog, k))
        except BaseException as e:  # noqa: BLE001
            results.append({"id": prog["id"], "status": "harness_crash", "error": f"{type(e).__name__}: {e}",
                            "tb": traceback.format_exc()[-1500:]})
    out = {"results": results}
    if payload.get("selftest"):
        try:
            out["selftest"] = validator_selftest()
        except Exception as e:  # noqa: BLE001
            out["selftest"] = {"error": f"{type(e).__name__}: {e}", "tb": traceback.format_exc()[-1500:]}
    json.dump(out, sys.stdout)


if __name__ == "__main__":
    main()
