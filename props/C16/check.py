"""C16 — implicit numeric coercions only widen.  Tie: T (translator) + X (differential harness).

1. regenerate coq/C16/GenCoerce.v from the tree under test (tr_coerce.py, fail-closed): Kind order
   and names, the comparison / lookup / target of try_coerce_to, the fallback of
   check_type_against, the NumericType case of unify, every method row of std/num.py;
2. re-check coq/C16/Props.v (coerce_iff_lt, no_narrowing, widening_is_accepted, coerce_value,
   nat_to_int_exact_iff_representable, float_coercion_exact_to_2p53, rne53_is_round_ties_even);
3. X: for every syntactic position x (actual, expected) pair a tiny @guppy function is checked and
   compiled by the real compiler (impl_coerce.py under repo_shim): accept/reject and the chain of
   HUGR ops between the operand and the result are compared with the model (vm_compute in Coq);
   the trusted rounding function rne53 is compared with CPython's correctly rounded int->float;
4. failing-input search (always run, independent of the Coq model): accept/reject against the
   property's own table (equal or nat->int->float widening, nothing else) and the value of the
   *implementation's* op chain on boundary words (0, 1, 2^53+1, 2^63-1, 2^63, 2^64-1, ...) against
   the mathematical value (CPython) — so a broken proof or a translator failure is reported with a
   concrete program and operand."""
import json
import os
import re
import subprocess

import vlib
from vlib import proof_coverage

LEVEL = "proof"
TYS = ["nat", "int", "float", "bool"]
CT = {"nat": "TNat", "int": "TInt", "float": "TFloat", "bool": "TBool"}
KIND = {"nat": 0, "int": 1, "float": 2}
M64, H64 = 1 << 64, 1 << 63
LIT = {"nat": "5", "int": "-5", "float": "2.5", "bool": "True"}     # a value whose Guppy type (given the hint) is A
COERCING = {"PAnnAssign": True, "PArgument": True, "PReturn": True, "PMethodOperand": True, "PTupleElem": True,
            "POpResult": True, "PLiteral": True, "PCallResult": False, "PComptime": False}
CONV = {"arithmetic.conversions.convert_u": lambda w: float(w),
        "arithmetic.conversions.convert_s": lambda w: float(w if w < H64 else w - M64)}


def generate(ctx):
    import tr_coerce
    ctx.gen("GenCoerce.v", tr_coerce.translate(ctx))


# ------------------------------------------------------------------------------------------
# the property's own table (specification side; independent of model and code)


def widens(a, e):
    return a in KIND and e in KIND and KIND[a] < KIND[e]


def spec_accept(pos, a, e):
    """True = must be accepted, False = must be rejected, None = the property does not say"""
    if a == e:
        return True
    if widens(a, e):
        return True if COERCING[pos] else None
    return False


def mval(t, w):
    return w - M64 if t == "int" and w >= H64 else w


def representable(e, v):
    return {"nat": 0 <= v < M64, "int": -H64 <= v < H64, "float": True, "bool": False}[e]


# ------------------------------------------------------------------------------------------
# programs


def lit_act(a, e):
    """Guppy type of the literal LIT[a] under hint e (python_value_to_guppy_type): a non-negative int
    literal is a nat only under a nat hint; `5` is the literal used for nat, so under any other hint
    it is an int"""
    if a == "nat":
        return "nat" if e == "nat" else "int"
    return a


def programs():
    prelude = []
    for t in TYS:
        prelude += ["@guppy", f"def g_{t}(x: {t}) -> {t}:", "    return x",
                    "@guppy", f"def g2_{t}(b: bool, x: {t}) -> {t}:", "    return x",
                    "@guppy", f"def h_{t}() -> {t}:", f"    x: {t} = {LIT[t]}", "    return x"]
    cases = []

    def add(pos, a, e, body, params, ret, operand="a0", act=None, variant=""):
        i = len(cases)
        fn = f"f{i}"
        src = ["@guppy", f"def {fn}({params}) -> {ret}:"] + ["    " + b for b in body]
        cases.append({"id": f"{pos}{variant}:{a}:{e}", "pos": pos, "act": act or a, "exp": e, "fn": fn, "src": src,
                      "operand": operand, "label_act": a})

    for a in TYS:
        for e in TYS:
            add("PAnnAssign", a, e, [f"x: {e} = a0", "return x"], f"a0: {a}", e)
            add("PArgument", a, e, [f"return g_{e}(a0)"], f"a0: {a}", e)
            add("PReturn", a, e, ["return a0"], f"a0: {a}", e)
            add("PArgument", a, e, [f"return g2_{e}(True, a0)"], f"a0: {a}", e, variant="2")
            add("PTupleElem", a, e, ["return ((True, a0), False)"], f"a0: {a}", f"tuple[tuple[bool, {e}], bool]", variant="Nested")
            add("PAnnAssign", a, e, [f"y = a0", f"x: {e} = y", "z = x", "return z"], f"a0: {a}", e, variant="Var")
            meth = "__and__" if e == "bool" else "__add__"
            add("PMethodOperand", a, e, [f"return a1.{meth}(a0)"], f"a0: {a}, a1: {e}", e)
            add("PTupleElem", a, e, ["return (a0, True)"], f"a0: {a}", f"tuple[{e}, bool]")
            if a != "bool":
                add("POpResult", a, e, [f"x: {e} = +a0", "return x"], f"a0: {a}", e)
            add("PCallResult", a, e, [f"x: {e} = h_{a}()", "return x"], "", e, operand="const")
            la = lit_act(a, e)
            add("PLiteral", a, e, [f"x: {e} = {LIT[a]}", "return x"], "", e, operand="const", act=la)
            add("PComptime", a, e, [f"x: {e} = comptime({LIT[a]})", "return x"], "", e, operand="const", act=la)
    # binary operators: the narrower operand is coerced to the wider type
    for a in KIND:
        for b in KIND:
            wide = a if KIND[a] >= KIND[b] else b
            for opn, sym, ret in (("Add", "+", wide), ("Lt", "<", "bool"), ("Sub", "-", wide), ("Mult", "*", wide),
                                  ("Eq", "==", "bool"), ("GtE", ">=", "bool")):
                i = len(cases)
                cases.append({"id": f"Bin{opn}:{a}:{b}", "pos": "Bin", "act": a, "exp": b, "wide": wide, "fn": f"f{i}",
                              "src": ["@guppy", f"def f{i}(a0: {a}, a1: {b}) -> {ret}:", f"    return a0 {sym} a1"],
                              "operand": "both", "label_act": a})
    return prelude, cases


NUM = ["nat", "int", "float"]
# uses of one value inside ONE basic block; a0: nat, a1: int, i = int alias of a0 (implicit, a no-op), k = int(a0)
USES = {   # name: (statement template with {u}, parameter the value comes from, static source type, target type)
    "Fi": ("{u}: float = i", 0, "int", "float"),
    "Fn": ("{u}: float = a0", 0, "nat", "float"),
    "Fn2": ("{u}: float = a0", 0, "nat", "float"),
    "Fj": ("{u}: float = a1", 1, "int", "float"),
    "Fk": ("{u}: float = k", 0, "int", "float"),
    "Gi": ("{u} = g_float(i)", 0, "int", "float"),
    "Gn": ("{u} = g_float(a0)", 0, "nat", "float"),
    "In": ("{u}: int = a0", 0, "nat", "int"),
    "Bn": ("{u} = a0 + 0.5", 0, "nat", "float"),
    "Bi": ("{u} = i * 1.5", 0, "int", "float"),
    "Bj": ("{u} = 2.5 - a1", 1, "int", "float"),
}


def multi_programs(r, quick):
    import itertools
    names = list(USES)
    seqs = [list(p) for p in itertools.permutations(names, 2)]
    triples = [list(p) for p in itertools.permutations(names, 3)]
    r.shuffle(triples)
    seqs += triples[:60 if quick else 500]
    seqs += [["Fi", "Fn", "Fj", "Gn", "Gi", "Bn", "Bi"], ["Fn", "Fi", "Gi", "Gn", "Bi", "Bn", "Fk"], ["Gn", "Bi", "Fn", "Fi", "Fk", "In", "Bj"]]
    out = []
    for seq in seqs:
        body = ["i: int = a0", "k = int(a0)"]
        outs, rets = [], []
        for n, u in enumerate(seq):
            tmpl, par, src, tgt = USES[u]
            body.append(tmpl.format(u=f"u{n}"))
            outs.append({"use": u, "param": par, "src": src, "tgt": tgt})
            rets.append(tgt)
        body.append("return (" + ", ".join(f"u{n}" for n in range(len(seq))) + ")")
        out.append({"id": "Multi:" + ">".join(seq), "pos": "Multi", "params": "a0: nat, a1: int", "ret": f"tuple[{', '.join(rets)}]",
                    "body": body, "outs": outs})
    return out


GEN_PRELUDE = ["from typing import Generic", "from guppylang.std.builtins import array",
               "T = guppy.type_var('T', copyable=True, droppable=True)",
               "@guppy", "def both(p: tuple[T, T]) -> tuple[T, T]:", "    return p",
               "@guppy", "def both3(p: tuple[T, T, T]) -> tuple[T, T, T]:", "    return p",
               "@guppy", "def pair(a: T, b: T) -> tuple[T, T]:", "    return (a, b)",
               "@guppy", "def triple(a: T, b: T, c: T) -> tuple[T, T, T]:", "    return (a, b, c)",
               "@guppy.struct", "class S(Generic[T]):", "    a: T", "    b: T"]


def generic_programs():
    import itertools
    out = []

    def add(fam, flag, elts, r, body, ret):
        params = ", ".join(f"a{k}: {t}" for k, t in enumerate(elts))
        out.append({"id": f"{fam}:{'-'.join(elts)}:{r}", "pos": "Gen", "fam": fam, "flag": flag, "elts": list(elts), "exp": r,
                    "params": params, "ret": ret, "body": body})

    for a, b in itertools.product(NUM, NUM):
        for r in NUM:
            add("GTuple", "tuple", (a, b), r, [f"t: tuple[{r}, {r}] = both((a0, a1))", "return t"], f"tuple[{r}, {r}]")
            add("GTupleRet", "tuple", (a, b), r, ["return both((a0, a1))"], f"tuple[{r}, {r}]")
            add("GArgs", "args", (a, b), r, [f"t: tuple[{r}, {r}] = pair(a0, a1)", "return t"], f"tuple[{r}, {r}]")
            add("GStruct", "args", (a, b), r, [f"s: S[{r}] = S(a0, a1)", "return (s.a, s.b)"], f"tuple[{r}, {r}]")
            add("GNested", "tuple", (a, b), r, [f"t: tuple[tuple[{r}, bool], tuple[{r}, bool]] = both(((a0, True), (a1, False)))", "return t"],
                f"tuple[tuple[{r}, bool], tuple[{r}, bool]]")
            add("GArray", "tuple", (a, b), r, ["s = array(a0, a1)", "return s"], f"array[{r}, 2]")
    for a, b, c in itertools.product(NUM, NUM, NUM):
        for r in NUM:
            add("GTuple3", "tuple", (a, b, c), r, [f"t: tuple[{r}, {r}, {r}] = both3((a0, a1, a2))", "return t"], f"tuple[{r}, {r}, {r}]")
            add("GArgs3", "args", (a, b, c), r, ["return triple(a0, a1, a2)"], f"tuple[{r}, {r}, {r}]")
    return out


def finish_cases(cases, extra):
    """give the Multi / Gen cases function names and sources"""
    for c in extra:
        i = len(cases)
        c["fn"] = f"f{i}"
        c["src"] = ["@guppy", f"def f{i}({c['params']}) -> {c['ret']}:"] + ["    " + b for b in c["body"]]
        c.setdefault("act", "")
        c.setdefault("exp", "")
        cases.append(c)


def chains_to_params(trees, nparams):
    """for every parameter a_k: the unary ops wrapped directly around its (unique) occurrence in the output trees
    -> ({k: [[ops] per occurrence in output order]}, error)"""
    occ = {k: [] for k in range(nparams)}

    def walk(t, chain):
        t = t.strip()
        m = re.fullmatch(r"a(\d+)", t)
        if m:
            occ[int(m.group(1))].append(chain[::-1])
            return
        m = re.match(r"([\w.]+)\((.*)\)(#\d)?$", t, re.S)
        if not m:
            return                       # constant
        args = split_top(m.group(2))
        if len(args) == 1 and m.group(1) != "tuple":
            walk(args[0], chain + [m.group(1)])
        else:
            for a in args:
                walk(a, [])
    for t in trees:
        walk(t, [])
    return occ


def split_top(s):
    parts, depth, cur = [], 0, ""
    for ch in s:
        if ch == "(":
            depth += 1
        elif ch == ")":
            depth -= 1
        if ch == "," and depth == 0:
            parts.append(cur)
            cur = ""
        else:
            cur += ch
    parts.append(cur)
    return parts


def unwrap_chain(tree):
    """`x.f(y.g(leaf))` -> ([y.g, x.f] innermost first, leaf); None when some op has several arguments"""
    chain = []
    t = tree.strip()
    while True:
        m = re.match(r"([\w.]+)\((.*)\)$", t, re.S)
        if not m:
            return chain[::-1], t
        args = split_top(m.group(2))
        if len(args) != 1:
            return None, t
        chain.append(m.group(1))
        t = args[0].strip()


def impl_chain(case, rec):
    """the chain of ops the implementation applies to the operand of interest, or an error string"""
    trees = rec["trees"]
    if not trees:
        return None, "no tree: " + rec.get("error", "")
    t = trees[0]
    if case["pos"] == "PMethodOperand":
        m = re.match(r"([\w.]+)\((.*)\)$", t, re.S)
        args = split_top(m.group(2)) if m else []
        if len(args) != 2 or args[0] != "a1":
            return None, f"unexpected tree {t}"
        t = args[1]
    want_leaf = "a0" if case["operand"] == "a0" else "const:"
    parts = []

    def flat(x):
        x = x.strip()
        if x.startswith("tuple(") and x.endswith(")"):
            for y in split_top(x[6:-1]):
                flat(y)
        else:
            parts.append(x)
    for x in ([t] if case["pos"] == "PMethodOperand" else trees):
        flat(x)
    cands = []
    for x in parts:
        chain, leaf = unwrap_chain(x)
        if chain is not None and leaf.startswith(want_leaf) and (want_leaf == "const:" or not leaf.startswith("const:?")):
            cands.append((chain, leaf))
    if len(cands) != 1:
        return None, f"operand {want_leaf} not found exactly once in {trees}"
    return cands[0]


def bin_chains(rec):
    """binary operator: {0: chain on a0, 1: chain on a1} or error"""
    trees = rec["trees"]
    if not trees:
        return None, "no tree"
    m = re.match(r"([\w.]+)\((.*)\)$", trees[0], re.S)
    args = split_top(m.group(2)) if m else []
    if len(args) != 2:
        return None, f"unexpected tree {trees[0]}"
    out = {}
    for x in args:
        chain, leaf = unwrap_chain(x)
        if chain is None or leaf not in ("a0", "a1"):
            return None, f"unexpected operand {x}"
        out[int(leaf[1])] = chain
    if sorted(out) != [0, 1]:
        return None, f"operands missing in {trees[0]}"
    return out, m.group(1)


# ------------------------------------------------------------------------------------------
# model side


POS = list(COERCING)


def model_table(ctx):
    """{(pos, act, exp): ['A', op, ...] | ['R'] | ['C']} by vm_compute"""
    body = ["From Coq Require Import ZArith String List.", "From V.C04 Require Import NumBase.",
            "From V.C16 Require Import ModelBase GenCoerce ModelCoerce.",
            "Import ListNotations. Open Scope string_scope.",
            'Definition sh (h : hop) : string := match h with HOp e n => e ++ "." ++ n | HOpaque => "?" end.',
            'Definition enc (o : outcome) : list string := match o with Accept c => "A" :: map sh c | Reject => ["R"] | Crash => ["C"] end.',
            "Definition tys := [TNat; TInt; TFloat; TBool].",
            "Eval vm_compute in (map (fun p => map (fun a => map (fun e => enc (position_outcome p a e)) tys) tys) all_positions)."]
    out = ctx.coq_eval("table", "\n".join(body))
    val = vlib.parse_coq_values(out)[0]
    order = ["PAnnAssign", "PArgument", "PReturn", "PMethodOperand", "PTupleElem", "POpResult", "PLiteral", "PCallResult", "PComptime"]
    tab = {}
    for p, rows in zip(order, val):
        for a, row in zip(TYS, rows):
            for e, cell in zip(TYS, row):
                tab[(p, a, e)] = cell
    return tab


def model_generic(ctx):
    """{(flag, elts, ret): [['A', T], chain0, chain1, ...] | [['R']] | [['C']]} for element lists of length 2 and 3"""
    body = ["From Coq Require Import ZArith String List.", "From V.C04 Require Import NumBase.",
            "From V.C16 Require Import ModelBase GenCoerce ModelCoerce.",
            "Import ListNotations. Open Scope string_scope.",
            'Definition sh (h : hop) : string := match h with HOp e n => e ++ "." ++ n | HOpaque => "?" end.',
            'Definition tn (t : gty) : string := match t with TNat => "nat" | TInt => "int" | TFloat => "float" | TBool => "bool" end.',
            'Definition enc (o : gen_outcome) : list (list string) := match o with GAccept t cs => ["A"; tn t] :: map (map sh) cs | GReject => [["R"]] | GCrash => [["C"]] end.',
            "Definition tys := [TNat; TInt; TFloat].",
            "Definition l2 := flat_map (fun a => map (fun b => [a; b]) tys) tys.",
            "Definition l3 := flat_map (fun a => map (fun l => a :: l) l2) tys.",
            "Definition tab (f : bool) := map (fun l => map (fun r => enc (generic_outcome f l r)) tys) (l2 ++ l3).",
            "Eval vm_compute in (tab gen_tuple_elems_substituted, tab gen_args_substituted)."]
    out = ctx.coq_eval("gtable", "\n".join(body))
    val = vlib.parse_coq_values(out)[0]
    import itertools
    lists = [list(x) for x in itertools.product(NUM, NUM)] + [list(x) for x in itertools.product(NUM, NUM, NUM)]
    tab = {}
    for flag, t in zip(("tuple", "args"), val):
        for l, row in zip(lists, t):
            for r, cell in zip(NUM, row):
                tab[(flag, tuple(l), r)] = cell
    return tab


def round_values(r, n):
    vals = [0, 1, -1, 2, 3, (1 << 53) - 1, 1 << 53, (1 << 53) + 1, (1 << 53) + 2, (1 << 53) + 3, (1 << 54) + 2, (1 << 54) + 6,
            H64 - 1, H64, H64 + 1, H64 + 1024, H64 + 1025, H64 + 3072, M64 - 1, M64 - 1024, M64 - 1025, M64 - 2048, -H64, -H64 + 1,
            -(1 << 53) - 1, -(1 << 53) - 3, (1 << 62) + (1 << 8), (1 << 62) + (1 << 8) + 1, (1 << 63) + (1 << 10), (1 << 63) + 3 * (1 << 10)]
    while len(vals) < n:
        bits = r.choice([r.randint(1, 64), r.randint(54, 64), r.randint(54, 64)])
        v = r.getrandbits(bits)
        k = r.random()
        if k < 0.35 and bits > 54:      # exact ties and their neighbours
            sh = bits - 53
            v = ((v >> sh) << sh) + (1 << (sh - 1)) + r.choice([-1, 0, 0, 1])
        if k > 0.8 and v < H64:
            v = -v
        if -H64 <= v < M64:
            vals.append(v)
    return vals[:n]


def model_round(ctx, vals):
    files = {}
    for k in range(0, len(vals), 500):
        chunk = vals[k:k + 500]
        files[f"rne{k}"] = "\n".join(["From Coq Require Import ZArith List.", "From V.C16 Require Import ModelCoerce.",
                                      "Import ListNotations. Open Scope Z_scope.",
                                      "Eval vm_compute in (map rne53 [" + "; ".join(f"({v})" for v in chunk) + "])."])
    outs = ctx.coq_eval_many(files)
    res = []
    for k in range(0, len(vals), 500):
        res += vlib.parse_coq_values(outs[f"rne{k}"])[0]
    return res


# ------------------------------------------------------------------------------------------


def words(ctx, r):
    ws = [0, 1, 2, 5, (1 << 53) - 1, 1 << 53, (1 << 53) + 1, (1 << 53) + 3, (1 << 62) + 1, H64 - 1, H64, H64 + 1, H64 + 1025, H64 + 3072,
          M64 - 1025, M64 - 2, M64 - 1]
    cp = ctx.dir / "corpus" / "words.json"
    if cp.exists():
        ws = [int(x) for x in json.loads(cp.read_text())] + ws
    n = 64 if ctx.quick else 400
    while len(ws) < n:
        k = r.random()
        if k < 0.4:
            ws.append(H64 + r.getrandbits(r.randint(1, 63)))          # nats that are not ints
        elif k < 0.7:
            ws.append(r.getrandbits(r.randint(54, 63)))               # above 2^53: rounding matters
        else:
            ws.append(r.getrandbits(r.randint(1, 53)))
    return list(dict.fromkeys(ws))


def eval_chain(chain, w):
    """value the implementation's op chain computes on word w: ('word', w') | ('float', f) | None (unknown op)"""
    v = ("word", w)
    for op in chain:
        if op in CONV and v[0] == "word":
            v = ("float", CONV[op](v[1]))
        else:
            return None
    return v


def replay_text(ctx, prelude, case):
    prog = ["import repo_shim", "from guppylang import guppy", "from guppylang.std.builtins import nat, comptime"] + prelude + case["src"] \
        + [f"{case['fn']}.compile_function()   # check + compile"]
    return {"program": "\n".join(prog),
            "how": f"save as /tmp/p.py; PYTHONPATH=/verif/tools:{ctx.repo}/guppylang/src:{ctx.repo}/guppylang-internals/src /venv/bin/python /tmp/p.py"}


class Capped:
    """at most `cap` reports per (kind, key prefix) reach ctx.report (all are counted)"""

    def __init__(self, ctx, cap=2):
        self.ctx, self.cap, self.n = ctx, cap, {}

    def report(self, key, kind, name, detail, found_input=True):
        k = (kind, key.split(":")[0])
        self.n[k] = self.n.get(k, 0) + 1
        if self.n[k] <= self.cap or self.ctx.is_known(key):
            self.ctx.report(key, kind, name, detail, found_input=found_input)


def run(ctx):
    gen_error = None
    try:
        generate(ctx)
    except vlib.TranslatorError as e:
        gen_error = str(e)
    info = ctx.coq_props() if gen_error is None else \
        {"ok": False, "obligations": 0, "discharged": 0, "axioms": [], "log": gen_error, "failed": "translator: " + gen_error, "theorems": []}
    r = vlib.rng(ctx.seed, "C16")
    real_ctx, ctx_r = ctx, Capped(ctx)
    prelude, cases = programs()
    prelude = prelude + GEN_PRELUDE
    finish_cases(cases, multi_programs(r, ctx.quick) + generic_programs())
    impl = json.loads(ctx.impl("impl_coerce.py", {"prelude": prelude, "cases": [{"id": c["id"], "src": c["src"], "fn": c["fn"]} for c in cases]}))
    ws = words(ctx, r)

    # ---- model side
    model, gmodel, model_err = None, None, None
    if info["ok"]:
        try:
            model = model_table(ctx)
            gmodel = model_generic(ctx)
        except RuntimeError as e:
            model_err = str(e)[-800:]
            ctx.notes.append("model evaluation failed: " + model_err)

    found = 0            # concrete failing inputs against the specification side
    mismatches = 0       # model-vs-implementation differences
    value_evals = 0
    accepted = rejected = 0
    hist = {}
    samples = []

    for c in cases:
        rec = impl[c["id"]]
        pos, a, e = c["pos"], c["act"], c["exp"]
        hist[pos] = hist.get(pos, 0) + 1
        st = rec["status"]
        accepted += st == "ok"
        rejected += st == "rejected"
        if st == "crash":
            found += 1
            ctx_r.report(f"crash:{c['id']}", "counterexample", "the compiler crashes instead of accepting or rejecting",
                       {"case": c["id"], "error": rec["error"], **replay_text(ctx, prelude, c)})
            continue
        if pos == "Multi":
            # several coercions in one basic block: every use must carry the ops of ITS OWN source type,
            # whatever was compiled before it
            if st != "ok":
                found += 1
                ctx_r.report(f"reject:{c['id']}", "counterexample", "a block of widening coercions is rejected",
                           {"case": c["id"], "error": rec["error"], **replay_text(ctx, prelude, c)})
                continue
            trees = rec["trees"] or []
            if len(trees) != len(c["outs"]):
                mismatches += 1
                ctx_r.report(f"tree:{c['id']}", "correspondence", "multi-use block lowered to an unexpected shape",
                           {"case": c["id"], "trees": trees, "error": rec["error"]}, found_input=False)
                continue
            for n, (o, t) in enumerate(zip(c["outs"], trees)):
                occ = chains_to_params([t], 2)
                if len(occ[o["param"]]) != 1 or occ[1 - o["param"]]:
                    mismatches += 1
                    ctx_r.report(f"tree:{c['id']}:u{n}", "correspondence", "use lowered to an unexpected shape",
                               {"case": c["id"], "use": o, "tree": t}, found_input=False)
                    continue
                chain = occ[o["param"]][0]
                bad_w = None
                for w in ws:
                    v = mval(o["src"], w)
                    if not representable(o["tgt"], v):
                        continue
                    value_evals += 1
                    bad = value_wrong(o["tgt"], v, eval_chain(chain, w))
                    if bad:
                        bad_w = (w, v, bad)
                        break
                if bad_w:
                    found += 1
                    w, v, bad = bad_w
                    ctx_r.report(f"value:{c['id']}:u{n}:{w}", "counterexample",
                               f"use u{n} ({o['use']}): implicit {o['src']} -> {o['tgt']} coercion inside a block with other coercions changes the value",
                               {"case": c["id"], "use": USES[o['use']][0].format(u='u' + str(n)), "static_source_type": o["src"],
                                "operand": f"a{o['param']} = word {w} (value {v} as {o['src']})", "ops_applied": chain,
                                "expected": str(float(v) if o["tgt"] == "float" else v), "observed": str(eval_chain(chain, w)), "why": bad,
                                "trees": trees, **replay_text(ctx, prelude, c)})
                if model is not None:
                    mc = model[("PAnnAssign", o["src"], o["tgt"])]
                    if mc != ["A"] + chain:
                        mismatches += 1
                        ctx_r.report(f"chain:{c['id']}:u{n}", "correspondence", "ops of one use differ from the model (each use = its own check_type_against)",
                                   {"case": c["id"], "use": o, "model": mc, "implementation": chain, "trees": trees,
                                    **replay_text(ctx, prelude, c)}, found_input=False)
            if len(samples) < 10 and len(c["outs"]) == 7:
                samples.append({"case": c["id"], "tree": trees})
            continue
        if pos == "Gen":
            # one type variable meeting several expressions
            elts, e = c["elts"], c["exp"]
            must_reject = any(not (a == e or widens(a, e)) for a in elts)
            if st == "ok" and must_reject:
                found += 1
                badel = [a for a in elts if not (a == e or widens(a, e))]
                ctx_r.report(f"accept:{c['id']}", "counterexample",
                           f"{'/'.join(badel)} expression accepted where the type variable is solved to {e}: implicit narrowing",
                           {"case": c["id"], "family": c["fam"], "elements": elts, "expected": e, "trees": rec["trees"], **replay_text(ctx, prelude, c)})
                continue
            chains = None
            if st == "ok":
                occ = chains_to_params(rec["trees"] or [], len(elts))
                if any(len(occ[k]) != 1 for k in range(len(elts))):
                    mismatches += 1
                    ctx_r.report(f"tree:{c['id']}", "correspondence", "generic position lowered to an unexpected shape",
                               {"case": c["id"], "trees": rec["trees"], "error": rec["error"]}, found_input=False)
                else:
                    chains = [occ[k][0] for k in range(len(elts))]
                    for k, a in enumerate(elts):
                        for w in ws if a in ("nat", "int") else []:
                            v = mval(a, w)
                            if not representable(e, v):
                                continue
                            value_evals += 1
                            bad = value_wrong(e, v, eval_chain(chains[k], w))
                            if bad:
                                found += 1
                                ctx_r.report(f"value:{c['id']}:a{k}:{w}", "counterexample", f"element a{k}: implicit {a} -> {e} coercion changes the value",
                                           {"case": c["id"], "operand": f"a{k} = word {w} (value {v} as {a})", "ops_applied": chains[k],
                                            "expected": str(float(v) if e == "float" else v), "observed": str(eval_chain(chains[k], w)),
                                            "why": bad, "trees": rec["trees"], **replay_text(ctx, prelude, c)})
                                break
            if gmodel is not None:
                mc = gmodel[(c["flag"], tuple(elts), e)]
                ic = [["A", e]] + chains if chains is not None else ([["R"]] if st == "rejected" else None)
                if ic is not None and mc != ic:
                    mismatches += 1
                    ctx_r.report(f"chain:{c['id']}", "correspondence", "model and compiler disagree on a generic position",
                               {"case": c["id"], "model": mc, "implementation": ic, "trees": rec["trees"], "error": rec["error"],
                                **replay_text(ctx, prelude, c)}, found_input=False)
            if len(samples) < 14 and st == "ok" and len(set(elts)) > 1:
                samples.append({"case": c["id"], "tree": rec["trees"]})
            continue
        if pos == "Bin":
            # operands of a binary operator: accepted for every numeric pair; each operand carries the chain of
            # the coercion (its type -> the wider type)
            if st != "ok":
                found += 1
                ctx_r.report(f"reject:{c['id']}", "counterexample", "binary operator on two numeric types rejected",
                           {"case": c["id"], "error": rec["error"], **replay_text(ctx, prelude, c)})
                continue
            chains, why = bin_chains(rec)
            if chains is None:
                mismatches += 1
                ctx_r.report(f"tree:{c['id']}", "correspondence", "binary operator lowered to an unexpected shape",
                           {"case": c["id"], "trees": rec["trees"], "why": why}, found_input=False)
                continue
            for i, t in ((0, c["act"]), (1, c["exp"])):
                for w in ws if t in ("nat", "int") else []:
                    v = mval(t, w)
                    if not representable(c["wide"], v):
                        continue
                    got = eval_chain(chains[i], w)
                    value_evals += 1
                    bad = value_wrong(c["wide"], v, got)
                    if bad:
                        found += 1
                        ctx_r.report(f"value:{c['id']}:a{i}:{w}", "counterexample", "coerced operand of a binary operator has the wrong value",
                                   {"case": c["id"], "operand": f"a{i} = word {w} (value {v} as {t})", "ops_applied": chains[i],
                                    "expected": str(float(v) if c["wide"] == "float" else v), "observed": str(got), "tree": rec["trees"],
                                    **replay_text(ctx, prelude, c)})
                        break
                if model is not None:
                    mc = model[("PMethodOperand", t, c["wide"])]
                    if mc[0] != "A" or mc[1:] != chains[i]:
                        mismatches += 1
                        ctx_r.report(f"chain:{c['id']}:a{i}", "correspondence", "operand coercion differs from the model",
                                   {"case": c["id"], "operand": i, "model": mc, "implementation": chains[i], "tree": rec["trees"]}, found_input=False)
            if len(samples) < 3 and c["act"] != c["exp"]:
                samples.append({"case": c["id"], "tree": rec["trees"]})
            continue

        sa = spec_accept(pos, a, e)
        if st == "ok" and sa is False:
            found += 1
            ctx_r.report(f"accept:{c['id']}", "counterexample", f"a {a} is accepted where {e} is expected: implicit narrowing / unrelated types",
                       {"case": c["id"], "position": pos, "actual": a, "expected": e, "trees": rec["trees"], **replay_text(ctx, prelude, c)})
            continue
        if st == "rejected" and sa is True:
            found += 1
            ctx_r.report(f"reject:{c['id']}", "counterexample", f"a {a} is rejected where {e} is expected although {a} -> {e} is {'the same type' if a == e else 'a widening'}",
                       {"case": c["id"], "position": pos, "actual": a, "expected": e, "error": rec["error"], **replay_text(ctx, prelude, c)})
            continue
        chain = None
        if st == "ok":
            chain, leaf = impl_chain(c, rec)
            if chain is None:
                mismatches += 1
                ctx_r.report(f"tree:{c['id']}", "correspondence", "accepted program lowered to an unexpected shape",
                           {"case": c["id"], "trees": rec["trees"], "why": leaf}, found_input=False)
            else:
                # value level, on the implementation's chain
                if a in ("nat", "int"):
                    grid = ws if c["operand"] == "a0" else [int(leaf[6:]) % M64]
                    for w in grid:
                        v = mval(a, w)
                        if not representable(e, v):
                            continue
                        got = eval_chain(chain, w)
                        value_evals += 1
                        bad = value_wrong(e, v, got)
                        if bad:
                            found += 1
                            ctx_r.report(f"value:{c['id']}:{w}", "counterexample", f"implicit {a} -> {e} conversion changes the value",
                                       {"case": c["id"], "position": pos, "operand": f"word {w} (value {v} as {a})", "ops_applied": chain,
                                        "expected": str(float(v) if e == "float" else v), "observed": str(got), "why": bad,
                                        "tree": rec["trees"], **replay_text(ctx, prelude, c)})
                            break
                elif chain:
                    mismatches += 1
                    ctx_r.report(f"chain:{c['id']}", "correspondence", "conversion ops applied to a non-integer operand",
                               {"case": c["id"], "implementation": chain}, found_input=False)
        if model is not None:
            mc = model[(pos, a, e)]
            ic = ["A"] + chain if st == "ok" and chain is not None else (["R"] if st == "rejected" else None)
            if ic is not None and mc != ic:
                mismatches += 1
                ctx_r.report(f"chain:{c['id']}", "correspondence", "model and compiler disagree on accept/reject or on the inserted ops",
                           {"case": c["id"], "model": mc, "implementation": ic, "trees": rec["trees"], "error": rec["error"],
                            **replay_text(ctx, prelude, c)}, found_input=False)
        if len(samples) < 8 and a != e and st == "ok":
            samples.append({"case": c["id"], "tree": rec["trees"]})

    # ---- the trusted rounding function against CPython's correctly rounded int -> float
    n_round = 500 if ctx.quick else 5000
    rvals = round_values(r, n_round)
    round_bad = 0
    if info["ok"]:
        try:
            mr = model_round(ctx, rvals)
            for v, m in zip(rvals, mr):
                if int(float(v)) != m:
                    round_bad += 1
                    if round_bad <= 3:
                        ctx_r.report(f"rne53:{v}", "correspondence", "rne53 (semantics of convert_u/convert_s) differs from CPython float()",
                                   {"z": v, "rne53": m, "python": int(float(v))}, found_input=False)
        except RuntimeError as e:
            ctx.notes.append("rne53 evaluation failed: " + str(e)[-500:])
            mr = []
    else:
        mr = []

    # ---- supporting evidence for the trusted spec: the venv's own runtime executes convert_u / convert_s
    emu = {"ran": False}
    if not ctx.quick or os.environ.get("C16_EMU") == "1":
        emu = runtime_crosscheck(ctx, ctx_r, rvals)

    # ---- broken proof / translator with no concrete input found
    if not info["ok"] and found == 0:
        ctx_r.report("proof-broken:" + str(info["failed"])[:200], "proof-broken", str(info["failed"])[:300],
                   {"coq_or_translator_error": gen_error or vlib.CoqResult(False, info["log"]).error_excerpt(),
                    "searched": {"programs": len(cases), "value_evaluations": value_evals}}, found_input=False)
    elif info["ok"] and model is None:
        ctx_r.report("model-eval", "correspondence", "model table could not be evaluated", {"error": model_err}, found_input=False)

    cov = proof_coverage(
        info, "make -f Makefile.C16 C16/Props.vo && coqc C16/Props.v (Print Assumptions)",
        ["Coq 8.16.1 kernel (vm_compute inside finite case analyses over 9 positions x 4 x 4 types)",
         "TRUSTED SPEC: arithmetic.conversions.convert_u / convert_s = unsigned / signed reading rounded to nearest binary64, ties to even (rne53; shown to be roundTiesToEven on integers, compared with CPython float() on every run); no /repo-HUGR emulator exists to observe it",
         "props/C16/tr_coerce.py (+ props/C04/tr_num.py row readers): reading of try_coerce_to, check_type_against tail, unify's NumericType case, Kind enum, std/num.py decorators",
         "ModelCoerce.position_outcome: which syntactic positions reach check_type_against is hand-written, tied only by the differential harness",
         "tools/repo_shim.py; props/C04/impl_ops.py Extract (reads op trees out of the HUGR)"],
        evaluations=len(cases) + value_evals + len(mr),
        distinct_nontrivial=sum(1 for c in cases if (len(set(c["elts"] + [c["exp"]])) > 1 if c["pos"] == "Gen" else c["pos"] == "Multi" or c["act"] != c["exp"])),
        rule="programs = one @guppy function per (position, actual, expected) over 9 positions x {nat,int,float,bool}^2, 6 binary operators over numeric pairs, Multi = ordered sequences of 2-7 coercing uses of one value (nat, its int alias, an unrelated int) in one basic block, Gen = tuple literal / arguments / struct constructor / array literal / nested tuple meeting one type variable T over all numeric element lists of length 2-3 x expected T; non-trivial = actual type differs from expected type; value evaluations = implementation's op chain on each boundary/random word whose value is representable in the target",
        programs=len(cases), accepted=accepted, rejected=rejected, per_position=hist,
        value_evaluations=value_evals, words=len(ws), words_ge_2p63=sum(1 for w in ws if w >= H64),
        rounding_values=len(mr), rounding_values_above_2p53=sum(1 for v in rvals if abs(v) > 1 << 53), rounding_disagreements=round_bad,
        model_vs_impl_mismatches=mismatches, spec_counterexamples=found,
        runtime_crosscheck=emu, samples=samples, notes=ctx.notes)
    return ctx.finish(LEVEL, cov, [
        "convert_u / convert_s round to nearest-even (trusted HUGR/LLVM semantics; not observable on /repo-compiled HUGR in this sandbox)",
        "bool stands for every non-numeric type in the model (try_coerce_to returns None unless both are NumericType)",
        "a nat >= 2^63 is not representable in int: the property demands nothing for it (nat.__int__ is a no-op; see C04's known findings for the operator-level consequences)"])


def runtime_crosscheck(ctx, rep, rvals):
    """convert_u / convert_s executed at run time by the venv's guppylang 1.0.4 + selene (NOT /repo's compiler:
    its HUGR cannot be emulated here) on values already compared with rne53; supporting evidence only"""
    us = [v for v in rvals if 0 <= v < M64][:70]
    ss = [v for v in rvals if -H64 <= v < H64 and (v < 0 or v % 3 == 0)][:70]
    env = {k: v for k, v in os.environ.items() if k not in ("PYTHONPATH", "VERIF_REPO")}
    env["PYTHONHASHSEED"] = "0"
    try:
        p = subprocess.run([vlib.PY, str(ctx.dir / "emu_convert.py"), json.dumps(us), json.dumps(ss)], env=env, text=True,
                           cwd=str(ctx.scratch), stdout=subprocess.PIPE, stderr=subprocess.PIPE, timeout=900)
        out = json.loads(p.stdout.strip().split("\n")[-1])
    except Exception as e:  # noqa: BLE001
        ctx.notes.append(f"runtime cross-check of convert_u/convert_s could not run: {type(e).__name__}: {str(e)[:200]}")
        return {"ran": False}
    got = dict((k, v) for k, v in out["results"])
    bad = 0
    for tag, vals in (("u", us), ("s", ss)):
        for i, v in enumerate(vals):
            if got.get(f"{tag}{i}") != float(v):
                bad += 1
                rep.report(f"runtime:convert_{tag}:{v}", "correspondence",
                           "the runtime's convert op disagrees with the trusted round-to-nearest-even spec",
                           {"op": f"convert_{tag}", "operand": v, "runtime": got.get(f"{tag}{i}"), "spec": float(v)}, found_input=False)
    return {"ran": True, "ops_in_hugr": out["ops"], "convert_u_values": len(us), "convert_s_values": len(ss), "disagreements": bad,
            "executed_ops_present": "convert_u" in out["ops"] and "convert_s" in out["ops"]}


def value_wrong(e, v, got):
    """None if the implementation's result `got` denotes the expected value of v at type e"""
    if got is None:
        return "an op without conversion semantics was applied"
    if e == "float":
        if got[0] != "float":
            return "no int->float conversion op on the path"
        return None if got[1] == float(v) else "not the nearest float of the original value"
    if got[0] != "word":
        return "unexpected float"
    back = mval(e, got[1])
    return None if back == v else "value not preserved"
