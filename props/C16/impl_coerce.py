"""C16 implementation side: type-check and compile tiny @guppy functions with the compiler of the
tree under test (under repo_shim) and report accept/reject plus, for accepted ones, the tree of
HUGR ops that computes each returned value (extracted with props/C04/impl_ops.py's Extract).

stdin : JSON {"prelude": [source lines], "cases": [{"id": str, "src": [lines of one function def], "fn": name}]}
stdout: JSON {id: {"status": "ok"|"rejected"|"crash", "trees": [str]|None, "error": str}}
"""
import importlib.util
import json
import os
import sys
import tempfile

import repo_shim  # noqa: F401
from hugr import ops
from guppylang_internals.error import GuppyError

_spec = importlib.util.spec_from_file_location("c04_impl_ops", os.path.join(os.path.dirname(os.path.abspath(__file__)), "..", "C04", "impl_ops.py"))
c04 = importlib.util.module_from_spec(_spec)
_spec.loader.exec_module(c04)


def main():
    req = json.load(sys.stdin)
    lines = ["import repo_shim  # noqa", "from guppylang import guppy", "from guppylang.std.builtins import nat, comptime", ""]
    lines += req["prelude"] + [""]
    for c in req["cases"]:
        lines += c["src"] + [""]
    d = tempfile.mkdtemp(prefix="c16prog_", dir=os.getcwd())
    path = os.path.join(d, "c16_prog.py")
    with open(path, "w") as fh:
        fh.write("\n".join(lines))
    spec = importlib.util.spec_from_file_location("c16_prog", path)
    mod = importlib.util.module_from_spec(spec)
    sys.modules["c16_prog"] = mod
    spec.loader.exec_module(mod)
    out = {}
    for c in req["cases"]:
        fn = getattr(mod, c["fn"])
        rec = {"status": "ok", "trees": None, "error": ""}
        out[c["id"]] = rec
        try:
            pkg = fn.compile_function()
        except GuppyError as e:
            rec["status"] = "rejected"
            err = getattr(e, "error", None)
            rec["error"] = type(err).__name__ if err is not None else type(e).__name__
            try:
                rec["error"] += ": " + str(getattr(err, "rendered_title", "") or "")[:120]
            except Exception:  # noqa: BLE001
                pass
            continue
        except Exception as e:  # noqa: BLE001
            rec["status"] = "crash"
            rec["error"] = f"{type(e).__name__}: {e}"[:300]
            continue
        hg = pkg.modules[0]
        ex = c04.Extract(hg)
        fdef = [n for n, dd in hg.nodes() if isinstance(dd.op, ops.FuncDefn) and dd.op.f_name == c["fn"]][0]
        try:
            nparams = len(hg[fdef].op.inputs)
            rec["trees"] = ex.func_tree(fdef, [f"a{j}" for j in range(nparams)])
        except c04.NoTree as e:
            rec["error"] = f"no tree: {e}"
    json.dump(out, sys.stdout)


if __name__ == "__main__":
    main()
