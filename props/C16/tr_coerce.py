"""C16 translator (tie T): reads, with `ast`, the code that decides implicit numeric coercion and
emits coq/C16/GenCoerce.v.  Fail-closed: any shape outside the small families described below
raises TranslatorError.

Sources (all through ctx.repo):
  guppylang_internals/tys/ty.py                NumericType.Kind: member names, auto() order, __lt__
  guppylang_internals/checker/expr_checker.py  try_coerce_to (guard, comparison, method lookup,
                                               check_call target), tail of check_type_against
  guppylang/std/num.py (+ std/_internal/util.py)  the method rows of nat / int / float
                                               (read with props/C04/tr_num.py's row readers)

What is *data* (recorded as found, the Coq theorems decide whether it is right):
  * the comparison operator between the two `.kind`s and the operand order,
  * which type the coercion method is looked up on, which kind names the method, which type the
    call is checked against,
  * the order of the Kind members, their names, every method row.
What is *shape* (must match, else TranslatorError): everything else in the two functions.
"""
from __future__ import annotations

import ast
import importlib.util
import sys
from pathlib import Path

from vlib import TranslatorError
from tr_common import parse_file, find_class, find_func, strip_doc

_C04 = Path(__file__).resolve().parent.parent / "C04" / "tr_num.py"


def c04():
    """props/C04/tr_num.py (row readers for std/num.py); imported, never edited"""
    if "c04_tr_num" not in sys.modules:
        spec = importlib.util.spec_from_file_location("c04_tr_num", _C04)
        mod = importlib.util.module_from_spec(spec)
        sys.modules["c04_tr_num"] = mod
        spec.loader.exec_module(mod)
    return sys.modules["c04_tr_num"]


def fail(node, why):
    src = ast.unparse(node) if isinstance(node, ast.AST) else str(node)
    raise TranslatorError(f"C16 translator: {why}: `{src[:160]}` (line {getattr(node, 'lineno', '?')})")


KIND_TY = {"Nat": "TNat", "Int": "TInt", "Float": "TFloat"}
CMP = {"Lt": "CLt", "LtE": "CLe", "Gt": "CGt", "GtE": "CGe", "Eq": "CEq", "NotEq": "CNe"}
SWAP = {"CLt": "CGt", "CLe": "CGe", "CGt": "CLt", "CGe": "CLe", "CEq": "CEq", "CNe": "CNe"}
WHO = {"act": "WAct", "exp": "WExp"}


def read_kind(path: Path):
    """-> [(gty, lower-cased member name)] in declaration (= auto() value) order"""
    mod = parse_file(path)
    nt = find_class(mod, "NumericType")
    kind = find_class(nt, "Kind")
    if [ast.unparse(b) for b in kind.bases] != ["Enum"]:
        fail(kind, "NumericType.Kind is not a plain Enum")
    if [ast.unparse(d) for d in kind.decorator_list] != ["total_ordering"]:
        fail(kind, "NumericType.Kind decorators (expected @total_ordering)")
    out = []
    for s in strip_doc(kind.body):
        if isinstance(s, ast.Assign) and len(s.targets) == 1 and isinstance(s.targets[0], ast.Name):
            if ast.unparse(s.value) != "auto()":
                fail(s, "NumericType.Kind member is not auto()")
            n = s.targets[0].id
            if n not in KIND_TY:
                fail(s, "unknown NumericType.Kind member")
            out.append((KIND_TY[n], n.lower()))
        elif isinstance(s, ast.FunctionDef) and s.name == "__lt__":
            r = strip_doc(s.body)
            if len(r) != 1 or ast.unparse(r[0]) != "return self.value < other.value":
                fail(s, "NumericType.Kind.__lt__ is not `self.value < other.value`")
        else:
            fail(s, "unexpected statement in NumericType.Kind")
    if sorted(t for t, _ in out) != sorted(KIND_TY.values()):
        fail(kind, "NumericType.Kind members")
    # `kind: "Kind"` must be the only field that distinguishes numeric types
    return out


def _kind_of(e: ast.expr):
    """`act.kind` / `exp.kind` -> 'act' / 'exp'"""
    if isinstance(e, ast.Attribute) and e.attr == "kind" and isinstance(e.value, ast.Name) and e.value.id in WHO:
        return e.value.id
    fail(e, "expected act.kind or exp.kind")


def read_try_coerce(mod: ast.Module):
    f = find_func(mod, "try_coerce_to")
    if [a.arg for a in f.args.args] != ["act", "exp", "node", "ctx"]:
        fail(f, "try_coerce_to parameters")
    body = strip_doc(f.body)
    if len(body) != 3:
        fail(f, "try_coerce_to must be: numeric guard; `if <kind comparison>:` block; `return None`")
    guard, cond, last = body
    g = ast.unparse(guard)
    if g not in ("if not isinstance(act, NumericType) or not isinstance(exp, NumericType):\n    return None",
                 "if not (isinstance(act, NumericType) and isinstance(exp, NumericType)):\n    return None"):
        fail(guard, "numeric guard of try_coerce_to")
    if ast.unparse(last) != "return None":
        fail(last, "try_coerce_to does not end with `return None`")
    if not (isinstance(cond, ast.If) and not cond.orelse and isinstance(cond.test, ast.Compare)
            and len(cond.test.ops) == 1):
        fail(cond, "kind comparison of try_coerce_to")
    opn = type(cond.test.ops[0]).__name__
    if opn not in CMP:
        fail(cond.test, "comparison operator")
    l, r = _kind_of(cond.test.left), _kind_of(cond.test.comparators[0])
    if {l, r} != {"act", "exp"}:
        fail(cond.test, "comparison must be between act.kind and exp.kind")
    cmp_ = CMP[opn] if l == "act" else SWAP[CMP[opn]]      # normalised: act.kind <cmp> exp.kind
    blk = cond.body
    if len(blk) != 5:
        fail(cond, "body of the coercion branch")
    look, a1, call, a2, ret = blk
    # f = ctx.globals.get_instance_func(<recv>, f"__{<who>.kind.name.lower()}__")
    if not (isinstance(look, ast.Assign) and len(look.targets) == 1 and isinstance(look.targets[0], ast.Name) and isinstance(look.value, ast.Call)
            and ast.unparse(look.value.func) == "ctx.globals.get_instance_func" and len(look.value.args) == 2
            and not look.value.keywords):
        fail(look, "method lookup of try_coerce_to")
    fvar = look.targets[0].id          # the local holding the coercion method (any name)
    if fvar in ("act", "exp", "node", "ctx", "subst"):
        fail(look, "coercion method stored in a variable that is used otherwise")
    recv, name = look.value.args
    if not (isinstance(recv, ast.Name) and recv.id in WHO):
        fail(recv, "receiver of the coercion method")
    if not (isinstance(name, ast.JoinedStr) and len(name.values) == 3
            and isinstance(name.values[0], ast.Constant) and name.values[0].value == "__"
            and isinstance(name.values[2], ast.Constant) and name.values[2].value == "__"
            and isinstance(name.values[1], ast.FormattedValue) and name.values[1].conversion == -1
            and name.values[1].format_spec is None):
        fail(name, "coercion method name is not f\"__{...}__\"")
    inner = name.values[1].value
    # <who>.kind.name.lower()
    if not (isinstance(inner, ast.Call) and not inner.args and not inner.keywords
            and isinstance(inner.func, ast.Attribute) and inner.func.attr == "lower"
            and isinstance(inner.func.value, ast.Attribute) and inner.func.value.attr == "name"):
        fail(inner, "coercion method name is not <type>.kind.name.lower()")
    name_of = _kind_of(inner.func.value.value)
    if not (isinstance(a1, ast.Assert) and ast.unparse(a1.test) == f"{fvar} is not None"):
        fail(a1, "expected `assert <method> is not None`")
    # node, subst = f.check_call([node], <target>, node, ctx)
    if not (isinstance(call, ast.Assign) and ast.unparse(call.targets[0]) == "(node, subst)"
            and isinstance(call.value, ast.Call) and ast.unparse(call.value.func) == f"{fvar}.check_call"
            and len(call.value.args) == 4 and not call.value.keywords
            and ast.unparse(call.value.args[0]) == "[node]" and ast.unparse(call.value.args[2]) == "node"
            and ast.unparse(call.value.args[3]) == "ctx"):
        fail(call, "check_call of the coercion method")
    tgt = call.value.args[1]
    if not (isinstance(tgt, ast.Name) and tgt.id in WHO):
        fail(tgt, "type the coercion call is checked against")
    if not (isinstance(a2, ast.Assert) and ast.unparse(a2.test) == "len(subst) == 0"):
        fail(a2, "expected `assert len(subst) == 0`")
    if ast.unparse(ret) != "return node":
        fail(ret, "coercion branch does not return the call node")
    return cmp_, WHO[recv.id], WHO[name_of], WHO[tgt.id]


def read_cta_tail(mod: ast.Module):
    """tail of check_type_against (the non-parametrised case):
         subst = unify(exp, act, {})
         if subst is None:
             [if coerced := try_coerce_to(act, exp, node, ctx): return (coerced, {}, [])]
             raise GuppyTypeError(TypeMismatchError(node, exp, act, kind))
         return (node, subst, [])"""
    f = find_func(mod, "check_type_against")
    if [a.arg for a in f.args.args] != ["act", "exp", "node", "ctx", "kind"]:
        fail(f, "check_type_against parameters")
    body = strip_doc(f.body)
    # locate `subst = unify(exp, act, {})` at top level
    idx = [i for i, s in enumerate(body) if ast.unparse(s) == "subst = unify(exp, act, {})"]
    if len(idx) != 1 or idx[0] != len(body) - 3:
        fail(f, "check_type_against tail (unify / fallback / return)")
    i = idx[0]
    # everything before: asserts, a declaration, and the `if isinstance(act, FunctionType) and act.parametrized:` block
    for s in body[:i]:
        if isinstance(s, ast.Assert) or (isinstance(s, ast.AnnAssign) and s.value is None):
            continue
        if isinstance(s, ast.If) and ast.unparse(s.test) == "isinstance(act, FunctionType) and act.parametrized" and not s.orelse:
            continue
        fail(s, "unexpected statement before the unification in check_type_against")
    fb, ret = body[i + 1], body[i + 2]
    if ast.unparse(ret) != "return (node, subst, [])":
        fail(ret, "check_type_against success return")
    if not (isinstance(fb, ast.If) and ast.unparse(fb.test) == "subst is None" and not fb.orelse):
        fail(fb, "check_type_against fallback")
    inner = fb.body
    if not inner or not (isinstance(inner[-1], ast.Raise) and ast.unparse(inner[-1].exc).startswith("GuppyTypeError(TypeMismatchError(")):
        fail(fb, "check_type_against fallback does not end by raising TypeMismatchError")
    if len(inner) == 1:
        return "FFail"
    if len(inner) == 2:
        c = inner[0]
        if isinstance(c, ast.If) and not c.orelse and ast.unparse(c.test) == "(coerced := try_coerce_to(act, exp, node, ctx))" \
                and [ast.unparse(s) for s in c.body] == ["return (coerced, {}, [])"]:
            return "FCoerceThenFail"
    fail(fb, "check_type_against fallback shape")


def read_unify_numeric(path: Path):
    """unify(): the only case relating two NumericTypes must be
         case (NumericType(kind=s_kind), NumericType(kind=t_kind)) if s_kind <cmp> t_kind: return subst
       -> the comparison (normalised: s = expected side as called from check_type_against `unify(exp, act)`)."""
    mod = parse_file(path)
    f = find_func(mod, "unify")
    if [a.arg for a in f.args.args] != ["s", "t", "subst"]:
        fail(f, "unify parameters")
    matches = [s for s in strip_doc(f.body) if isinstance(s, ast.Match)]
    if len(matches) != 1 or ast.unparse(matches[0].subject) != "(s, t)":
        fail(f, "unify is not a single `match s, t`")
    found = []
    for c in matches[0].cases:
        txt = ast.unparse(c.pattern)
        if "NumericType" not in txt and "Numeric" not in ast.unparse(c.guard or ast.Constant(value=0)):
            # a catch-all that succeeds would also relate numeric types
            if isinstance(c.pattern, ast.MatchAs) and c.pattern.pattern is None and ast.unparse(c.body[0]) != "return None":
                fail(c.pattern, "catch-all case of unify does not fail")
            continue
        found.append(c)
    if len(found) != 1:
        fail(f, "expected exactly one unify case on NumericType")
    c = found[0]
    p = c.pattern
    if not (isinstance(p, ast.MatchSequence) and len(p.patterns) == 2 and all(
            isinstance(q, ast.MatchClass) and ast.unparse(q.cls) == "NumericType" and not q.patterns
            and q.kwd_attrs == ["kind"] and isinstance(q.kwd_patterns[0], ast.MatchAs) and q.kwd_patterns[0].pattern is None
            for q in p.patterns)):
        fail(p, "NumericType case of unify")
    a, b = (q.kwd_patterns[0].name for q in p.patterns)
    g = c.guard
    if not (isinstance(g, ast.Compare) and len(g.ops) == 1 and isinstance(g.left, ast.Name) and isinstance(g.comparators[0], ast.Name)
            and {g.left.id, g.comparators[0].id} == {a, b} and type(g.ops[0]).__name__ in CMP):
        fail(c, "guard of the NumericType case of unify")
    if [ast.unparse(s) for s in c.body] != ["return subst"]:
        fail(c, "body of the NumericType case of unify")
    op = CMP[type(g.ops[0]).__name__]
    # check_type_against calls unify(exp, act): s = exp, t = act.  normalise to act <cmp> exp
    return op if g.left.id == b else SWAP[op]


def read_literal_typing(mod: ast.Module):
    """python_value_to_guppy_type: an int literal is a nat only under a nat hint and when >= 0, else an
    int; a float literal is a float (shape only; the bounds are C17's subject)"""
    f = find_func(mod, "python_value_to_guppy_type")
    src = ast.unparse(f)
    for need in ("case int(n) if type_hint == nat_type() and n >= 0:\n            _int_bounds_check(n, node, signed=False)\n            return nat_type()",
                 "case int(n):\n            _int_bounds_check(n, node, signed=True)\n            return int_type()",
                 "case bool():\n            return bool_type()",
                 "case float():\n            return float_type()"):
        if need not in src:
            fail(f, f"literal typing lost `{need}`")
    order = [src.index("case bool():"), src.index("case int(n) if"), src.index("case int(n):"), src.index("case float():")]
    if order != sorted(order):
        fail(f, "order of the literal cases")
    # ExprChecker.visit_Constant: literal type, then check_type_against; visit_ComptimeExpr: unify only
    chk = find_class(mod, "ExprChecker")
    vc = [ast.unparse(s) for s in strip_doc(find_func(chk, "visit_Constant").body)]
    if not (vc[0] == "act = python_value_to_guppy_type(node.value, node, self.ctx.globals, ty)"
            and "node, subst, inst = check_type_against(act, ty, node, self.ctx, self._kind)" in vc):
        fail(find_func(chk, "visit_Constant"), "ExprChecker.visit_Constant")
    gv = [ast.unparse(s) for s in strip_doc(find_func(chk, "generic_visit").body)]
    if gv[:2] != ["node, synth = self._synthesize(node, allow_free_vars=False)",
                  "node, subst, inst = check_type_against(synth, ty, node, self.ctx, self._kind)"]:
        fail(find_func(chk, "generic_visit"), "ExprChecker.generic_visit")
    ck = ast.unparse(find_func(chk, "check"))
    if "if (actual := get_type_opt(expr)):\n        expr, subst, inst = check_type_against(actual, ty, expr, self.ctx, kind)" not in ck:
        fail(find_func(chk, "check"), "ExprChecker.check on an already typed expression")


def read_generic_folds(mod: ast.Module, checker_path: Path):
    """Positions where ONE type variable meets several expressions: ExprChecker.visit_Tuple (tuple literal
    against tuple[..T..T..]), type_check_args (f(x, y) with f(a: T, b: T)), NewArrayChecker.synthesize
    (array(x, y)).  Each must thread the substitution found so far into the type the next expression is
    checked against; whether it does is DATA for the first two (-> gen_*_substituted), shape for the array."""
    chk = find_class(mod, "ExprChecker")
    vt = [ast.unparse(s) for s in strip_doc(find_func(chk, "visit_Tuple").body)]
    head = ["if not isinstance(ty, TupleType) or len(ty.element_types) != len(node.elts):\n    return self._fail(ty, node)",
            "subst: Subst = {}"]
    loops = {True: "for i, el in enumerate(node.elts):\n    node.elts[i], s = self.check(el, ty.element_types[i].substitute(subst))\n    subst |= s",
             False: "for i, el in enumerate(node.elts):\n    node.elts[i], s = self.check(el, ty.element_types[i])\n    subst |= s"}
    if len(vt) != 4 or vt[:2] != head or vt[3] != "return (node, subst)" or vt[2] not in loops.values():
        fail(find_func(chk, "visit_Tuple"), "ExprChecker.visit_Tuple (element loop)")
    tup = vt[2] == loops[True]
    tca = find_func(mod, "type_check_args")
    def only_raises(f):
        # a loop that only inspects the result and raises a located error changes no type
        return all(isinstance(x, ast.If) and not x.orelse and all(isinstance(y, ast.Raise) for y in x.body) for x in f.body)
    fors = [s for s in strip_doc(tca.body) if isinstance(s, ast.For) and not only_raises(s)]
    if len(fors) != 1 or ast.unparse(fors[0].target) != "(inp, func_inp)" or ast.unparse(fors[0].iter) != "zip(inputs, func_ty.inputs, strict=True)":
        fail(tca, "type_check_args argument loop")
    b = [ast.unparse(x) for x in fors[0].body[:2]]
    forms = {True: "a, s = ExprChecker(ctx).check(inp, func_inp.ty.substitute(subst), 'argument')",
             False: "a, s = ExprChecker(ctx).check(inp, func_inp.ty, 'argument')"}
    if len(b) != 2 or b[0] not in forms.values() or b[1] != "subst |= s":
        fail(fors[0], "type_check_args argument check")
    args = b[0] == forms[True]
    # ExprChecker.check against an unsolved variable synthesises and solves it
    ck = ast.unparse(find_func(chk, "check"))
    if "if isinstance(ty, ExistentialTypeVar):\n        expr, syn_ty = self._synthesize(expr, allow_free_vars=False)\n        return (with_type(syn_ty, expr), {ty: syn_ty})" not in ck:
        fail(find_func(chk, "check"), "ExprChecker.check against an ExistentialTypeVar")
    cmod = parse_file(checker_path)
    na = ast.unparse(find_func(find_class(cmod, "NewArrayChecker"), "synthesize"))
    for need in ("case [fst, *rest]:", "fst, ty = ExprSynthesizer(self.ctx).synthesize(fst)", "checker = ExprChecker(self.ctx)",
                 "for i in range(len(rest)):\n                rest[i], subst = checker.check(rest[i], ty)"):
        if need not in na:
            fail(find_func(find_class(cmod, "NewArrayChecker"), "synthesize"), f"NewArrayChecker.synthesize lost `{need}`")
    return tup, args


def translate(ctx) -> str:
    t4 = c04()
    util = t4.read_util(ctx.int_src("std/_internal/util.py"))
    rows, _funcs = t4.read_methods(ctx.pub_src("std/num.py"), util, ["nat", "int", "float"])
    kinds = read_kind(ctx.int_src("tys/ty.py"))
    mod = parse_file(ctx.int_src("checker/expr_checker.py"))
    cmp_, recv, name_of, tgt = read_try_coerce(mod)
    fb = read_cta_tail(mod)
    read_literal_typing(mod)
    tup_sub, args_sub = read_generic_folds(mod, ctx.int_src("std/_internal/checker.py"))
    ucmp = read_unify_numeric(ctx.int_src("tys/ty.py"))
    out = [
        "(* GENERATED on every run from tys/ty.py, checker/expr_checker.py, std/num.py, std/_internal/util.py",
        "   by props/C16/tr_coerce.py (method rows through props/C04/tr_num.py's readers) — do not edit *)",
        "From Coq Require Import ZArith String List.",
        "From V.C04 Require Import NumBase.",
        "From V.C16 Require Import ModelBase.",
        "Import ListNotations. Open Scope string_scope. Open Scope Z_scope.",
        "",
        "(* NumericType.Kind members in auto() order, with `.name.lower()` *)",
        "Definition gen_kinds : list (gty * string) := [" + "; ".join(f'({t}, "{n}")' for t, n in kinds) + "].",
        "(* try_coerce_to: `if act.kind <cmp> exp.kind` (normalised to act on the left) *)",
        f"Definition gen_coerce_cmp : cmpop := {cmp_}.",
        f"Definition gen_coerce_recv : who := {recv}.      (* get_instance_func(<recv>, ...) *)",
        f"Definition gen_coerce_name_of : who := {name_of}.   (* f\"__{{<who>.kind.name.lower()}}__\" *)",
        f"Definition gen_coerce_target : who := {tgt}.    (* f.check_call([node], <target>, node, ctx) *)",
        f"Definition gen_unify_numeric : cmpop := {ucmp}.   (* unify(exp, act) on two NumericTypes succeeds iff act.kind <cmp> exp.kind *)",
        f"Definition gen_cta_fallback : cta_fallback := {fb}.   (* check_type_against when unify(exp, act) fails *)",
        "(* does the element / argument loop check the next expression against the type with the substitution found so far applied? *)",
        f"Definition gen_tuple_elems_substituted : bool := {'true' if tup_sub else 'false'}.   (* ExprChecker.visit_Tuple *)",
        f"Definition gen_args_substituted : bool := {'true' if args_sub else 'false'}.   (* type_check_args *)",
        "Definition gen_methods : list meth := [",
        ";\n".join(rows),
        "].",
        "",
    ]
    return "\n".join(out)


if __name__ == "__main__":
    sys.path.insert(0, "/verif/tools")
    import vlib
    print(translate(vlib.Ctx("C16", "quick", 0)))
