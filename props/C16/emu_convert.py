"""C16 supporting evidence for the TRUSTED SPEC of convert_u / convert_s: the only runtime in the sandbox
(the venv's own guppylang 1.0.4 + selene emulator; it cannot run /repo's HUGR) executes the two HUGR ops on
given 64-bit values at RUN time (a measured bit is added so that no constant folder can evaluate them).
Run with plain /venv/bin/python (no PYTHONPATH): argv[1] = JSON list of nats, argv[2] = JSON list of ints.
stdout: JSON {"ops": [...op names in the compiled HUGR...], "results": [[tag, float], ...]}"""
import importlib.util
import json
import os
import sys
import tempfile

vals_u = json.loads(sys.argv[1])
vals_s = json.loads(sys.argv[2])
src = ["from guppylang import guppy", "from guppylang.std.builtins import result, nat",
       "from guppylang.std.quantum import qubit, measure",
       "@guppy", "def conv_u(x: nat) -> float:", "    return x",
       "@guppy", "def conv_s(x: int) -> float:", "    return x",
       "@guppy", "def main() -> None:", "    q = qubit()", "    b = measure(q)", "    zi = 1 if b else 0",
       "    zn = nat(1) if b else nat(0)"]
for i, v in enumerate(vals_u):
    src += [f"    u{i}: nat = {v}", f"    result('u{i}', conv_u(u{i} + zn))"]
for i, v in enumerate(vals_s):
    src += [f"    s{i}: int = {v}", f"    result('s{i}', conv_s(s{i} + zi))"]
d = tempfile.mkdtemp(prefix="c16emu_")
path = os.path.join(d, "c16_emu_prog.py")
with open(path, "w") as fh:
    fh.write("\n".join(src) + "\n")
spec = importlib.util.spec_from_file_location("c16_emu_prog", path)
m = importlib.util.module_from_spec(spec)
sys.modules["c16_emu_prog"] = m
spec.loader.exec_module(m)
from hugr import ops  # noqa: E402

p = m.main.compile()
names = set()
for mod in p.modules:
    for n, dd in mod.nodes():
        o = dd.op
        if isinstance(o, ops.ExtOp):
            names.add(o._op_def.name)
        elif isinstance(o, ops.Custom):
            names.add(o.op_name)
res = m.main.emulator(n_qubits=1).run()
print(json.dumps({"ops": sorted(names), "results": [[k, v] for k, v in res.results[0].entries]}))
