#!/usr/bin/env python3
"""Re-run one C06 replay file on the real code:
       python3 /verif/props/C06/replay.py /verif/replays/C06-xxxx.json [repo]
Writes header + program to a temp dir, runs GuppyDefinition.check() of the named function with the
sources of `repo` (default: VERIF_REPO or /repo) and prints verdict / error class / blamed place,
next to what the replay file recorded as expected and observed."""
import json
import os
import subprocess
import sys
import tempfile
from pathlib import Path

HERE = Path(__file__).resolve().parent
sys.path.insert(0, str(HERE))
sys.path.insert(0, str(HERE.parent.parent / "tools"))
import gen_prog  # noqa: E402
import vlib  # noqa: E402

rec = json.load(open(sys.argv[1]))
repo = Path(sys.argv[2] if len(sys.argv) > 2 else os.environ.get("VERIF_REPO", "/repo"))
d = rec["detail"]
with tempfile.TemporaryDirectory() as tmp:
    p = subprocess.run([vlib.PY, str(HERE / "impl_lin.py")],
                       input=json.dumps({"module": gen_prog.HEADER + d["program"], "funcs": [d["function"]]}),
                       text=True, capture_output=True, env=vlib.impl_env(repo), cwd=tmp)
    if p.returncode:
        print(p.stderr[-3000:])
        sys.exit(2)
    r = json.loads(p.stdout)[d["function"]]
print(d["program"])
print("function          :", d["function"])
print("now on", repo, ":", [r["verdict"], r["cls"], r["place"]])
print("recorded observed :", d.get("observed", d.get("implementation")))
print("expected          :", d.get("expected", d.get("model")))
if d.get("specification"):
    print("path specification:", d["specification"])
