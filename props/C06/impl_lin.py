"""Implementation side of the C06 correspondence.

stdin: {"module": <python source>, "funcs": [names]}.  The module is written to a real file
(inspect.getsource) and every listed function is `.check()`ed with the REAL compiler.
`check_cfg_linearity` is wrapped (behaviour unchanged): before the real function runs, the
CheckedCFG[Variable] it receives is dumped in the vocabulary of the Coq model
(coq/C06/Linearity.v): per block the input row as place trees, the statements as the
mini-AST (PlaceNode / call with per-input flags / other node with its children in
generic_visit order), the successors as positions in cfg.bbs.  The dump is a structural
transcription: it never looks at scopes, uses or liveness.

Output: {name: {"verdict": "accept" | "reject" | "pre" | "crash", "cls", "place", "dump",
                "unmodelled": [...], "names": [place names by id]}}.
"""
import ast
import importlib.util
import json
import sys
from pathlib import Path

import repo_shim  # noqa: F401
import guppylang  # noqa: F401

import guppylang_internals.checker.linearity_checker as lc  # noqa: E402
from guppylang_internals.ast_util import find_nodes, get_type  # noqa: E402
from guppylang_internals.checker.core import (FieldAccess, SubscriptAccess, TupleAccess,  # noqa: E402
                                              Variable, contains_subscript)
from guppylang_internals.definition.custom import CustomFunctionDef  # noqa: E402
from guppylang_internals.engine import ENGINE  # noqa: E402
from guppylang_internals.error import GuppyError  # noqa: E402
from guppylang_internals.nodes import (FieldAccessAndDrop, GlobalCall, LocalCall, PlaceNode,  # noqa: E402
                                       TupleAccessAndDrop)
from guppylang_internals.tys.ty import InputFlags, StructType, TupleType  # noqa: E402


class Dumper:
    def __init__(self):
        self.ids = {}
        self.unmodelled = []

    def pid(self, s):
        return self.ids.setdefault(s, len(self.ids))

    def kind(self, ty):
        c, d = bool(ty.copyable), bool(ty.droppable)
        if c and d:
            return "KCopy"
        if not c and d:
            return "KAffine"
        if not c and not d:
            return "KLinear"
        self.unmodelled.append("copyable but not droppable type")
        return "KCopy"

    def tree(self, name, ty, inout):
        """place tree of a place called `name` of type `ty`"""
        if isinstance(ty, StructType):
            return ["N", [self.tree(f"{name}.{f.name}", f.ty, False) for f in ty.fields]]
        if isinstance(ty, TupleType):
            return ["N", [self.tree(f"{name}[{i}]", t, False) for i, t in enumerate(ty.element_types)]]
        return ["L", self.pid(name), self.kind(ty), bool(inout)]

    def place(self, pl):
        if contains_subscript(pl) is not None:
            self.unmodelled.append("subscript place")
        inout = isinstance(pl, Variable) and InputFlags.Inout in pl.flags
        return [self.pid(str(pl)), self.tree(str(pl), pl.ty, inout), inout]

    def var(self, v):
        inout = InputFlags.Inout in v.flags
        return self.tree(v.name, v.ty, inout)

    def call_flags(self, node):
        func = ENGINE.get_parsed(node.def_id)
        if isinstance(func, CustomFunctionDef) and not func.has_signature:
            return [[False, True] for _ in node.args]
        fty = func.ty.instantiate(node.type_args)
        if len(fty.inputs) != len(node.args):
            self.unmodelled.append("call arity")
        return [[InputFlags.Inout in i.flags, bool(i.ty.droppable)] for i in fty.inputs]

    def expr(self, n):
        if isinstance(n, PlaceNode):
            return ["P", self.place(n.place)]
        if isinstance(n, GlobalCall):
            return ["C", self.call_flags(n), [self.expr(a) for a in n.args]]
        if isinstance(n, LocalCall):
            fty = get_type(n.func)
            flags = [[InputFlags.Inout in i.flags, bool(i.ty.droppable)] for i in fty.inputs]
            return ["N", [self.expr(n.func), ["C", flags, [self.expr(a) for a in n.args]]]]
        if isinstance(n, FieldAccessAndDrop):
            # projection of a value that is not a place: the value is visited, the other fields
            # are dropped
            ok = all(bool(f.ty.droppable) for f in n.struct_ty.fields if f.name != n.field.name)
            return ["D", self.expr(n.value), ok]
        if isinstance(n, TupleAccessAndDrop):
            ok = all(bool(ty.droppable) for i, ty in enumerate(n.tuple_ty.element_types) if i != n.index)
            return ["D", self.expr(n.value), ok]
        special = "visit_" + type(n).__name__
        if special in lc.BBLinearityChecker.__dict__:
            self.unmodelled.append(special)
        return ["N", [self.expr(c) for c in ast.iter_child_nodes(n)]]

    def stmt(self, s):
        if isinstance(s, ast.Assign):
            [target] = s.targets
            tgts = find_nodes(lambda n: isinstance(n, PlaceNode), target)
            return ["A", [self.place(t.place) for t in tgts], self.expr(s.value)]
        if isinstance(s, ast.Expr):
            return ["E", self.expr(s.value), bool(get_type(s.value).droppable)]
        if isinstance(s, ast.Return):
            v = s.value
            if v is None:
                return ["R", []]
            if isinstance(v, PlaceNode):
                return ["R", [self.expr(v)]]
            if isinstance(v, ast.Tuple):
                return ["R", [self.expr(e) for e in v.elts]]
            return ["R", [["N", [self.expr(v)]]]]
        self.unmodelled.append("statement " + type(s).__name__)
        return ["E", ["N", []], True]

    def cfg(self, cfg):
        pos = {bb: i for i, bb in enumerate(cfg.bbs)}
        blocks = []
        for bb in cfg.bbs:
            stmts = [self.stmt(s) for s in bb.statements]
            if bb.branch_pred is not None:
                stmts.append(["Pr", self.expr(bb.branch_pred)])
            for s in bb.successors:
                if s not in pos:
                    self.unmodelled.append("successor outside cfg.bbs")
            blocks.append({"in": [self.var(v) for v in bb.sig.input_row], "stmts": stmts,
                           "succ": [pos.get(s, 0) for s in bb.successors],
                           "pred": sorted(pos.get(p, -1) for p in bb.predecessors)})
        # predecessor lists must be the inverse of the successor lists (assumed by the model)
        for i, b in enumerate(blocks):
            inv = sorted(j for j, c in enumerate(blocks) for s in c["succ"] if s == i)
            if inv != b["pred"]:
                self.unmodelled.append(f"predecessors of block {i} are not the inverse of successors")
        return {"blocks": blocks, "entry": pos[cfg.entry_bb], "exit": pos[cfg.exit_bb],
                "exit_reachable": bool(cfg.exit_bb.reachable),
                "inputs": [[self.pid(v.name), InputFlags.Inout in v.flags, self.var(v)]
                           for v in cfg.entry_bb.sig.input_row]}


records = []
_orig = lc.check_cfg_linearity


def wrapped(cfg, func_name, globals):
    d = Dumper()
    rec = {"func": func_name}
    try:
        rec["dump"] = d.cfg(cfg)
    except Exception as e:  # noqa: BLE001
        d.unmodelled.append(f"dump failed: {type(e).__name__}: {e}")
    rec["unmodelled"] = d.unmodelled
    rec["names"] = [n for n, _ in sorted(d.ids.items(), key=lambda kv: kv[1])]
    records.append(rec)
    return _orig(cfg, func_name, globals)


lc.check_cfg_linearity = wrapped

LIN = {"AlreadyUsedError", "BorrowSubPlaceUsedError", "PlaceNotUsedError", "NotOwnedError",
       "BorrowShadowedError", "UnnamedExprNotUsedError", "DropAfterCallError",
       "MoveOutOfSubscriptError", "ComprAlreadyUsedError", "UnnamedFieldNotUsedError",
       "UnnamedSubscriptNotUsedError", "UnnamedTupleNotUsedError", "NonCopyableCaptureError",
       "NonCopyablePartialApplyError"}


def classify(e):
    err = getattr(e, "error", None)
    cls = type(err).__name__ if err is not None else type(e).__name__
    place = None
    for attr in ("sub_place", "place"):
        if hasattr(err, attr):
            place = str(getattr(err, attr))
            break
    return cls, place


def main():
    payload = json.load(sys.stdin)
    import os
    modname = f"c06_prog_{os.getpid()}"        # several harness processes share the scratch dir
    path = Path(modname + ".py").resolve()
    path.write_text(payload["module"])
    spec = importlib.util.spec_from_file_location(modname, path)
    mod = importlib.util.module_from_spec(spec)
    sys.modules[modname] = mod
    spec.loader.exec_module(mod)
    out = {}
    for name in payload["funcs"]:
        f = getattr(mod, name)
        records.clear()
        r = {}
        try:
            f.check()
            r["verdict"], r["cls"], r["place"] = "accept", None, None
        except GuppyError as e:
            cls, place = classify(e)
            r["cls"], r["place"] = cls, place
            r["verdict"] = "reject" if cls in LIN else "pre"
            if r["verdict"] == "pre":
                r["detail"] = repr(getattr(e, "error", e))[:200]
        except Exception as e:  # noqa: BLE001
            r["verdict"], r["cls"], r["place"] = "crash", type(e).__name__, None
            r["detail"] = str(e)[:300]
        mine = [x for x in records if x["func"] == name]
        if mine:
            r["dump"] = mine[-1].get("dump")
            r["unmodelled"] = mine[-1]["unmodelled"]
            r["names"] = mine[-1]["names"]
        else:
            r["dump"], r["unmodelled"], r["names"] = None, [], []
        out[name] = r
    json.dump(out, sys.stdout)


main()
