"""C06 — Linearity: qubits are used exactly once on every path.

1. proofs: coq/C06/Props.v (model Linearity.v + the C09 liveness model);
2. tie X: generated programs (gen_prog.py) are checked by the REAL compiler (impl_lin.py,
   `GuppyDefinition.check()` under the shim); the CheckedCFG[Variable] that reaches
   `check_cfg_linearity` is dumped structurally and fed to the Coq model (`check_ast`,
   vm_compute); verdict / error class / blamed place are compared.  The tie therefore covers
   linearity_checker.py (the front end that builds the checked CFG is C03/C08's business);
3. search, independent of the model: the token discipline interpreted on the generator's IR
   over all paths (spec_paths.py) against the real verdict: accepted-but-violating =
   unsoundness, respecting-but-rejected = incompleteness (programs with `while True` are the
   stated boundary H_exit and are not counted).
"""
import hashlib
import json
import sys
from collections import Counter
from concurrent.futures import ThreadPoolExecutor
from pathlib import Path

import vlib
from vlib import proof_coverage

sys.path.insert(0, str(Path(__file__).resolve().parent))
import features  # noqa: E402
import gen_prog  # noqa: E402
import spec_paths  # noqa: E402
import tie  # noqa: E402

LEVEL = "proof"
HERE = Path(__file__).resolve().parent
BATCH = 250


def generate(ctx):
    # the model is hand written (tie X); make sure the anchored functions still exist
    src = ctx.int_src("checker/linearity_checker.py").read_text()
    for needle in ("def check_cfg_linearity", "class BBLinearityChecker", "def leaf_places",
                   "def _check_assign_targets", "def _reassign_inout_args", "def visit_PlaceNode",
                   "class Scope"):
        if needle not in src:
            raise vlib.TranslatorError(f"linearity_checker.py: `{needle}` not found")


def run_impl(ctx, modules):
    """modules: list of (module source, [function names]) -> list of result dicts"""
    def one(m):
        return json.loads(ctx.impl("impl_lin.py", {"module": m[0], "funcs": m[1]}))
    with ThreadPoolExecutor(max_workers=8) as ex:
        return list(ex.map(one, modules))


def key_of(text):
    return hashlib.sha1(text.encode()).hexdigest()[:12]


def replay_cmd(ctx, src, name):
    return (f"python3 /verif/props/C06/replay.py <this file> {ctx.repo}   (runs {name}.check() of the program "
            "below, prefixed with gen_prog.HEADER, on the real sources)")


def compare(ctx, items, stats, tag):
    """items: list of dicts {name, src (full module for replay), fn (IR or None), impl (record),
    expect (optional)}.  Evaluates the model on every modelled item and reports differences."""
    todo = [it for it in items if it["impl"]["verdict"] != "pre" and it["impl"].get("dump")
            and not it["impl"]["unmodelled"]]
    for it in items:
        r = it["impl"]
        stats["impl_verdicts"][r["verdict"] + (":" + r["cls"] if r["cls"] else "")] += 1
        if r["verdict"] == "pre":
            stats["pre"] += 1
        elif not r.get("dump") or r["unmodelled"]:
            stats["unmodelled"] += 1
            for u in r["unmodelled"]:
                stats["unmodelled_reasons"][u] += 1
    rng = vlib.rng(ctx.seed, "sched" + tag)
    scheds = ["[" + "; ".join(str(rng.randint(0, 7)) for _ in range(rng.choice([0, 0, 6, 30]))) + "]"
              for _ in todo]
    models = tie.eval_model(ctx, tag, [it["impl"]["dump"] for it in todo], fx=True, scheds=scheds,
                            chunk=BATCH)
    for it, m in zip(todo, models):
        r = it["impl"]
        stats["evaluations"] += 1
        nblocks = len(r["dump"]["blocks"])
        stats["blocks_hist"][min(nblocks, 20) // 4 * 4] += 1
        stats["model_verdicts"][m["verdict"] + (":" + m["cls"] + "/" + m.get("phase", "") if m["verdict"] == "reject" else "")] += 1
        if m["verdict"] == "reject" and len(set(m["ids"])) > 1:
            stats["multi_candidate"] += 1
        it["model"] = m
        for hname, hv in m["hyps"].items():
            stats["hyps"][hname] += int(hv)
        sound_hyps = m["hyps"]["uniform"] and m["hyps"]["wf_shape"]
        compl_hyps = sound_hyps and all(m["hyps"][h] for h in ("h_exit", "all_reached", "events_wf", "io_ok", "exit_reachable"))
        typing = all(m["hyps"][h] for h in ("typed", "edges_ok", "exit_row_ok", "wf_idx"))
        stats["hyps"]["lin_sound (uniform) applies"] += int(sound_hyps)
        stats["hyps"]["lin_sound_rebind applies"] += int(m["hyps"]["wf_shape"] and typing)
        stats["hyps"]["lin_complete_strict applies"] += int(compl_hyps and typing)
        stats["hyps"]["lin_exact_rebind applies"] += int(typing and all(
            m["hyps"][h] for h in ("wf_shape", "h_exit", "all_reached", "events_wf", "io_ok", "exit_reachable")))
        if it.get("fn"):
            for ft in features.features(it["fn"]):
                stats["constructs"][ft] += 1
        if not m["hyps"]["wf_shape"] or not m["hyps"]["events_wf"] or not m["hyps"]["io_ok"] or not typing:
            # these are properties of every CFG the front end / flatten produce
            ctx.report(it["key"] + ":hyps", "correspondence", "structural hypotheses of the theorems",
                       {"program": it["text"], "function": it["name"], "hypotheses": m["hyps"]})
        why = tie.agree(r, m, r["names"])
        spec = spec_paths.check(it["fn"]) if it.get("fn") else None
        it["spec"] = spec
        detail = {"program": it["text"], "function": it["name"], "implementation": [r["verdict"], r["cls"], r["place"]],
                  "model": tie.show(m, r["names"]), "specification": spec,
                  "replay": replay_cmd(ctx, it["text"], it["name"]), "module_header": "gen_prog.HEADER"}
        if spec is not None:
            if r["verdict"] == "accept" and not spec["ok"]:
                stats["unsound"] += 1
                ctx.report(it["key"], "counterexample", "lin_sound", dict(detail, expected="rejected: some path violates the token discipline " + str(spec["violations"]), observed="accepted"))
                continue
            if r["verdict"] == "reject" and spec["ok"] and not spec["while_true"]:
                stats["incomplete"] += 1
                ctx.report(it["key"], "counterexample", "lin_complete", dict(detail, expected="accepted: every path respects the token discipline and the ownership rules", observed=f"rejected with {r['cls']}({r['place']})"))
                continue
            if r["verdict"] == "reject" and spec["ok"]:
                stats["boundary_while_true"] += 1
        if it.get("expect") is not None and _norm([r["verdict"], r["cls"], r["place"]]) != _norm(it["expect"]):
            ctx.report(it["key"], "counterexample", "corpus", dict(detail, expected=it["expect"], observed=[r["verdict"], r["cls"], r["place"]]))
            continue
        if why:
            stats["disagreements"] += 1
            ctx.report(it["key"], "correspondence", "check_ast vs check_cfg_linearity", dict(detail, difference=why))
    return todo


def run(ctx) -> int:
    generate(ctx)
    import time
    t0 = time.time()
    info = ctx.coq_props()
    t_proofs = round(time.time() - t0, 1)
    if not info["ok"]:
        ctx.report("proof:" + str(info["failed"]), "proof-broken", str(info["failed"]),
                   {"log": info["log"][-3000:]}, found_input=False)
    stats = {"evaluations": 0, "pre": 0, "unmodelled": 0, "disagreements": 0, "unsound": 0,
             "incomplete": 0, "boundary_while_true": 0, "multi_candidate": 0,
             "impl_verdicts": Counter(), "model_verdicts": Counter(), "blocks_hist": Counter(),
             "unmodelled_reasons": Counter(), "hyps": Counter(), "constructs": Counter()}

    # ---- corpus first -------------------------------------------------------------------
    items = []
    corpus = [(f.stem, json.loads(f.read_text())) for f in sorted((HERE / "corpus").glob("*.json"))]
    names = [n for _, c in corpus for n in c["expect"]]
    assert len(names) == len(set(names)), "corpus function names must be unique"
    # one harness process for the whole corpus (the import of the compiler dominates)
    res = run_impl(ctx, [(gen_prog.HEADER + "\n".join(c["module"] for _, c in corpus), names)])[0]
    for stem, c in corpus:
        for name, exp in c["expect"].items():
            items.append({"name": name, "text": c["module"], "fn": None, "impl": res[name],
                          "expect": exp, "key": f"corpus:{stem}:{name}"})
    compare(ctx, items, stats, "corpus")
    ncorpus = len(items)

    # ---- generated programs --------------------------------------------------------------
    n = 600 if ctx.quick else 12000
    rng = vlib.rng(ctx.seed, "programs")
    fns = [gen_prog.gen_function(rng, f"f{i}") for i in range(n)]
    texts = [gen_prog.render(f) for f in fns]
    per = 300
    modules = []
    for k in range(0, n, per):
        modules.append((gen_prog.HEADER + "\n".join(texts[k:k + per]), [f["name"] for f in fns[k:k + per]]))
    results = run_impl(ctx, modules)
    items = []
    for k, res in zip(range(0, n, per), results):
        for f, t in zip(fns[k:k + per], texts[k:k + per]):
            items.append({"name": f["name"], "text": t, "fn": f, "impl": res[f["name"]],
                          "key": "prog:" + key_of(t)})
    done = compare(ctx, items, stats, "gen")

    distinct = len({it["text"].split("\n", 2)[2] for it in done})
    nontrivial = len({it["text"].split("\n", 2)[2] for it in done
                      if any(l[2] != "KCopy" for b in it["impl"]["dump"]["blocks"] for t in b["in"] for l in _leaves(t))
                      or "qubit" in it["text"]})
    samples = [{"program": it["text"], "implementation": [it["impl"]["verdict"], it["impl"]["cls"], it["impl"]["place"]],
                "model": tie.show(it["model"], it["impl"]["names"]),
                "spec_ok": it["spec"]["ok"] if it.get("spec") else None} for it in done[:3] + done[-2:]]
    cov = proof_coverage(
        info, "make -f Makefile.C06 C06/Props.vo; coqc C06/Props.v (Print Assumptions)",
        ["Coq kernel incl. vm_compute (model evaluation for the correspondence)",
         "hand-written model coq/C06/Linearity.v (tie is differential)",
         "impl_lin.py: structural dump of the CheckedCFG[Variable] handed to check_cfg_linearity (front end not covered here)",
         "repo_shim.py", "spec_paths.py (token discipline on the generator IR, all paths by state-set fixpoint)",
         "C09 liveness model + theorems (coq_deps)"],
        evaluations=stats["evaluations"], corpus_cases=ncorpus, generated=n, distinct_programs=distinct,
        distinct_nontrivial=nontrivial,
        rule="non-trivial = reaches check_cfg_linearity (no earlier type error) and holds at least one qubit/non-copyable place",
        pre_linearity_errors=stats["pre"], unmodelled=stats["unmodelled"],
        generated_programs_skipped_as_outside_the_model=stats["unmodelled"],
        generated_programs_rejected_before_the_linearity_pass=stats["pre"],
        unmodelled_reasons=dict(stats["unmodelled_reasons"]),
        impl_verdicts=dict(stats["impl_verdicts"]), model_verdicts=dict(stats["model_verdicts"]),
        blocks_histogram={str(k): v for k, v in sorted(stats["blocks_hist"].items())},
        rejections_with_several_candidate_places=stats["multi_candidate"],
        theorem_hypotheses_hold_on=dict(stats["hyps"]),
        dumped_cfgs_from_programs_with_construct=dict(sorted(stats["constructs"].items(), key=lambda kv: -kv[1])),
        disagreements=stats["disagreements"], search_unsound=stats["unsound"], search_incomplete=stats["incomplete"],
        search_boundary_while_true=stats["boundary_while_true"], samples=samples,
        seconds={"proofs": t_proofs, "total": round(time.time() - t0, 1)})
    return ctx.finish(LEVEL, cov, [
        "the checked CFG handed to check_cfg_linearity is produced by the real front end; its typing invariants (rows match, places defined) are relied on, not proved here",
        "AlreadyUsedError and BorrowSubPlaceUsedError are compared as one class; when several places violate, the implementation's choice must be among the model's candidates"])


def _norm(v):
    """compiler temporaries are numbered by a counter shared by the whole module"""
    return [v[0], v[1], "%tmp" if isinstance(v[2], str) and v[2].startswith("%tmp") else v[2]]


def _leaves(t):
    if t[0] == "L":
        return [t]
    return [l for c in t[1] for l in _leaves(c)]
