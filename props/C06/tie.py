"""C06: turning a dump of impl_lin.py into a Coq term, evaluating the model, comparing."""
import re

import vlib

ERRCODE = {1: "AlreadyUsed", 2: "NotUsed", 3: "NotOwned", 4: "BorrowShadowed", 5: "UnnamedExpr",
           6: "DropAfterCall", 7: "Crash", 8: "UnnamedAccess"}
IMPL_CLASS = {"AlreadyUsedError": "AlreadyUsed", "BorrowSubPlaceUsedError": "AlreadyUsed",
              "PlaceNotUsedError": "NotUsed", "NotOwnedError": "NotOwned",
              "BorrowShadowedError": "BorrowShadowed", "UnnamedExprNotUsedError": "UnnamedExpr",
              "DropAfterCallError": "DropAfterCall", "UnnamedFieldNotUsedError": "UnnamedAccess",
              "UnnamedTupleNotUsedError": "UnnamedAccess"}


def b(x):
    return "true" if x else "false"


def lst(xs):
    return "[" + "; ".join(xs) + "]"


def c_tree(t):
    if t[0] == "L":
        return f"PLeaf (mkLeaf {t[1]} {t[2]} {b(t[3])})"
    return "PNode " + lst([c_tree(c) for c in t[1]])


def c_place(p):
    return f"(mkPlace {p[0]} ({c_tree(p[1])}) {b(p[2])})"


def c_expr(e):
    if e[0] == "P":
        return f"XPlace {c_place(e[1])}"
    if e[0] == "C":
        return ("XCall " + lst([f"({b(i)}, {b(d)})" for i, d in e[1]]) + " "
                + lst([c_expr(a) for a in e[2]]))
    if e[0] == "D":
        return f"XDrop ({c_expr(e[1])}) {b(e[2])}"
    return "XNode " + lst([c_expr(c) for c in e[1]])


def c_stmt(s):
    if s[0] == "A":
        return f"SAssign {lst([c_place(p) for p in s[1]])} ({c_expr(s[2])})"
    if s[0] == "E":
        return f"SExpr ({c_expr(s[1])}) {b(s[2])}"
    if s[0] == "R":
        return f"SReturn {lst([c_expr(e) for e in s[1]])}"
    if s[0] == "Pr":
        return f"SPred ({c_expr(s[1])})"
    raise ValueError(s)


def c_cfg_args(d):
    blocks = lst([f"mkAB {lst([c_tree(t) for t in bl['in']])} {lst([c_stmt(s) for s in bl['stmts']])} "
                  f"{lst([str(x) for x in bl['succ']])}" for bl in d["blocks"]])
    fin = lst([f"({i[0]}, {b(i[1])}, {c_tree(i[2])})" for i in d["inputs"]])
    return f"{blocks} {d['entry']} {d['exit']} {b(d['exit_reachable'])} {fin}"


def c_lcfg(d):
    blocks = lst([f"mkAB {lst([c_tree(t) for t in bl['in']])} {lst([c_stmt(s) for s in bl['stmts']])} "
                  f"{lst([str(x) for x in bl['succ']])}" for bl in d["blocks"]])
    fin = lst([f"({i[0]}, {b(i[1])}, {c_tree(i[2])})" for i in d["inputs"]])
    return f"(mkLC (map flatten_block {blocks}) {d['entry']} {d['exit']} {b(d['exit_reachable'])} {fin})"


def coq_case(d, fx=True, sched="[]"):
    # verdict of the model, followed by the (decidable) hypotheses of the theorems on this CFG
    return (f"Eval vm_compute in (let c := {c_lcfg(d)} in "
            f"(enc_verdict (check_cfg {b(fx)} c {sched}), hyps_code c)).")


PRELUDE = ("From Coq Require Import List Bool Arith.\nFrom V.C09 Require Import Analysis.\n"
           "From V.C06 Require Import Linearity Token Hyps.\nImport ListNotations.\n")
HYPS = ["uniform", "wf_shape", "h_exit", "all_reached", "events_wf", "io_ok", "exit_reachable",
        "typed", "edges_ok", "exit_row_ok", "wf_idx"]


def eval_model(ctx, tag, dumps, fx=True, scheds=None, chunk=250):
    """dumps: list of dump dicts -> list of decoded verdicts (same order)"""
    files = {}
    for k in range(0, len(dumps), chunk):
        body = PRELUDE + "\n".join(
            coq_case(d, fx, (scheds[k + j] if scheds else "[]")) for j, d in enumerate(dumps[k:k + chunk]))
        files[f"{tag}_{k // chunk:04d}"] = body
    outs = ctx.coq_eval_many(files)
    res = []
    for name in sorted(files):
        vals = vlib.parse_coq_values(outs[name])
        res += vals
    if len(res) != len(dumps):
        raise RuntimeError(f"model evaluation returned {len(res)} values for {len(dumps)} cases")
    out = []
    for v, h in res:
        m = decode(list(v))
        m["hyps"] = dict(zip(HYPS, [bool(x) for x in h]))
        out.append(m)
    return out


def decode(v):
    t = v[0]
    if t == 0:
        return {"verdict": "accept"}
    if t == 1:
        code = v[2]
        return {"verdict": "reject", "phase": "block", "block": v[1], "cls": ERRCODE[code],
                "ids": v[3:4]}
    if t == 2:
        return {"verdict": "reject", "phase": "used", "block": v[1], "cls": "AlreadyUsed", "ids": v[2:]}
    if t == 3:
        return {"verdict": "reject", "phase": "unused", "block": v[1], "cls": "NotUsed", "ids": v[2:]}
    return {"verdict": "crash", "block": v[1], "cls": "Crash", "ids": []}


def agree(impl, model, names):
    """impl: record of impl_lin.py; model: decoded verdict.  Returns None or a reason."""
    if impl["verdict"] == "accept":
        return None if model["verdict"] == "accept" else f"implementation accepts, model: {show(model, names)}"
    if impl["verdict"] == "crash":
        return None if model["verdict"] == "crash" else f"implementation crashes ({impl['cls']}), model: {show(model, names)}"
    if model["verdict"] != "reject":
        return f"implementation rejects with {impl['cls']}({impl['place']}), model: {show(model, names)}"
    cls = IMPL_CLASS.get(impl["cls"])
    if cls != model["cls"]:
        return f"implementation raises {impl['cls']}({impl['place']}), model: {show(model, names)}"
    if cls in ("UnnamedExpr", "DropAfterCall", "UnnamedAccess"):
        return None
    cands = [names[i] for i in model["ids"] if i < len(names)]
    if impl["place"] not in cands:
        return f"implementation blames {impl['place']}, model: {show(model, names)}"
    return None


def show(model, names):
    if model["verdict"] != "reject":
        return model["verdict"]
    return f"{model['cls']}({', '.join(names[i] if i < len(names) else str(i) for i in model['ids'])}) at block {model['block']} [{model['phase']}]"
