"""Program generator for C06.  Programs are built as a small IR (so that the specification-side
path search can interpret them without looking at the compiler or at the Coq model) and
rendered to Guppy source.

IR
--
expr:  ("new",)                      qubit()
       ("pl", name, ty)              read of a place, e.g. "q0", "s0.a", "t0[1]"
       ("tup", [e, e])               tuple display
       ("call", fname, [e...])       call of a function of SIGS
       ("lit", text, ty)             classical literal / expression text (copyable)
       ("proj", e, sel, ty, drops)   projection `.x` / `[k]` applied directly to a call result or a tuple
                                     display (not a place): FieldAccessAndDrop / TupleAccessAndDrop;
                                     ty = type of the result, drops = a linear component is dropped
       ("ifx", cond, e1, e2)         conditional expression `e1 if cond else e2` (the builder stores its
                                     value in a compiler temporary `%tmpN` assigned in both arms)
stmt:  ("assign", [(name, ty)...], e)    one target -> `a = e`, several -> `a, b = e`
       ("expr", e) ("return", e|None) ("if", cond, then, else) ("while", cond, body)
       ("break",) ("continue",) ("pass",)
cond:  an expr of type bool, or ("true",) for `while True`
types: "q" qubit | "t" tuple[qubit, qubit] | "s" struct S{a: qubit, b: qubit} | "arr" array[int, 2]
       (not copyable, droppable) | "int" | "bool" | "none"
"""
import random

# name -> ([(mode, ty)...], return type)   mode: "own" | "bor"
SIGS = {
    "h": ([("bor", "q")], "none"),
    "cx": ([("bor", "q"), ("bor", "q")], "none"),
    "measure": ([("own", "q")], "bool"),
    "discard": ([("own", "q")], "none"),
    "own": ([("own", "q")], "none"),
    "bor": ([("bor", "q")], "none"),
    "thru": ([("own", "q")], "q"),
    "own_t": ([("own", "t")], "none"),
    "bor_t": ([("bor", "t")], "none"),
    "own_s": ([("own", "s")], "none"),
    "bor_w": ([("bor", "w")], "none"),
    "own_w": ([("own", "w")], "none"),
    "mk_w": ([], "w"),
    "bor_s": ([("bor", "s")], "none"),
    "mk_t": ([], "t"),
    "mk_s": ([], "s"),
    "S": ([("own", "q"), ("own", "q")], "s"),
    "use_arr": ([("own", "arr")], "none"),
    "bor_arr": ([("bor", "arr")], "none"),
    "mk_arr": ([], "arr"),
    "bor_own": ([("bor", "q"), ("own", "q")], "none"),
    # aggregate results that are only ever projected (never bound to a name)
    "meas2": ([("own", "q"), ("own", "q")], "tbb"),     # tuple[bool, bool]
    "peek2": ([("bor", "q"), ("bor", "q")], "tbb"),
    "meas_b": ([("own", "q")], "B"),                      # struct B{x: bool, y: bool}
    "pair": ([("own", "q")], "tqi"),                      # tuple[qubit, int]
}

# aggregate type -> selector -> (type of the projection, are linear components dropped?)
PROJ = {"tbb": {"[0]": ("bool", False), "[1]": ("bool", False)},
        "B": {".x": ("bool", False), ".y": ("bool", False)},
        "tqi": {"[0]": ("q", False), "[1]": ("int", True)},
        "t": {"[0]": ("q", True), "[1]": ("q", True)}}

HEADER = '''from guppylang import guppy
from guppylang.std.quantum import qubit, h, cx, measure, discard
from guppylang.std.builtins import owned, array


@guppy.struct
class S:
    a: qubit
    b: qubit


@guppy.struct
class W:
    inner: S
    z: qubit


@guppy.declare
def bor_w(w: W) -> None: ...
@guppy.declare
def own_w(w: W @ owned) -> None: ...
@guppy.declare
def mk_w() -> W: ...


@guppy.struct
class B:
    x: bool
    y: bool


@guppy.declare
def meas2(q: qubit @ owned, r: qubit @ owned) -> tuple[bool, bool]: ...
@guppy.declare
def peek2(q: qubit, r: qubit) -> tuple[bool, bool]: ...
@guppy.declare
def meas_b(q: qubit @ owned) -> B: ...
@guppy.declare
def pair(q: qubit @ owned) -> tuple[qubit, int]: ...

@guppy.declare
def own(q: qubit @ owned) -> None: ...
@guppy.declare
def bor(q: qubit) -> None: ...
@guppy.declare
def thru(q: qubit @ owned) -> qubit: ...
@guppy.declare
def own_t(t: tuple[qubit, qubit] @ owned) -> None: ...
@guppy.declare
def bor_t(t: tuple[qubit, qubit]) -> None: ...
@guppy.declare
def own_s(s: S @ owned) -> None: ...
@guppy.declare
def bor_s(s: S) -> None: ...
@guppy.declare
def mk_t() -> tuple[qubit, qubit]: ...
@guppy.declare
def mk_s() -> S: ...
@guppy.declare
def use_arr(a: array[int, 2] @ owned) -> None: ...
@guppy.declare
def bor_arr(a: array[int, 2]) -> None: ...
@guppy.declare
def mk_arr() -> array[int, 2]: ...
@guppy.declare
def bor_own(p: qubit, q: qubit @ owned) -> None: ...

'''

PYTY = {"w": "W", "q": "qubit", "t": "tuple[qubit, qubit]", "s": "S", "arr": "array[int, 2]",
        "int": "int", "bool": "bool", "none": "None"}


def leaves_of(name, ty):
    """leaf places of a place of the given type, with their kinds"""
    if ty == "q":
        return [(name, "lin")]
    if ty == "t":
        return [(f"{name}[0]", "lin"), (f"{name}[1]", "lin")]
    if ty == "s":
        return [(f"{name}.a", "lin"), (f"{name}.b", "lin")]
    if ty == "w":       # struct W{inner: S, z: qubit}
        return [(f"{name}.inner.a", "lin"), (f"{name}.inner.b", "lin"), (f"{name}.z", "lin")]
    if ty == "arr":
        return [(name, "aff")]
    return [(name, "copy")]


# ---------------------------------------------------------------------------------- render
def r_expr(e):
    k = e[0]
    if k == "new":
        return "qubit()"
    if k == "pl":
        return e[1]
    if k == "tup":
        return "(" + ", ".join(r_expr(x) for x in e[1]) + ")"
    if k == "call":
        return f"{e[1]}(" + ", ".join(r_expr(x) for x in e[2]) + ")"
    if k == "lit":
        return e[1]
    if k == "true":
        return "True"
    if k == "ifx":
        return f"({r_expr(e[2])} if {r_expr(e[1])} else {r_expr(e[3])})"
    if k == "proj":
        return r_expr(e[1]) + e[2]
    raise ValueError(e)


def r_stmts(ss, ind):
    out = []
    pad = "    " * ind
    for s in ss:
        k = s[0]
        if k == "assign":
            out.append(pad + ", ".join(n for n, _ in s[1]) + " = " + r_expr(s[2]))
        elif k == "expr":
            out.append(pad + r_expr(s[1]))
        elif k == "return":
            out.append(pad + ("return" if s[1] is None else "return " + r_expr(s[1])))
        elif k == "if":
            out.append(pad + "if " + r_expr(s[1]) + ":")
            out += r_stmts(s[2] or [("pass",)], ind + 1)
            if s[3]:
                out.append(pad + "else:")
                out += r_stmts(s[3], ind + 1)
        elif k == "while":
            out.append(pad + "while " + r_expr(s[1]) + ":")
            out += r_stmts(s[2] or [("pass",)], ind + 1)
        else:
            out.append(pad + k)
    return out


def render(fn):
    """fn = {"name", "params": [(name, ty, mode)], "ret": ty, "body": [stmt]}"""
    ps = []
    for n, ty, mode in fn["params"]:
        ann = PYTY[ty] + (" @ owned" if mode == "own" and ty in ("q", "t", "s", "w", "arr") else "")
        ps.append(f"{n}: {ann}")
    ret = PYTY[fn["ret"]] if fn["ret"] != "tq" else "tuple[qubit, qubit]"
    lines = ["@guppy", f"def {fn['name']}(" + ", ".join(ps) + f") -> {ret}:"]
    lines += r_stmts(fn["body"] or [("pass",)], 1)
    return "\n".join(lines) + "\n"


# --------------------------------------------------------------------------------- generate
class Gen:
    def __init__(self, rng, size=None, naughty=None):
        self.r = rng
        self.size = size if size is not None else rng.choice([3, 5, 8, 12])
        # probability of deliberately doing something that is probably wrong
        self.naughty = naughty if naughty is not None else rng.choice([0.0, 0.03, 0.08, 0.2])
        self.budget = 0
        # "places": struct-field / tuple-element heavy; "loops": nested loops with break / continue
        self.profile = rng.choice(["default", "default", "places", "loops"])

    # env: name -> ty (variable level, definitely assigned); full: set of leaf names believed full
    def pick_full(self, env, full, ty, bor_ok=True):
        """a place expression of the type whose leaves are (believed) full"""
        cands = []
        for n, t in env.items():
            if t == ty and all(l in full for l, _ in leaves_of(n, t)) and (bor_ok or n not in self.borrowed):
                cands.append(n)
            if ty == "q" and t in ("t", "s", "w"):
                # leaves of a borrowed aggregate may be consumed too (if refilled before the end)
                for l, _ in leaves_of(n, t):
                    if l in full:
                        cands.append(l)
            if ty == "s" and t == "w" and f"{n}.inner.a" in full and f"{n}.inner.b" in full \
                    and (bor_ok or n not in self.borrowed or self.r.random() < 0.3):
                cands.append(f"{n}.inner")
        return self.r.choice(cands) if cands else None

    def pick_any(self, env, ty):
        cands = [n for n, t in env.items() if t == ty]
        if ty == "q":
            for n, t in env.items():
                if t in ("t", "s", "w"):
                    cands += [l for l, _ in leaves_of(n, t)]
        if ty == "s":
            cands += [f"{n}.inner" for n, t in env.items() if t == "w"]
        return self.r.choice(cands) if cands else None

    def place(self, env, full, ty, owned_use):
        """choose a place of type ty to use; usually one that is full (and owned if it is to
        be consumed), sometimes not"""
        if self.r.random() < self.naughty:
            p = self.pick_any(env, ty)
        else:
            p = self.pick_full(env, full, ty, bor_ok=not owned_use)
        return p

    def consume(self, full, name, ty):
        for l, _ in leaves_of(name, ty):
            full.discard(l)

    def fill(self, full, name, ty):
        for l, k in leaves_of(name, ty):
            if k != "copy":
                full.add(l)

    def fresh_var(self, env, ty, in_loop_pre):
        pool = {"q": ["q0", "q1", "q2", "q3"], "t": ["t0", "t1"], "s": ["s0", "s1"],
                "arr": ["a0", "a1"], "int": ["n0"], "bool": ["b0"]}[ty]
        if self.r.random() < 0.12:
            pool = pool + ["x0"]          # a name that may change its type
        ok = [n for n in pool if n not in self.borrowed and n not in self.params
              and (n not in in_loop_pre or in_loop_pre[n] == ty)]
        return self.r.choice(ok) if ok else None

    def cond_value(self, env, full, depth=0):
        """a conditional expression of qubit type; usually both arms consume the same place (or
        nothing), so that the expression is fine on both paths"""
        bs = [n for n, t in env.items() if t == "bool"]
        c = ("pl", self.r.choice(bs), "bool") if bs else ("lit", "1 < 2", "bool")
        p = self.place(env, full, "q", True) if self.r.random() < 0.6 else None

        def arm(d):
            r = self.r.random()
            if d < 2 and r < 0.2:
                bs2 = [n for n, t in env.items() if t == "bool"]
                c2 = ("pl", self.r.choice(bs2), "bool") if bs2 else ("lit", "2 < 3", "bool")
                return ("ifx", c2, arm(d + 1), arm(d + 1))
            if p and self.r.random() > self.naughty:
                return ("pl", p, "q") if r < 0.6 else ("call", "thru", [("pl", p, "q")])
            if p is None or self.r.random() < 0.5:
                return ("new",) if r < 0.6 else ("call", "thru", [("new",)])
            q = self.pick_any(env, "q")
            return ("pl", q, "q") if q else ("new",)
        e = ("ifx", c, arm(depth), arm(depth))
        if p:
            self.consume(full, p, "q")
        return e

    def proj_value(self, env, full, ty):
        """a projection applied directly to a call result / tuple display, of type ty (q, bool or
        int); the operand moves or borrows qubit places"""
        r = self.r.random()

        def qarg(owned_use):
            p = self.place(env, full, "q", owned_use)
            if p and owned_use:
                self.consume(full, p, "q")
            return ("pl", p, "q") if p else None
        if ty == "bool":
            if r < 0.35:
                a, b = qarg(True), qarg(True)
                if a and b:
                    return ("proj", ("call", "meas2", [a, b]), self.r.choice(["[0]", "[1]"]), "bool", False)
            if r < 0.55:
                a, b = qarg(False), qarg(False)
                if a and b and (a != b or self.r.random() < self.naughty):
                    return ("proj", ("call", "peek2", [a, b]), self.r.choice(["[0]", "[1]"]), "bool", False)
            if r < 0.8:
                a = qarg(True)
                if a:
                    return ("proj", ("call", "meas_b", [a]), self.r.choice([".x", ".y"]), "bool", False)
            a = qarg(True)
            if a:
                return ("proj", ("tup", [("call", "measure", [a]), ("lit", "1", "int")]), "[0]", "bool", False)
            return None
        if ty == "q":
            if r < 0.4:
                a = qarg(True)
                if a:
                    return ("proj", ("call", "pair", [a]), "[0]", "q", False)
            if r < 0.75:
                a = self.value(env, full, "q")
                return ("proj", ("tup", [a, ("lit", "1", "int")]), "[0]", "q", False)
            if self.r.random() < self.naughty + 0.03:
                return ("proj", ("call", "mk_t", []), self.r.choice(["[0]", "[1]"]), "q", True)
            return None
        if ty == "int":
            a = qarg(True)
            if a and self.r.random() < self.naughty + 0.03:
                return ("proj", ("call", "pair", [a]), "[1]", "int", True)
            if a:
                return ("proj", ("tup", [("lit", "2", "int"), ("call", "measure", [a])]), "[0]", "int", False)
        return None

    def value(self, env, full, ty):
        """an expression of type ty; consumes what it moves"""
        if ty in ("q", "bool", "int") and self.r.random() < (0.08 if ty == "q" else 0.15):
            e = self.proj_value(env, full, ty)
            if e:
                return e
        r = self.r.random()
        if ty == "q" and self.r.random() < 0.1:
            return self.cond_value(env, full)
        if ty == "q":
            if r < 0.45:
                return ("new",)
            if r < 0.6:
                p = self.place(env, full, "q", True)
                if p:
                    self.consume(full, p, "q")
                    return ("call", "thru", [("pl", p, "q")])
                return ("new",)
            p = self.place(env, full, "q", True)
            if p:
                self.consume(full, p, "q")
                return ("pl", p, "q")
            return ("new",)
        if ty == "t":
            if r < 0.3:
                return ("call", "mk_t", [])
            if r < 0.5:
                p = self.place(env, full, "t", True)
                if p:
                    self.consume(full, p, "t")
                    return ("pl", p, "t")
            a = self.value(env, full, "q")
            b = self.value(env, full, "q")
            return ("tup", [a, b])
        if ty == "s":
            if r < 0.3:
                return ("call", "mk_s", [])
            if r < 0.5:
                p = self.place(env, full, "s", True)
                if p:
                    self.consume(full, p, "s")
                    return ("pl", p, "s")
            a = self.value(env, full, "q")
            b = self.value(env, full, "q")
            return ("call", "S", [a, b])
        if ty == "w":
            return ("call", "mk_w", [])
        if ty == "arr":
            p = self.place(env, full, "arr", True) if r < 0.5 else None
            if p:
                self.consume(full, p, "arr")
                return ("pl", p, "arr")
            return ("call", "mk_arr", [])
        if ty == "int":
            n = self.pick_any(env, "int")
            return ("lit", f"{n} + 1", "int") if n and r < 0.5 else ("lit", str(self.r.randint(0, 9)), "int")
        if ty == "bool":
            return self.cond(env, full, allow_true=False)
        raise ValueError(ty)

    def cond(self, env, full, allow_true):
        r = self.r.random()
        if allow_true and r < 0.07:
            return ("true",)
        if r < 0.12:
            e = self.proj_value(env, full, "bool")
            if e:
                return e
        if r < 0.25:
            p = self.place(env, full, "q", True)
            if p:
                self.consume(full, p, "q")
                return ("call", "measure", [("pl", p, "q")])
        bs = [n for n, t in env.items() if t == "bool"]
        if bs:
            return ("pl", self.r.choice(bs), "bool")
        return ("lit", "True" if self.r.random() < 0.5 else "False", "bool") if False else ("lit", "1 < 2", "bool")

    def simple(self, env, full, in_loop_pre):
        """one simple statement, updating env/full"""
        if self.r.random() < 0.04:      # a conditional expression directly as an argument
            e = self.cond_value(env, full)
            r0 = self.r.random()
            if r0 < 0.25:               # only lent: the temporary's qubit is lost after the call
                return ("expr", ("call", self.r.choice(["h", "bor"]), [e]))
            if r0 < 0.35:
                a = self.place(env, full, "q", False)
                if a:
                    return ("expr", ("call", "bor_own", [("pl", a, "q"), e]))
            if r0 < 0.5:
                v = self.fresh_var(env, "bool", in_loop_pre)
                if v:
                    env[v] = "bool"
                    return ("assign", [(v, "bool")], ("call", "measure", [e]))
            return ("expr", ("call", self.r.choice(["own", "discard", "measure"]), [e]))
        if self.profile == "places" and self.r.random() < 0.5:
            st = self.places_stmt(env, full, in_loop_pre)
            if st:
                return st
        r = self.r.random()
        if self.borrowed and self.r.random() < self.naughty * 0.4:   # assign a borrowed parameter
            n = self.r.choice(sorted(self.borrowed))
            e = self.value(env, full, env.get(n, "q"))
            self.fill(full, n, env.get(n, "q"))
            return ("assign", [(n, env.get(n, "q"))], e)
        if r < 0.22:      # borrow: gate or borrowing call
            ty = self.r.choice(["q", "q", "q", "s", "t", "arr"])
            f = {"q": self.r.choice(["h", "bor"]), "s": "bor_s", "t": "bor_t", "arr": "bor_arr"}[ty]
            if ty == "q" and self.r.random() < 0.3:
                a, b = self.place(env, full, "q", False), self.place(env, full, "q", False)
                if a and b and (a != b or self.r.random() < self.naughty + 0.02):
                    return ("expr", ("call", "cx", [("pl", a, "q"), ("pl", b, "q")]))
            if ty == "q" and self.r.random() < 0.1:
                a, b = self.place(env, full, "q", False), self.place(env, full, "q", True)
                if a and b and (a != b or self.r.random() < self.naughty + 0.02):
                    self.consume(full, b, "q")
                    return ("expr", ("call", "bor_own", [("pl", a, "q"), ("pl", b, "q")]))
            p = self.place(env, full, ty, False)
            if p:
                return ("expr", ("call", f, [("pl", p, ty)]))
            if self.r.random() < self.naughty:
                return ("expr", ("call", "h", [("new",)]))      # DropAfterCallError
        if r < 0.45:      # consume
            ty = self.r.choice(["q", "q", "q", "s", "t", "arr"])
            p = self.place(env, full, ty, True)
            if p:
                self.consume(full, p, ty)
                if ty == "q":
                    f = self.r.choice(["measure", "discard", "own"])
                    if f == "measure" and self.r.random() < 0.4:
                        v = self.fresh_var(env, "bool", in_loop_pre)
                        if v:
                            env[v] = "bool"
                            return ("assign", [(v, "bool")], ("call", "measure", [("pl", p, "q")]))
                    return ("expr", ("call", f, [("pl", p, "q")]))
                if ty == "t" and self.r.random() < 0.5:
                    a, b = self.fresh_var(env, "q", in_loop_pre), self.fresh_var(env, "q", in_loop_pre)
                    if a and b and a != b and (self.r.random() < self.naughty or (a not in full and b not in full)):
                        env[a] = env[b] = "q"
                        self.fill(full, a, "q"); self.fill(full, b, "q")
                        return ("assign", [(a, "q"), (b, "q")], ("pl", p, "t"))
                return ("expr", ("call", {"t": "own_t", "s": "own_s", "arr": "use_arr"}[ty], [("pl", p, ty)]))
        if r < 0.5 and self.r.random() < self.naughty + 0.01:
            return ("expr", ("new",))                            # UnnamedExprNotUsedError
        if r < 0.53 and not in_loop_pre:      # re-bind a (consumed) linear variable to a classical value
            vs = [n for n, t in env.items() if t == "q" and n not in self.borrowed
                  and (n not in full or self.r.random() < self.naughty)]
            if vs:
                v = self.r.choice(vs)
                full.discard(v)
                env[v] = "int"
                return ("assign", [(v, "int")], ("lit", str(self.r.randint(0, 9)), "int"))
        if r < 0.56:      # classical
            ty = self.r.choice(["int", "bool"])
            v = self.fresh_var(env, ty, in_loop_pre)
            if v:
                e = self.value(env, full, ty)
                self.kill_var(env, full, v)
                env[v] = ty
                return ("assign", [(v, ty)], e)
        if r < 0.64:      # struct field assignment
            ss = [n for n, t in env.items() if t == "s"]
            if ss:
                s = self.r.choice(ss)
                fld = self.r.choice(["a", "b"])
                if f"{s}.{fld}" not in full or self.r.random() < self.naughty:
                    e = self.value(env, full, "q")
                    full.add(f"{s}.{fld}")
                    return ("assign", [(f"{s}.{fld}", "q")], e)
        # assignment of a fresh / reassignment
        ty = self.r.choice(["q", "q", "q", "q", "t", "s", "arr"])
        v = self.fresh_var(env, ty, in_loop_pre)
        if not v:
            return ("pass",)
        # prefer a variable that is not currently holding something
        for _ in range(3):
            if v in env and any(l in full and k == "lin" for l, k in leaves_of(v, env[v])) \
                    and self.r.random() > self.naughty:
                v2 = self.fresh_var(env, ty, in_loop_pre)
                v = v2 or v
        e = self.value(env, full, ty)
        self.kill_var(env, full, v)
        env[v] = ty
        self.fill(full, v, ty)
        return ("assign", [(v, ty)], e)

    def places_stmt(self, env, full, in_loop_pre):
        """statements about struct fields and tuple elements"""
        r = self.r.random()
        structs = [n for n, t in env.items() if t == "s"]
        tuples = [n for n, t in env.items() if t == "t"]
        if r < 0.22:      # unpack a tuple
            a, b = self.fresh_var(env, "q", in_loop_pre), self.fresh_var(env, "q", in_loop_pre)
            if a and b and a != b and (self.r.random() < self.naughty or (a not in full and b not in full)):
                src = self.place(env, full, "t", True)
                if src:
                    self.consume(full, src, "t")
                    e = ("pl", src, "t")
                else:
                    e = ("call", "mk_t", [])
                self.kill_var(env, full, a); self.kill_var(env, full, b)
                env[a] = env[b] = "q"
                self.fill(full, a, "q"); self.fill(full, b, "q")
                return ("assign", [(a, "q"), (b, "q")], e)
        if r < 0.45 and structs:      # update a field in place: s.f = thru(s.f) / s.f = <other qubit>
            s = self.r.choice(structs)
            fld = f"{s}.{self.r.choice(['a', 'b'])}"
            if fld in full and self.r.random() > self.naughty:
                if self.r.random() < 0.5:
                    return ("assign", [(fld, "q")], ("call", "thru", [("pl", fld, "q")]))
                self.consume(full, fld, "q")
                return ("expr", ("call", self.r.choice(["own", "measure", "discard"]), [("pl", fld, "q")]))
            e = self.value(env, full, "q")
            full.add(fld)
            return ("assign", [(fld, "q")], e)
        if r < 0.6 and tuples:        # struct from tuple elements / element use
            tp = self.r.choice(tuples)
            v = self.fresh_var(env, "s", in_loop_pre)
            if v and f"{tp}[0]" in full and f"{tp}[1]" in full and v not in full:
                self.consume(full, tp, "t")
                self.kill_var(env, full, v)
                env[v] = "s"; self.fill(full, v, "s")
                return ("assign", [(v, "s")], ("call", "S", [("pl", f"{tp}[1]", "q"), ("pl", f"{tp}[0]", "q")]))
        if r < 0.75 and structs:      # tuple from struct fields
            s = self.r.choice(structs)
            v = self.fresh_var(env, "t", in_loop_pre)
            if v and f"{s}.a" in full and f"{s}.b" in full:
                self.consume(full, s, "s")
                self.kill_var(env, full, v)
                env[v] = "t"; self.fill(full, v, "t")
                return ("assign", [(v, "t")], ("tup", [("pl", f"{s}.b", "q"), ("pl", f"{s}.a", "q")]))
        if r < 0.9:                   # a new aggregate
            ty = self.r.choice(["s", "t"])
            v = self.fresh_var(env, ty, in_loop_pre)
            if v and not (v in env and any(l in full for l, _ in leaves_of(v, env[v]))):
                e = self.value(env, full, ty)
                self.kill_var(env, full, v)
                env[v] = ty; self.fill(full, v, ty)
                return ("assign", [(v, ty)], e)
        # borrow / cx on sub-places
        a, b = self.place(env, full, "q", False), self.place(env, full, "q", False)
        if a and b and a != b and ("." in a + b or "[" in a + b):
            return ("expr", ("call", "cx", [("pl", a, "q"), ("pl", b, "q")]))
        return None

    def kill_var(self, env, full, v):
        if v in env:
            for l, _ in leaves_of(v, env[v]):
                full.discard(l)

    def cleanup(self, env, full, ret):
        """consume what is still held, then return"""
        out = []
        rv = None
        if ret not in ("none",):
            if ret in ("q", "t", "s", "arr"):
                p = self.pick_full(env, full, ret, bor_ok=False) if self.r.random() > self.naughty else self.pick_any(env, ret)
                if p and self.r.random() < 0.7:
                    self.consume(full, p, ret)
                    rv = ("pl", p, ret)
                else:
                    rv = self.value(env, full, ret)
            elif ret == "tq":
                rv = ("tup", [self.value(env, full, "q"), self.value(env, full, "q")])
            else:
                rv = self.value(env, full, ret)
        for n, t in list(env.items()):
            if n in self.borrowed:
                # give sub-places back
                for l, k in leaves_of(n, t):
                    if k == "lin" and l not in full and t in ("s", "w") and self.r.random() > self.naughty:
                        out.append(("assign", [(l, "q")], ("new",)))
                        full.add(l)
                continue
            ls = [l for l, k in leaves_of(n, t) if k == "lin" and l in full]
            if not ls or self.r.random() < self.naughty:
                continue
            if len(ls) == len(leaves_of(n, t)) and t in ("t", "s", "w") and self.r.random() < 0.5:
                out.append(("expr", ("call", {"t": "own_t", "s": "own_s", "w": "own_w"}[t], [("pl", n, t)])))
            else:
                for l in ls:
                    out.append(("expr", ("call", self.r.choice(["discard", "own", "measure"]), [("pl", l, "q")])))
            for l in ls:
                full.discard(l)
        out.append(("return", rv))
        return out

    def borrowed_seq(self, env, full):
        """a leaf (or an intermediate field) of a BORROWED aggregate parameter is consumed / moved and
        then the enclosing place is used again in the same block -- lent, moved, returned as part of a
        value, field-projected -- with or without a refill in between"""
        aggs = [(n, env[n]) for n in sorted(self.borrowed) if env.get(n) in ("s", "t", "w")]
        if not aggs:
            return []
        n, ty = self.r.choice(aggs)
        out = []
        # 1. consume something inside
        if ty == "w" and self.r.random() < 0.35:
            inner, ity = f"{n}.inner", "s"
            if all(l in full for l, _ in leaves_of(inner, "s")):
                out.append(("expr", ("call", "own_s", [("pl", inner, "s")])))
                self.consume(full, inner, "s")
            taken = [l for l, _ in leaves_of(inner, "s")]
        else:
            ls = [l for l, _ in leaves_of(n, ty) if l in full]
            if not ls:
                return []
            l = self.r.choice(ls)
            k = self.r.random()
            if k < 0.6:
                out.append(("expr", ("call", self.r.choice(["own", "discard", "measure"]), [("pl", l, "q")])))
            elif k < 0.8:
                v = self.fresh_var(env, "q", {})
                if not v or v in full:
                    return []
                env[v] = "q"; full.add(v)
                out.append(("assign", [(v, "q")], ("pl", l, "q")))
            else:
                out.append(("expr", ("call", "own", [("call", "thru", [("pl", l, "q")])])))
            full.discard(l)
            taken = [l]
        # 2. refill, or not
        refill = self.r.random() < 0.5
        if refill and ty != "t":        # tuple elements cannot be assigned
            for l in taken:
                out.append(("assign", [(l, "q")], ("new",) if self.r.random() < 0.7 else ("call", "thru", [("new",)])))
                full.add(l)
        # 3. use the enclosing place again
        k = self.r.random()
        encl, ety = (n, ty)
        if ty == "w" and taken[0].startswith(f"{n}.inner") and self.r.random() < 0.5:
            encl, ety = f"{n}.inner", "s"
        bor_f = {"s": "bor_s", "t": "bor_t", "w": "bor_w"}[ety]
        own_f = {"s": "own_s", "t": "own_t", "w": "own_w"}[ety]
        if k < 0.6:
            out.append(("expr", ("call", bor_f, [("pl", encl, ety)])))
        elif k < 0.7:
            out.append(("expr", ("call", bor_f, [("pl", encl, ety)])))
            out.append(("expr", ("call", bor_f, [("pl", encl, ety)])))
        elif k < 0.8:
            out.append(("expr", ("call", own_f, [("pl", encl, ety)])))      # not owned (or a moved field)
            self.consume(full, encl, ety)
        elif k < 0.9:
            l2 = self.r.choice([l for l, _ in leaves_of(encl, ety)])
            out.append(("expr", ("call", self.r.choice(["h", "bor"]), [("pl", l2, "q")])))
        else:
            l2 = self.r.choice([l for l, _ in leaves_of(encl, ety)])
            out.append(("expr", ("call", "discard", [("pl", l2, "q")])))
            full.discard(l2)
        return out

    def block(self, env, full, depth, in_loop, in_loop_pre, ret):
        """returns (stmts, falls_through)"""
        out = []
        n = self.r.randint(1, max(1, self.size // (depth + 1)))
        for _ in range(n):
            if self.budget <= 0:
                break
            self.budget -= 1
            if self.r.random() < 0.07:
                seq = self.borrowed_seq(env, full)
                if seq:
                    out += seq
                    continue
            r = self.r.random()
            loopy = self.profile == "loops"
            if in_loop and self.r.random() < (0.16 if loopy else 0.04):
                # guarded early exit: the code after it stays reachable
                c = self.cond(env, full, allow_true=False)
                e1, f1 = dict(env), set(full)
                pre = [self.simple(e1, f1, in_loop_pre)] if self.r.random() < 0.4 else []
                out.append(("if", c, pre + [(self.r.choice(["break", "continue"]),)], []))
                continue
            if loopy and depth < 3 and r < 0.22:
                r = 0.2       # a loop
            if depth < 3 and r < 0.17:
                c = self.cond(env, full, allow_true=False)
                e1, f1 = dict(env), set(full)
                e2, f2 = dict(env), set(full)
                th, ft1 = self.block(e1, f1, depth + 1, in_loop, in_loop_pre, ret)
                el, ft2 = (self.block(e2, f2, depth + 1, in_loop, in_loop_pre, ret)
                           if self.r.random() < 0.5 else ([], True))
                out.append(("if", c, th, el))
                if not ft1 and not ft2:
                    return out, False
                if ft1 and ft2:
                    env_new = {k: v for k, v in e1.items() if e2.get(k) == v}
                    fnew = f1 & f2 if self.r.random() < 0.5 else f1 | f2
                elif ft1:
                    env_new, fnew = e1, f1
                else:
                    env_new, fnew = e2, f2
                env.clear(); env.update(env_new)
                full.clear(); full.update(fnew)
            elif depth < 3 and r < 0.27:
                c = self.cond(env, full, allow_true=True)
                e1, f1 = dict(env), set(full)
                body, _ = self.block(e1, f1, depth + 1, True, dict(env) if not in_loop else {**env, **in_loop_pre}, ret)
                out.append(("while", c, body))
                if c == ("true",) and not self.has_break(body):
                    return out, False
                if self.r.random() < 0.5:
                    full &= f1
            elif in_loop and r < 0.31:
                out.append((self.r.choice(["break", "continue"]),))
                return out, False
            elif r < 0.34 and depth > 0:
                out += self.cleanup(env, set(full), ret)
                return out, False
            else:
                out.append(self.simple(env, full, in_loop_pre))
        return out, True

    def has_break(self, ss):
        for s in ss:
            if s[0] == "break":
                return True
            if s[0] == "if" and (self.has_break(s[2]) or self.has_break(s[3])):
                return True
        return False

    def function(self, name):
        r = self.r
        params, env, full = [], {}, set()
        self.borrowed = set()
        if r.random() < 0.45:
            params.append(("p", "q", "bor"))
        if r.random() < 0.4:
            params.append(("o", "q", "own"))
        if r.random() < 0.25:
            params.append(("ps", "s", "bor"))
        if r.random() < 0.15:
            params.append(("os", "s", "own"))
        if r.random() < 0.12:
            params.append(("pt", "t", "bor"))
        if r.random() < 0.15:
            params.append(("pw", "w", "bor"))
        if r.random() < 0.05:
            params.append(("ow", "w", "own"))
        if r.random() < 0.1:
            params.append(("oa", "arr", "own"))
        params.append(("c", "bool", "own"))
        if r.random() < 0.5:
            params.append(("d", "bool", "own"))
        self.params = {n for n, _, _ in params}
        for n, t, m in params:
            env[n] = t
            self.fill(full, n, t)
            if m == "bor":
                self.borrowed.add(n)
        ret = r.choice(["none", "none", "none", "q", "q", "tq", "s", "int"])
        self.budget = self.size * 2
        body, ft = self.block(env, full, 0, False, {}, ret)
        if ft:
            body += self.cleanup(env, full, ret)
        return {"name": name, "params": params, "ret": ret, "body": body}


def gen_function(seed_rng, name):
    return Gen(seed_rng).function(name)


if __name__ == "__main__":
    import sys
    rng = random.Random(int(sys.argv[1]) if len(sys.argv) > 1 else 0)
    print(HEADER)
    for i in range(int(sys.argv[2]) if len(sys.argv) > 2 else 5):
        print(render(gen_function(rng, f"f{i}")))
