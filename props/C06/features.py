"""Construct features of a generated program (IR of gen_prog.py), for the coverage report."""


def _walk_expr(e, f):
    k = e[0]
    if k == "pl":
        n, ty = e[1], e[2]
        if "." in n:
            f.add("struct_field_use")
        if "[" in n:
            f.add("tuple_elem_use")
        if ty == "s":
            f.add("struct_whole_use")
        if ty == "t":
            f.add("tuple_whole_use")
        if ty == "arr":
            f.add("affine_array")
    elif k == "proj":
        inner = e[1]
        if inner[0] == "tup":
            f.add("proj_on_tuple_display")
        else:
            f.add("proj_on_call_" + ("classical_aggregate" if inner[1] in ("meas2", "peek2", "meas_b") else "qubit_aggregate"))
            if inner[1] == "peek2":
                f.add("proj_operand_borrows")
        if e[2].startswith("."):
            f.add("proj_field_of_unnamed_struct")
        if e[4]:
            f.add("proj_drops_linear_component")
        _walk_expr(inner, f)
    elif k == "ifx":
        f.add("cond_expr")
        if e[2][0] == "ifx" or e[3][0] == "ifx":
            f.add("cond_expr_nested")
        for x in e[1:]:
            _walk_expr(x, f)
    elif k == "tup":
        f.add("tuple_display")
        for x in e[1]:
            _walk_expr(x, f)
    elif k == "call":
        if e[1] == "S":
            f.add("struct_constructor")
        if e[1] in ("h", "cx", "bor", "bor_t", "bor_s", "bor_arr", "bor_own"):
            f.add("borrowing_call")
        if e[1] in ("measure", "discard", "own", "own_t", "own_s", "use_arr", "thru", "bor_own", "S"):
            f.add("owned_call")
        from gen_prog import SIGS
        for (m, _), a in zip(SIGS[e[1]][0], e[2]):
            if a[0] == "ifx":
                f.add("cond_expr_as_borrowed_arg" if m == "bor" else "cond_expr_as_owned_arg")
        if any(a[0] in ("call", "new", "tup") for a in e[2]):
            f.add("nested_call_argument")
        for x in e[2]:
            _walk_expr(x, f)


def _reads(e, mode, out):
    """(place name, mode) for every place read in e, in evaluation order"""
    from gen_prog import SIGS
    k = e[0]
    if k == "pl":
        out.append((e[1], mode))
    elif k == "tup":
        for x in e[1]:
            _reads(x, "move", out)
    elif k == "call":
        for (m, _), a in zip(SIGS[e[1]][0], e[2]):
            _reads(a, m if a[0] == "pl" else "move", out)
    elif k == "proj":
        _reads(e[1], "move", out)
    elif k == "ifx":
        for x in e[1:]:
            _reads(x, "move", out)


def _borrowed_reuse(ss, f, borrowed_aggs, loops):
    """straight-line runs: a sub-place of a borrowed aggregate is consumed and an enclosing place is read
    later in the same run (with / without a refill of the sub-place in between)"""
    taken = {}
    for s in ss:
        if s[0] in ("if", "while"):
            taken = {}
            continue
        e = s[2] if s[0] == "assign" else s[1] if s[0] in ("expr", "return") else None
        rd = []
        if e is not None:
            _reads(e, "move", rd)
        for name, mode in rd:
            root = name.split(".")[0].split("[")[0]
            if root not in borrowed_aggs:
                continue
            for sub, refilled in taken.items():
                if sub != name and (sub.startswith(name + ".") or sub.startswith(name + "[")):
                    kind = "refilled" if refilled else "not_refilled"
                    f.add(f"borrowed_agg_sub_place_consumed_then_enclosing_{'lent' if mode == 'bor' else 'moved'}_{kind}")
                    if loops:
                        f.add("borrowed_agg_consume_then_reuse_in_loop")
                    if name != root:
                        f.add("borrowed_agg_enclosing_is_intermediate_field")
            if name != root and mode != "bor":
                taken[name] = False
                f.add("borrowed_agg_sub_place_consumed")
        if s[0] == "assign":
            for n, _ in s[1]:
                for sub in taken:
                    if sub == n or sub.startswith(n + "."):
                        taken[sub] = True


def _walk(ss, f, loops, depth, types):
    _borrowed_reuse(ss, f, types.get("%borrowed_aggs", ()), loops)
    for s in ss:
        k = s[0]
        if depth >= 3:
            f.add("nesting_depth_ge_3")
        if k == "assign":
            if s[2][0] == "ifx":
                f.add("cond_expr_bound_to_name")
            _walk_expr(s[2], f)
            if len(s[1]) > 1:
                f.add("tuple_unpack")
            for n, ty in s[1]:
                if "." in n:
                    f.add("struct_field_assign")
                elif types.get(n, ty) != ty:
                    f.add("rebind_other_type")
                    if {types[n], ty} & {"q", "t", "s"} and {types[n], ty} & {"int", "bool"}:
                        f.add("rebind_linear_vs_classical")
                types[n] = ty
        elif k == "expr":
            _walk_expr(s[1], f)
        elif k == "return":
            f.add("return_in_loop" if loops else "return")
            if depth > 0:
                f.add("early_return")
            if s[1] is not None:
                if s[1][0] == "ifx" or (s[1][0] == "tup" and any(x[0] == "ifx" for x in s[1][1])):
                    f.add("cond_expr_returned")
                _walk_expr(s[1], f)
        elif k == "if":
            f.add("if")
            if s[3]:
                f.add("if_else")
            if s[1][0] == "call":
                f.add("measure_in_condition")
            _walk_expr(s[1], f)
            _walk(s[2], f, loops, depth + 1, types)
            _walk(s[3], f, loops, depth + 1, types)
        elif k == "while":
            f.add("while")
            if loops:
                f.add("nested_loop")
            if s[1] == ("true",):
                f.add("while_true")
            else:
                if s[1][0] == "call":
                    f.add("measure_in_condition")
                _walk_expr(s[1], f)
            _walk(s[2], f, loops + 1, depth + 1, types)
        elif k in ("break", "continue"):
            f.add(k)
            if loops >= 2:
                f.add(k + "_in_nested_loop")


def features(fn):
    f = set()
    types = {}
    for n, ty, m in fn["params"]:
        types[n] = ty
        if ty in ("q", "t", "s", "w", "arr"):
            f.add("borrowed_param" if m == "bor" else "owned_param")
            if ty in ("s", "t", "w") and m == "bor":
                f.add("borrowed_aggregate_param")
            if ty == "w":
                f.add("nested_struct_param")
    types["%borrowed_aggs"] = {n for n, ty, m in fn["params"] if m == "bor" and ty in ("s", "t", "w")}
    _walk(fn["body"], f, 0, 0, types)
    return f
