"""Construct features of a generated program (IR of gen_prog.py), for the coverage report."""


def _walk_expr(e, f):
    k = e[0]
    if k == "pl":
        n, ty = e[1], e[2]
        if "." in n:
            f.add("struct_field_use")
        if "[" in n:
            f.add("tuple_elem_use")
        if ty == "s":
            f.add("struct_whole_use")
        if ty == "t":
            f.add("tuple_whole_use")
        if ty == "arr":
            f.add("affine_array")
    elif k == "proj":
        inner = e[1]
        if inner[0] == "tup":
            f.add("proj_on_tuple_display")
        else:
            f.add("proj_on_call_" + ("classical_aggregate" if inner[1] in ("meas2", "peek2", "meas_b") else "qubit_aggregate"))
            if inner[1] == "peek2":
                f.add("proj_operand_borrows")
        if e[2].startswith("."):
            f.add("proj_field_of_unnamed_struct")
        if e[4]:
            f.add("proj_drops_linear_component")
        _walk_expr(inner, f)
    elif k == "ifx":
        f.add("cond_expr")
        if e[2][0] == "ifx" or e[3][0] == "ifx":
            f.add("cond_expr_nested")
        for x in e[1:]:
            _walk_expr(x, f)
    elif k == "tup":
        f.add("tuple_display")
        for x in e[1]:
            _walk_expr(x, f)
    elif k == "call":
        if e[1] == "S":
            f.add("struct_constructor")
        if e[1] in ("h", "cx", "bor", "bor_t", "bor_s", "bor_arr", "bor_own"):
            f.add("borrowing_call")
        if e[1] in ("measure", "discard", "own", "own_t", "own_s", "use_arr", "thru", "bor_own", "S"):
            f.add("owned_call")
        from gen_prog import SIGS
        for (m, _), a in zip(SIGS[e[1]][0], e[2]):
            if a[0] == "ifx":
                f.add("cond_expr_as_borrowed_arg" if m == "bor" else "cond_expr_as_owned_arg")
        if any(a[0] in ("call", "new", "tup") for a in e[2]):
            f.add("nested_call_argument")
        for x in e[2]:
            _walk_expr(x, f)


def _walk(ss, f, loops, depth, types):
    for s in ss:
        k = s[0]
        if depth >= 3:
            f.add("nesting_depth_ge_3")
        if k == "assign":
            if s[2][0] == "ifx":
                f.add("cond_expr_bound_to_name")
            _walk_expr(s[2], f)
            if len(s[1]) > 1:
                f.add("tuple_unpack")
            for n, ty in s[1]:
                if "." in n:
                    f.add("struct_field_assign")
                elif types.get(n, ty) != ty:
                    f.add("rebind_other_type")
                    if {types[n], ty} & {"q", "t", "s"} and {types[n], ty} & {"int", "bool"}:
                        f.add("rebind_linear_vs_classical")
                types[n] = ty
        elif k == "expr":
            _walk_expr(s[1], f)
        elif k == "return":
            f.add("return_in_loop" if loops else "return")
            if depth > 0:
                f.add("early_return")
            if s[1] is not None:
                if s[1][0] == "ifx" or (s[1][0] == "tup" and any(x[0] == "ifx" for x in s[1][1])):
                    f.add("cond_expr_returned")
                _walk_expr(s[1], f)
        elif k == "if":
            f.add("if")
            if s[3]:
                f.add("if_else")
            if s[1][0] == "call":
                f.add("measure_in_condition")
            _walk_expr(s[1], f)
            _walk(s[2], f, loops, depth + 1, types)
            _walk(s[3], f, loops, depth + 1, types)
        elif k == "while":
            f.add("while")
            if loops:
                f.add("nested_loop")
            if s[1] == ("true",):
                f.add("while_true")
            else:
                if s[1][0] == "call":
                    f.add("measure_in_condition")
                _walk_expr(s[1], f)
            _walk(s[2], f, loops + 1, depth + 1, types)
        elif k in ("break", "continue"):
            f.add(k)
            if loops >= 2:
                f.add(k + "_in_nested_loop")


def features(fn):
    f = set()
    types = {}
    for n, ty, m in fn["params"]:
        types[n] = ty
        if ty in ("q", "t", "s", "arr"):
            f.add("borrowed_param" if m == "bor" else "owned_param")
            if ty in ("s", "t") and m == "bor":
                f.add("borrowed_aggregate_param")
    _walk(fn["body"], f, 0, 0, types)
    return f
