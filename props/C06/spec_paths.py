"""Specification side of C06, independent of the compiler and of the Coq model: the token
discipline of DESIGN appendix A.3 interpreted directly on the generator's IR (gen_prog.py),
over ALL control-flow paths.

State = the set of non-copyable leaf places that currently hold a value (with their kind).
Because the discipline does not depend on data, the set of states reachable at a program
point is finite; loops are handled by iterating the set of states at the loop head to a
fixpoint, so every path with any number of iterations is covered (no unrolling bound).

Rules
* reading a place by MOVE / CONSUME (owned argument) / RETURN: every non-copyable leaf must be
  full (else "use-empty") and becomes empty; a borrowed parameter itself may not be read
  that way ("not-owned");
* a borrowed argument of a call must be full, is unavailable while the remaining arguments
  are evaluated, and is full again after the call; a non-place argument of linear type in a
  borrowed position is lost after the call ("dropped");
* assigning a place: a linear leaf that is still full is overwritten ("overwrite"); assigning
  a borrowed parameter itself is forbidden ("assign-borrowed");
* an expression statement whose value is linear loses it ("dropped");
* a projection `f(..)[k]` / `g(..).x` of an unnamed value evaluates the operand (its argument
  uses count) and drops the other components ("dropped" if one of them is linear);
* a conditional expression `a if c else b` evaluates c, then exactly one arm (two outcomes);
  its value is an unnamed value like a call result;
* at every return: every linear leaf is empty except the leaves of borrowed parameters, and
  every non-copyable leaf of a borrowed parameter is full ("leak" / "not-handed-back").
"""
from gen_prog import SIGS, leaves_of


class Violation(Exception):
    def __init__(self, kind, what):
        super().__init__(f"{kind}: {what}")
        self.kind, self.what = kind, what


def ty_of(e):
    k = e[0]
    if k == "new":
        return "q"
    if k in ("pl", "lit"):
        return e[2]
    if k == "tup":
        return "t"
    if k == "call":
        return SIGS[e[1]][1]
    if k == "true":
        return "bool"
    if k == "ifx":
        return ty_of(e[2])
    if k == "proj":
        return e[3]
    raise ValueError(e)


def linear_ty(t):
    return t in ("q", "t", "s", "w", "tqi")


class Spec:
    def __init__(self, fn):
        self.fn = fn
        self.borrowed = {n: t for n, t, m in fn["params"] if m == "bor" and t in ("q", "t", "s", "w", "arr")}
        self.violations = []
        self.complete_paths = 0

    # ---- expressions (single state) ---------------------------------------------------
    def read(self, st, name, ty, mode):
        if mode != "bor" and name in self.borrowed:
            raise Violation("not-owned", name)
        st = set(st)
        for l, k in leaves_of(name, ty):
            if k == "copy":
                continue
            if (l, k) not in st:
                raise Violation("use-empty", l)
            st.discard((l, k))
        return st

    def note(self, v):
        if len(self.violations) < 5:
            self.violations.append((v.kind, v.what))
        self.nviol = getattr(self, "nviol", 0) + 1

    def eval(self, sts, e, mode="move"):
        """evaluate e in every state of the list `sts`; returns the list of resulting states (a
        conditional expression yields one per arm); a violating state is recorded and dropped"""
        k = e[0]
        if k in ("new", "lit", "true"):
            return list(sts)
        if k == "pl":
            out = []
            for st in sts:
                try:
                    out.append(self.read(st, e[1], e[2], mode))
                except Violation as v:
                    self.note(v)
            return out
        if k == "tup":
            for x in e[1]:
                sts = self.eval(sts, x, "move")
            return sts
        if k == "proj":     # the operand is evaluated, one component kept, the others dropped
            sts = self.eval(sts, e[1], "move")
            if e[4] and sts:
                self.note(Violation("dropped", "linear component of a projected unnamed value"))
                return []
            return sts
        if k == "ifx":      # e1 if c else e2: the condition first, then exactly one arm
            sc = self.eval(sts, e[1], "move")
            return self.eval(sc, e[2], "move") + self.eval(sc, e[3], "move")
        if k == "call":
            sig = SIGS[e[1]][0]
            back = []
            for (m, _), a in zip(sig, e[2]):
                if a[0] == "pl":
                    sts = self.eval(sts, a, m)
                    if m == "bor":
                        back.append(a)
                else:
                    sts = self.eval(sts, a, "move")
                    if m == "bor" and linear_ty(ty_of(a)) and sts:
                        # the value has no owner after the call: silently discarded
                        self.note(Violation("dropped", "linear value passed to a borrowing parameter"))
                        sts = []
            out = []
            for st in sts:
                st = set(st)
                for a in back:
                    for l, kk in leaves_of(a[1], a[2]):
                        if kk != "copy":
                            st.add((l, kk))
                out.append(st)
            return out
        raise ValueError(e)

    def assign(self, st, name, ty):
        """assignment of a variable, a field or an intermediate field (`pw.inner`): everything the
        place held is overwritten"""
        st = set(st)
        if name in self.borrowed:
            raise Violation("assign-borrowed", name)
        for (l, k) in list(st):
            if l == name or l.startswith(name + ".") or l.startswith(name + "["):
                if k == "lin":
                    raise Violation("overwrite", l)
                st.discard((l, k))
        for l, k in leaves_of(name, ty):
            if k != "copy":
                st.add((l, k))
        return st

    def at_return(self, st):
        bl = set()
        for n, t in self.borrowed.items():
            for l, k in leaves_of(n, t):
                if k != "copy":
                    bl.add((l, k))
        for (l, k) in st:
            if k == "lin" and (l, k) not in bl:
                raise Violation("leak", l)
        for (l, k) in bl:
            if (l, k) not in st:
                raise Violation("not-handed-back", l)
        self.complete_paths += 1

    # ---- statements (sets of states) ----------------------------------------------------
    def guard(self, states, f):
        """f: state -> list of states (may raise Violation)"""
        out = set()
        for st in states:
            try:
                for r in f(st):
                    out.add(frozenset(r))
            except Violation as v:
                self.note(v)
        return out

    def stmts(self, ss, states):
        """returns (normal, brk, cont)"""
        brk, cont = set(), set()
        for s in ss:
            if not states:
                break
            k = s[0]
            if k == "assign":
                def f(st, s=s):
                    out = []
                    for st2 in self.eval([st], s[2], "move"):
                        try:
                            for n, t in s[1]:
                                st2 = self.assign(st2, n, t)
                            out.append(st2)
                        except Violation as v:
                            self.note(v)
                    return out
                states = self.guard(states, f)
            elif k == "expr":
                def f(st, s=s):
                    sts = self.eval([st], s[1], "move")
                    if linear_ty(ty_of(s[1])) and sts:
                        raise Violation("dropped", "value of an expression statement")
                    return sts
                states = self.guard(states, f)
            elif k == "return":
                def f(st, s=s):
                    sts = [st]
                    if s[1] is not None:
                        if s[1][0] == "tup":
                            for x in s[1][1]:
                                sts = self.eval(sts, x, "ret" if x[0] == "pl" else "move")
                        else:
                            sts = self.eval(sts, s[1], "ret")
                    for st2 in sts:
                        try:
                            self.at_return(st2)
                        except Violation as v:
                            self.note(v)
                    return []
                self.guard(states, f)
                states = set()
            elif k == "if":
                c = self.guard(states, lambda st, s=s: self.eval([st], s[1], "move"))
                n1, b1, c1 = self.stmts(s[2], set(c))
                n2, b2, c2 = self.stmts(s[3], set(c))
                states = n1 | n2
                brk |= b1 | b2
                cont |= c1 | c2
            elif k == "while":
                head, seen, exits = set(states), set(), set()
                while head - seen:
                    new = head - seen
                    seen |= new
                    if s[1] == ("true",):
                        c = new
                    else:
                        c = self.guard(new, lambda st, s=s: self.eval([st], s[1], "move"))
                        exits |= c
                    n1, b1, c1 = self.stmts(s[2], set(c))
                    exits |= b1
                    head = head | n1 | c1
                states = exits
            elif k == "break":
                brk |= states
                states = set()
            elif k == "continue":
                cont |= states
                states = set()
            elif k == "pass":
                pass
            else:
                raise ValueError(s)
        return states, brk, cont

    def run(self):
        st = set()
        for n, t, m in self.fn["params"]:
            for l, k in leaves_of(n, t):
                if k != "copy":
                    st.add((l, k))
        normal, brk, cont = self.stmts(self.fn["body"], {frozenset(st)})
        # falling off the end = implicit `return`
        self.guard(normal, lambda s: self.at_return(s) or [])
        return {"ok": not self.violations, "violations": self.violations,
                "complete_paths": self.complete_paths}


def has_while_true(ss):
    for s in ss:
        if s[0] == "while" and (s[1] == ("true",) or has_while_true(s[2])):
            return True
        if s[0] == "if" and (has_while_true(s[2]) or has_while_true(s[3])):
            return True
    return False


def check(fn):
    r = Spec(fn).run()
    r["while_true"] = has_while_true(fn["body"])
    return r
