"""C20 translator: read the quantum standard library of the tree under test and regenerate
coq/C20/GenGates.v (tables for V.C20.Model).

Sources read (all through ctx paths):
  guppylang/std/quantum/__init__.py, std/quantum/functional.py, std/qsystem/__init__.py,
  std/qsystem/functional.py, std/angles.py                               -> function table
  guppylang_internals/std/_internal/compiler/quantum.py                  -> compiler wiring
  guppylang_internals/definition/custom.py (OpCompiler)                  -> compiler wiring
  guppylang_internals/std/_internal/util.py (quantum_op default ext)     -> default extension

Fail-closed: any decorator, statement or expression shape that is not listed here raises
TranslatorError.  The same statement/expression translator is used for the test programs the
check generates (so the programs compiled by /repo and the terms run by the model come from
one text)."""
from __future__ import annotations

import ast
import re
from pathlib import Path

from vlib import TranslatorError

EXT_NAMES = {"QUANTUM_EXTENSION": "tket.quantum", "QSYSTEM_EXTENSION": "tket.qsystem"}

MODULE_FILES = [  # (model module id, kind, relative path)
    ("quantum", "pub", "std/quantum/__init__.py"),
    ("quantum.functional", "pub", "std/quantum/functional.py"),
    ("qsystem", "pub", "std/qsystem/__init__.py"),
    ("qsystem.functional", "pub", "std/qsystem/functional.py"),
    ("angles", "pub", "std/angles.py"),
]
PY_MODULE = {"guppylang.std.quantum": "quantum", "guppylang.std.qsystem": "qsystem",
             "guppylang.std.quantum.functional": "quantum.functional",
             "guppylang.std.qsystem.functional": "qsystem.functional",
             "guppylang.std.angles": "angles"}


def fail(node, msg):
    src = ast.unparse(node) if isinstance(node, ast.AST) else str(node)
    raise TranslatorError(f"C20 tr_gates: {msg}: `{src[:160]}`")


def cstr(s: str) -> str:
    if '"' in s:
        s = s.replace('"', '""')
    return f'"{s}"'


def cfloat(v: float) -> str:
    v = float(v)
    if v != v or v in (float("inf"), float("-inf")):
        raise TranslatorError("non-finite float literal")
    h = v.hex()
    return f"({h})%float" if not h.startswith("-") else f"({h})%float"


def clist(items) -> str:
    return "[" + "; ".join(items) + "]"


# ------------------------------------------------------------------------------- types
def tr_type(node) -> tuple[str, bool]:
    """annotation -> (Coq ty, owned?)"""
    if node is None:
        return "TNone", False
    if isinstance(node, ast.Constant) and isinstance(node.value, str):
        node = ast.parse(node.value, mode="eval").body
    if isinstance(node, ast.BinOp) and isinstance(node.op, ast.MatMult):
        if ast.unparse(node.right) != "owned":
            fail(node, "unknown type flag")
        t, _ = tr_type(node.left)
        return t, True
    s = ast.unparse(node)
    simple = {"qubit": "TQubit", "angle": "TAngle", "float": "TFloat", "bool": "TBool", "None": "TNone",
              "int": "TInt", "Option[qubit]": "TOptQubit", "Option[bool]": 'TStruct "Option[bool]"',
              "Future[int]": "TFuture", "array[qubit, N]": "TArrQubit", "array[bool, N]": "TArrBool",
              "MaybeLeaked": 'TStruct "MaybeLeaked"'}
    if s in simple:
        return simple[s], False
    if isinstance(node, ast.Subscript) and ast.unparse(node.value) == "tuple":
        elts = node.slice.elts if isinstance(node.slice, ast.Tuple) else [node.slice]
        return "TTuple " + clist(tr_type(e)[0] for e in elts), False
    fail(node, "unknown type annotation")


PYTY = {"TQubit": "qubit", "TAngle": "angle", "TFloat": "float", "TBool": "bool", "TArrQubit": "array"}


# ------------------------------------------------------------------------------- Guppy fragment
class BodyTr:
    """Statement / expression translator for the Guppy fragment of Model.v."""

    def __init__(self, this_module: str, local_fns: set[str], aliases: dict[str, str],
                 imported: dict[str, str], var_types: dict[str, str], has_pi: bool, in_class: str | None = None):
        self.m, self.local, self.aliases, self.imported = this_module, local_fns, aliases, imported
        self.vt, self.has_pi, self.cls = dict(var_types), has_pi, in_class

    def expr(self, e) -> str:
        if isinstance(e, ast.Name):
            if e.id == "pi" and self.has_pi and "pi" not in self.vt:
                return "EPi"
            return f"(EVar {cstr(e.id)})"
        if isinstance(e, ast.Constant) and type(e.value) in (int, float):
            if type(e.value) is int and abs(e.value) > 2 ** 53:
                fail(e, "integer literal not exactly representable")
            return f"(ENum {cfloat(e.value)})"
        if isinstance(e, ast.UnaryOp) and isinstance(e.op, ast.USub):
            return f"(ENeg {self.expr(e.operand)})"
        if isinstance(e, ast.BinOp):
            ops = {ast.Add: "OpAdd", ast.Sub: "OpSub", ast.Mult: "OpMul", ast.Div: "OpDiv"}
            if type(e.op) not in ops:
                fail(e, "unsupported binary operator")
            return f"(EBin {ops[type(e.op)]} {self.expr(e.left)} {self.expr(e.right)})"
        if isinstance(e, ast.Compare) and len(e.ops) == 1 and isinstance(e.ops[0], ast.Eq):
            return f"(EEq {self.expr(e.left)} {self.expr(e.comparators[0])})"
        if isinstance(e, ast.Attribute) and e.attr == "halfturns":
            return f"(EField {self.expr(e.value)} {cstr('halfturns')})"
        if isinstance(e, ast.Tuple):
            return "(ETuple " + clist(self.expr(x) for x in e.elts) + ")"
        if isinstance(e, ast.Call):
            if e.keywords:
                fail(e, "keyword arguments")
            f = e.func
            if isinstance(f, ast.Name):
                if f.id == "float" and len(e.args) == 1:
                    return f"(EFloatOf {self.expr(e.args[0])})"
                if f.id == "angle" and len(e.args) == 1:
                    return f"(EMkAngle {self.expr(e.args[0])})"
                if f.id == "py" and len(e.args) == 1 and ast.unparse(e.args[0]) == "math.pi":
                    return "EMathPi"
                if f.id == "array" and len(e.args) == 1 and isinstance(e.args[0], ast.GeneratorExp):
                    g = e.args[0]
                    if (len(g.generators) == 1 and not g.generators[0].ifs and isinstance(g.generators[0].target, ast.Name)
                            and isinstance(g.generators[0].iter, ast.Name) and isinstance(g.elt, ast.Call)
                            and len(g.elt.args) == 1 and isinstance(g.elt.args[0], ast.Name)
                            and g.elt.args[0].id == g.generators[0].target.id):
                        m, fn = self.resolve(g.elt.func)
                        return f"(EMapArr {cstr(m)} {cstr(fn)} {cstr(g.generators[0].iter.id)})"
                    fail(e, "unsupported comprehension")
                if f.id == "qubit" and not e.args:
                    return f"(ECall {cstr('quantum')} {cstr('qubit.__new__')} [])"
                if f.id == "MaybeLeaked":
                    return f"(EStruct {cstr(f.id)} " + clist(self.expr(a) for a in e.args) + ")"
            if isinstance(f, ast.Attribute) and isinstance(f.value, ast.Name) and f.value.id in self.vt \
                    and f.value.id not in self.aliases:
                if self.vt[f.value.id] != "TQubit":
                    fail(e, "method call on a non-qubit")
                return f"(ECall {cstr('quantum')} {cstr('qubit.' + f.attr)} " + \
                    clist([self.expr(f.value)] + [self.expr(a) for a in e.args]) + ")"
            m, fn = self.resolve(f)
            return f"(ECall {cstr(m)} {cstr(fn)} " + clist(self.expr(a) for a in e.args) + ")"
        fail(e, "unsupported expression")

    def resolve(self, f) -> tuple[str, str]:
        if isinstance(f, ast.Name):
            if f.id in self.local:
                return self.m, f.id
            if f.id in self.imported:
                return self.imported[f.id], f.id
            fail(f, "call of an unknown name")
        if isinstance(f, ast.Attribute) and isinstance(f.value, ast.Name) and f.value.id in self.aliases:
            return self.aliases[f.value.id], f.attr
        fail(f, "unsupported callee")

    def stmts(self, body) -> str:
        out = []
        for s in body:
            if isinstance(s, ast.Expr) and isinstance(s.value, ast.Constant) and isinstance(s.value.value, str):
                continue
            if isinstance(s, ast.Expr):
                out.append(f"SExpr {self.expr(s.value)}")
            elif isinstance(s, ast.Assign) and len(s.targets) == 1 and isinstance(s.targets[0], ast.Name):
                out.append(f"SAssign {cstr(s.targets[0].id)} {self.expr(s.value)}")
                self.vt.setdefault(s.targets[0].id, "?")
            elif isinstance(s, ast.Return) and s.value is not None:
                out.append(f"SReturn {self.expr(s.value)}")
            elif isinstance(s, ast.For) and isinstance(s.target, ast.Name) and isinstance(s.iter, ast.Name) and not s.orelse:
                self.vt.setdefault(s.target.id, "?")
                out.append(f"SFor {cstr(s.target.id)} {cstr(s.iter.id)} {self.stmts(s.body)}")
            elif isinstance(s, ast.Pass):
                continue
            else:
                fail(s, "unsupported statement")
        return clist(out)


# ------------------------------------------------------------------------------- docstrings
def doc_info(fn: ast.FunctionDef) -> tuple[str, dict]:
    doc = ast.get_docstring(fn, clean=True) or ""
    m = re.search(r"\\mathrm\{(\w+)\}(\^\\dagger)?", doc)
    mathrm = f"(Some ({cstr(m.group(1))}, {'true' if m.group(2) else 'false'}))" if m else "None"
    o = re.search(r"Qubit ordering:\s*\[([^\]]*)\]", doc)
    names = [x for x in re.split(r"[,\s]+", o.group(1).strip()) if x] if o else None
    order = "(Some " + clist(cstr(x) for x in names) + ")" if names is not None else "None"
    first = doc.strip().split("\n")[0] if doc.strip() else ""
    first = re.sub(r"[^A-Za-z0-9 _.,()\-|:`]", "?", first)[:80]
    return f"(mkDoc {mathrm} {order} {cstr(first)})", {
        "mathrm": (m.group(1), bool(m.group(2))) if m else None, "order": names, "first": first}


# ------------------------------------------------------------------------------- decorators
def dec_name(d) -> str:
    return ast.unparse(d.func) if isinstance(d, ast.Call) else ast.unparse(d)


def quantum_op_call(node, default_ext) -> tuple[str, str]:
    """quantum_op("Name"[, ext=EXT]) -> (ext, name)"""
    if not (isinstance(node, ast.Call) and ast.unparse(node.func) == "quantum_op" and node.args
            and isinstance(node.args[0], ast.Constant) and isinstance(node.args[0].value, str)):
        fail(node, "expected quantum_op(\"Name\", ...)")
    ext = default_ext
    extra = list(node.args[1:]) + [k.value for k in node.keywords if k.arg == "ext"]
    if [k for k in node.keywords if k.arg != "ext"] or len(extra) > 1:
        fail(node, "unexpected quantum_op arguments")
    if extra:
        n = ast.unparse(extra[0])
        if n not in EXT_NAMES:
            fail(node, "unknown extension")
        ext = EXT_NAMES[n]
    return ext, node.args[0].value


def compiler_defaults(cls: ast.ClassDef) -> tuple[str | None, str | None]:
    """read `self.opname = opname or "X"` / `self.ext = ext or EXT` from __init__"""
    opn = ext = None
    for n in cls.body:
        if isinstance(n, ast.FunctionDef) and n.name == "__init__":
            for s in n.body:
                if isinstance(s, ast.Assign) and ast.unparse(s.targets[0]) == "self.opname":
                    v = s.value
                    if isinstance(v, ast.BoolOp) and isinstance(v.op, ast.Or) and isinstance(v.values[1], ast.Constant):
                        opn = v.values[1].value
                    elif ast.unparse(v) == "opname":
                        opn = None
                    else:
                        fail(s, "opname initialisation")
                if isinstance(s, ast.Assign) and ast.unparse(s.targets[0]) == "self.ext":
                    v = s.value
                    if isinstance(v, ast.BoolOp) and isinstance(v.op, ast.Or) and ast.unparse(v.values[1]) in EXT_NAMES:
                        ext = EXT_NAMES[ast.unparse(v.values[1])]
                    else:
                        fail(s, "ext initialisation")
    return opn, ext


# ------------------------------------------------------------------------------- compiler wiring
HTY = {"ht.Qubit": "HQubit", "ht.Bool": "HBool", "OpaqueBool": "HOpaqueBool", "ROTATION_T": "HRotation",
       "FLOAT_T": "HFloat"}


def tr_row(node) -> str:
    """[ht.Qubit, ht.Bool] | [ht.Qubit for _ in qs] + [ROTATION_T]"""
    if isinstance(node, ast.BinOp) and isinstance(node.op, ast.Add):
        a, b = tr_row(node.left), tr_row(node.right)
        return a[:-1] + ("; " if a != "[]" and b != "[]" else "") + b[1:]
    if isinstance(node, ast.List):
        items = []
        for e in node.elts:
            s = ast.unparse(e)
            if s not in HTY:
                fail(e, "unknown HUGR type in a compiler")
            items.append(f"ROne {HTY[s]}")
        return clist(items)
    if isinstance(node, ast.ListComp) and len(node.generators) == 1 and isinstance(node.generators[0].iter, ast.Name) \
            and not node.generators[0].ifs and ast.unparse(node.elt) in HTY:
        return clist([f"RRepeat {HTY[ast.unparse(node.elt)]} {cstr(node.generators[0].iter.id)}"])
    fail(node, "unknown type row in a compiler")


def tr_wexps(nodes) -> str:
    out = []
    for a in nodes:
        if isinstance(a, ast.Starred) and isinstance(a.value, ast.Name):
            out.append(f"WStar {cstr(a.value.id)}")
        elif isinstance(a, ast.Name):
            out.append(f"WVar {cstr(a.id)}")
        else:
            fail(a, "unsupported operand in add_op")
    return clist(out)


def tr_pat(t) -> str:
    if isinstance(t, ast.Name):
        return f"(PWhole {cstr(t.id)})"
    if isinstance(t, (ast.List, ast.Tuple)):
        items = []
        for e in t.elts:
            if isinstance(e, ast.Starred) and isinstance(e.value, ast.Name):
                items.append(f"(true, {cstr(e.value.id)})")
            elif isinstance(e, ast.Name):
                items.append(f"(false, {cstr(e.id)})")
            else:
                fail(t, "unsupported pattern")
        return f"(PBracket {clist(items)})"
    fail(t, "unsupported pattern")


def tr_wsel(node) -> str:
    if isinstance(node, ast.List):
        return f"(WList {tr_wexps(node.elts)})"
    if isinstance(node, ast.Call) and ast.unparse(node.func) == "list" and len(node.args) == 1:
        a = node.args[0]
        if isinstance(a, ast.Name):
            return f"(WAll {cstr(a.id)})"
        if isinstance(a, ast.Subscript) and isinstance(a.value, ast.Name) and isinstance(a.slice, ast.Slice) and a.slice.step is None:
            lo, hi = a.slice.lower, a.slice.upper
            if lo is None and hi is not None and ast.unparse(hi) == "num_returns":
                return f"(WTake {cstr(a.value.id)})"
            if hi is None and lo is not None and ast.unparse(lo) == "num_returns":
                return f"(WDrop {cstr(a.value.id)})"
    fail(node, "unsupported return selection")


NUM_RETURNS_SRC = "len(type_to_row(self.func.ty.output)) if self.func else len(self.ty.output)"


def tr_compiler(cls: ast.ClassDef, mod: ast.Module, default_ext: str, halfturn_ops: dict[str, str]) -> str:
    fn = next((n for n in cls.body if isinstance(n, ast.FunctionDef) and n.name == "compile_with_inouts"), None)
    if fn is None or [a.arg for a in fn.args.args] != ["self", "args"]:
        fail(cls, "compile_with_inouts(self, args) not found")
    out = []
    self_op_names = set()
    for s in fn.body:
        if isinstance(s, ast.ImportFrom) and [a.name for a in s.names] == ["quantum_op"]:
            continue
        if isinstance(s, ast.Expr) and isinstance(s.value, ast.Constant):
            continue
        if isinstance(s, ast.Assign) and len(s.targets) == 1:
            t, v = s.targets[0], s.value
            if isinstance(v, ast.Name) and v.id == "args":
                out.append(f"WUnpack {tr_pat(t)} {cstr('args')}")
                continue
            if isinstance(t, ast.Name) and ast.unparse(v) == "self.op(self.ty, self.type_args, self.ctx)":
                self_op_names.add(t.id)
                continue
            if isinstance(t, ast.Name) and t.id == "num_returns":
                if ast.unparse(v) != NUM_RETURNS_SRC:
                    fail(s, "num_returns is no longer the length of the declared return row")
                continue
            if isinstance(v, ast.Call) and ast.unparse(v.func) == "self.builder.add_op" and v.args and not v.keywords:
                opn, ins = v.args[0], v.args[1:]
                if isinstance(opn, ast.Name) and opn.id in self_op_names:
                    op = "OSelfOp"
                elif ast.unparse(opn) == "ops.UnpackTuple([FLOAT_T])":
                    op = "OUnpackTuple1"
                elif ast.unparse(opn) == "make_opaque()":
                    op = "OMakeOpaque"
                elif isinstance(opn, ast.Call) and isinstance(opn.func, ast.Name) and opn.func.id in halfturn_ops and not opn.args:
                    op = f"(OFromHalfturns {cstr(halfturn_ops[opn.func.id])})"
                elif isinstance(opn, ast.Call) and isinstance(opn.func, ast.Call) and ast.unparse(opn.func.func) == "quantum_op":
                    q = opn.func
                    qa = [ast.unparse(a) for a in q.args] + [f"{k.arg}={ast.unparse(k.value)}" for k in q.keywords]
                    if qa not in (["self.opname"], ["self.opname", "ext=self.ext"]):
                        fail(s, "quantum_op must be built from self.opname / self.ext")
                    if len(opn.args) != 3 or ast.unparse(opn.args[1]) != "[]" or ast.unparse(opn.args[2]) != "self.ctx":
                        fail(s, "unexpected op instantiation")
                    ft = opn.args[0]
                    if not (isinstance(ft, ast.Call) and ast.unparse(ft.func) == "ht.FunctionType" and len(ft.args) == 2):
                        fail(s, "expected ht.FunctionType(ins, outs)")
                    op = f"(OQuantum {tr_row(ft.args[0])} {tr_row(ft.args[1])})"
                else:
                    fail(s, "unknown op in add_op")
                out.append(f"WAddOp {tr_pat(t)} {op} {tr_wexps(ins)}")
                continue
        if isinstance(s, ast.Return) and isinstance(s.value, ast.Call) and ast.unparse(s.value.func) == "CallReturnWires":
            kw = {k.arg: k.value for k in s.value.keywords}
            pos = list(s.value.args)
            reg = kw.get("regular_returns", pos[0] if pos else None)
            io = kw.get("inout_returns", pos[1] if len(pos) > 1 else None)
            if reg is None or io is None:
                fail(s, "CallReturnWires needs regular and inout returns")
            out.append(f"WReturn {tr_wsel(reg)} {tr_wsel(io)}")
            continue
        fail(s, f"unsupported statement in {cls.name}.compile_with_inouts")
    return f"mkCompiler {cstr(cls.name)} {clist(out)}"


# the wiring of the four compilers as of guppylang 0.21.6, in the IR of Model.v.  Used ONLY when a compiler
# body can no longer be translated: the check then still has an executable statement of the expected
# behaviour to search for a concrete failing program (the translator failure is reported as well).
FALLBACK_COMPILERS = {'InoutMeasureCompiler': 'mkCompiler "InoutMeasureCompiler" [WUnpack (PBracket [(false, "q")]) "args"; WAddOp (PBracket [(false, "q"); (false, "bit")]) (OQuantum [ROne HQubit] [ROne HQubit; ROne HBool]) [WVar "q"]; WAddOp (PWhole "bit") OMakeOpaque [WVar "bit"]; WReturn (WList [WVar "bit"]) (WList [WVar "q"])]', 'InoutMeasureResetCompiler': 'mkCompiler "InoutMeasureResetCompiler" [WUnpack (PBracket [(false, "q")]) "args"; WAddOp (PBracket [(false, "q"); (false, "bit")]) (OQuantum [ROne HQubit] [ROne HQubit; ROne HOpaqueBool]) [WVar "q"]; WReturn (WList [WVar "bit"]) (WList [WVar "q"])]', 'RotationCompiler': 'mkCompiler "RotationCompiler" [WUnpack (PBracket [(true, "qs"); (false, "angle")]) "args"; WAddOp (PBracket [(false, "halfturns")]) OUnpackTuple1 [WVar "angle"]; WAddOp (PBracket [(false, "rotation")]) (OFromHalfturns "from_halfturns_unchecked") [WVar "halfturns"]; WAddOp (PWhole "qs") (OQuantum [RRepeat HQubit "qs"; ROne HRotation] [RRepeat HQubit "qs"]) [WStar "qs"; WVar "rotation"]; WReturn (WList []) (WAll "qs")]', 'OpCompiler': 'mkCompiler "OpCompiler" [WAddOp (PWhole "node") OSelfOp [WStar "args"]; WReturn (WTake "node") (WDrop "node")]'}


# ------------------------------------------------------------------------------- modules
def translate(ctx, errors: list | None = None) -> tuple[str, dict]:
    util = ast.parse(ctx.int_src("std/_internal/util.py").read_text())
    qop = next((n for n in util.body if isinstance(n, ast.FunctionDef) and n.name == "quantum_op"), None)
    if qop is None or [a.arg for a in qop.args.args] != ["op_name", "ext"] or len(qop.args.defaults) != 1 \
            or ast.unparse(qop.args.defaults[0]) not in EXT_NAMES:
        raise TranslatorError("util.quantum_op signature changed")
    default_ext = EXT_NAMES[ast.unparse(qop.args.defaults[0])]
    # quantum_op must build ExtOp(ext.get_op(op_name), ty, args=[])
    qsrc = ast.unparse(qop)
    if "op_def = ext.get_op(op_name)" not in qsrc or "return ops.ExtOp(op_def, ty, args=[])" not in qsrc:
        raise TranslatorError("util.quantum_op body changed")

    cq = ast.parse(ctx.int_src("std/_internal/compiler/quantum.py").read_text())
    halfturn_ops = {}
    for n in cq.body:
        if isinstance(n, ast.FunctionDef) and not n.args.args and len(n.body) == 1 and isinstance(n.body[0], ast.Return):
            m = re.fullmatch(r"ops\.ExtOp\(ROTATION_EXTENSION\.get_op\('(\w+)'\), ht\.FunctionType\(\[FLOAT_T\], \[ROTATION_T\]\)\)",
                             ast.unparse(n.body[0].value))
            if m:
                halfturn_ops[n.name] = m.group(1)
    compilers, comp_defaults = [], {}
    custom = ast.parse(ctx.int_src("definition/custom.py").read_text())
    for mod, names in ((cq, ["InoutMeasureCompiler", "InoutMeasureResetCompiler", "RotationCompiler"]), (custom, ["OpCompiler"])):
        for nm in names:
            cls = next((n for n in mod.body if isinstance(n, ast.ClassDef) and n.name == nm), None)
            if cls is None:
                raise TranslatorError(f"compiler class {nm} not found")
            try:
                compilers.append(tr_compiler(cls, mod, default_ext, halfturn_ops))
            except TranslatorError as e:
                if errors is None:
                    raise
                errors.append(str(e))
                compilers.append(FALLBACK_COMPILERS[nm])
            comp_defaults[nm] = compiler_defaults(cls)

    fns_coq, fns_py = [], []
    pi_halfturns = None
    for mid, _kind, rel in MODULE_FILES:
        tree = ast.parse(ctx.pub_src(rel).read_text())
        aliases, imported = {}, {}
        local = {n.name for n in tree.body if isinstance(n, ast.FunctionDef)}
        for n in tree.body:
            if isinstance(n, ast.Import):
                for a in n.names:
                    if a.name in PY_MODULE and a.asname:
                        aliases[a.asname] = PY_MODULE[a.name]
            elif isinstance(n, ast.ImportFrom) and n.module:
                for a in n.names:
                    full = f"{n.module}.{a.name}"
                    if full in PY_MODULE:
                        aliases[a.asname or a.name] = PY_MODULE[full]
                    elif n.module in PY_MODULE:
                        imported[a.asname or a.name] = PY_MODULE[n.module]
        has_pi = imported.get("pi") == "angles"
        if mid == "angles":
            for n in tree.body:
                if isinstance(n, ast.AnnAssign) and isinstance(n.target, ast.Name) and n.target.id == "pi":
                    m = re.fullmatch(r"guppy\.constant\('pi', ty='angle', value=hv\.Tuple\(FloatVal\(([0-9.eE+-]+)\)\)\)",
                                     ast.unparse(n.value))
                    if not m:
                        raise TranslatorError("angles.pi definition changed")
                    pi_halfturns = float(m.group(1))

        def do_fn(fn: ast.FunctionDef, cls: str | None):
            name = f"{cls}.{fn.name}" if cls else fn.name
            decs = [d for d in fn.decorator_list if dec_name(d) != "no_type_check"]
            if len(decs) != 1:
                fail(fn, f"{mid}.{name}: expected exactly one binding decorator")
            d = decs[0]
            a = fn.args
            if a.vararg or a.kwarg or a.kwonlyargs or a.defaults or a.posonlyargs:
                fail(fn, "unsupported parameter list")
            params = []
            for p in a.args:
                t, owned = tr_type(p.annotation)
                params.append((p.arg, t, owned))
            ret, _ = tr_type(fn.returns)
            unitary = False
            dn = dec_name(d)
            body_stmts = [s for s in fn.body if not (isinstance(s, ast.Expr) and isinstance(s.value, ast.Constant))]
            if dn in ("hugr_op", "custom_function"):
                if any(not (isinstance(s, ast.Expr) and isinstance(s.value, ast.Constant)) for s in fn.body):
                    fail(fn, "op-bound function with a body")
                for k in d.keywords:
                    if k.arg == "unitary_flags":
                        if ast.unparse(k.value) != "UnitaryFlags.Unitary":
                            fail(d, "unknown unitary flag")
                        unitary = True
                    else:
                        fail(d, "unknown decorator keyword")
                if len(d.args) != 1:
                    fail(d, "decorator arguments")
                if dn == "hugr_op":
                    ext, opn = quantum_op_call(d.args[0], default_ext)
                    bind = f"BCustom {cstr('OpCompiler')} {cstr(ext)} {cstr(opn)}"
                    pyb = {"kind": "custom", "compiler": "OpCompiler", "ext": ext, "op": opn}
                else:
                    c = d.args[0]
                    if not (isinstance(c, ast.Call) and isinstance(c.func, ast.Name) and c.func.id in comp_defaults and not c.keywords):
                        fail(d, "unknown custom compiler")
                    opn, ext = comp_defaults[c.func.id]
                    ext = ext or default_ext
                    if c.func.id == "RotationCompiler":
                        if len(c.args) != 1 or not isinstance(c.args[0], ast.Constant):
                            fail(d, "RotationCompiler(name)")
                        opn = c.args[0].value
                    else:
                        if len(c.args) >= 1:
                            if not isinstance(c.args[0], ast.Constant):
                                fail(d, "compiler op name")
                            opn = c.args[0].value
                        if len(c.args) >= 2:
                            if ast.unparse(c.args[1]) not in EXT_NAMES:
                                fail(d, "compiler extension")
                            ext = EXT_NAMES[ast.unparse(c.args[1])]
                        if len(c.args) > 2:
                            fail(d, "compiler arguments")
                    if opn is None:
                        fail(d, "compiler without an op name")
                    bind = f"BCustom {cstr(c.func.id)} {cstr(ext)} {cstr(opn)}"
                    pyb = {"kind": "custom", "compiler": c.func.id, "ext": ext, "op": opn}
            elif dn == "guppy":
                if isinstance(d, ast.Call):
                    fail(d, "guppy(...) with arguments")
                if cls == "MaybeLeaked":
                    bind, pyb = f"BSkipped {cstr('classical post-processing of a leak-detecting measurement')}", {"kind": "skipped"}
                else:
                    vt = {p[0]: p[1] for p in params}
                    tr = BodyTr(mid, local, aliases, imported, vt, has_pi, cls)
                    bind = f"BGuppy {tr.stmts(body_stmts)}"
                    pyb = {"kind": "guppy"}
            else:
                fail(d, f"{mid}.{name}: unknown binding decorator")
            doc_c, doc_p = doc_info(fn)
            ps = clist(f"mkParam {cstr(n)} {('(' + t + ')') if ' ' in t else t} {'true' if o else 'false'}" for n, t, o in params)
            rt = f"({ret})" if " " in ret else ret
            fns_coq.append(f"mkFn {cstr(mid)} {cstr(name)} {ps} {rt} {'true' if unitary else 'false'}\n      ({bind})\n      {doc_c}")
            fns_py.append({"mod": mid, "name": name, "params": [list(p) for p in params], "ret": ret,
                           "unitary": unitary, "bind": pyb, "doc": doc_p})

        for n in tree.body:
            if isinstance(n, ast.FunctionDef):
                do_fn(n, None)
            elif isinstance(n, ast.ClassDef):
                if n.name in ("qubit", "angle", "MaybeLeaked"):
                    for m in n.body:
                        if isinstance(m, ast.FunctionDef):
                            do_fn(m, n.name)
                else:
                    fail(n, "unknown class in a quantum module")
    if pi_halfturns is None:
        raise TranslatorError("angles.pi not found")
    text = "\n".join([
        "(* GENERATED by props/C20/tr_gates.py from the quantum standard library -- do not edit *)",
        "From Coq Require Import List String PrimFloat.", "From V.C20 Require Import Model.",
        "Import ListNotations.", "Open Scope string_scope.", "",
        "Definition gen_fns : list fn := [", "  " + ";\n  ".join(fns_coq), "].", "",
        "Definition gen_compilers : list compiler := [", "  " + ";\n  ".join(compilers), "].", "",
        f"Definition gen_default_ext : string := {cstr(default_ext)}.",
        f"Definition gen_tables : tables := mkTables gen_fns gen_compilers {cfloat(pi_halfturns)}.", ""])
    return text, {"fns": fns_py, "default_ext": default_ext, "pi_halfturns": pi_halfturns}


def translate_program(src: str, table: dict, aliases: dict[str, str]) -> tuple[str, list]:
    """Translate a generated test function `def main(params) -> ...: body` (source text that
    is also compiled by /repo) into a Coq `fn` term.  Returns (coq fn, params)."""
    fn = ast.parse(src).body[0]
    params = []
    for p in fn.args.args:
        t, owned = tr_type(p.annotation)
        params.append((p.arg, t, owned))
    ret, _ = tr_type(fn.returns)
    tr = BodyTr("main", set(), aliases, {}, {p[0]: p[1] for p in params}, True)
    ps = clist(f"mkParam {cstr(n)} {('(' + t + ')') if ' ' in t else t} {'true' if o else 'false'}" for n, t, o in params)
    rt = f"({ret})" if " " in ret else ret
    return (f"(mkFn {cstr('main')} {cstr('main')} {ps} {rt} false (BGuppy {tr.stmts(fn.body)}) (mkDoc None None {cstr('')}))",
            params)
