"""C20 — quantum operations implement their documented gates (binding half).

1. T: regenerate coq/C20/GenGates.v from the quantum standard library + custom compilers;
2. re-check coq/C20/Props.v against the regenerated tables;
3. X: generate gate programs (one per library function with permuted qubits, plus random gate
   sequences with angle arithmetic), compile them with the guppylang under test, trace the HUGR
   (op names, qubit wiring, symbolic angle operands) and compare with the Coq model run on the
   term obtained from the SAME program text;
4. failing-input search against the documented side (Spec.v): for every library function compare
   the ops the real compiler emitted with the ops the documentation prescribes."""
import json
import re

import vlib
from vlib import proof_coverage

LEVEL = "other"

PREAMBLE = """from guppylang import guppy
from guppylang.std.quantum import qubit
from guppylang.std.angles import angle, pi
from guppylang.std.builtins import owned
from guppylang.std.option import Option
from guppylang.std.futures import Future
import guppylang.std.quantum as quantum
import guppylang.std.quantum.functional as qfun
import guppylang.std.qsystem as qsystem
import guppylang.std.qsystem.functional as qsfun
from guppylang.std.qsystem import MaybeLeaked
"""
ALIASES = {"quantum": "quantum", "qfun": "quantum.functional", "qsystem": "qsystem", "qsfun": "qsystem.functional"}
ALIAS_OF = {v: k for k, v in ALIASES.items()}


def generate(ctx, errors=None):
    import tr_gates
    text, table = tr_gates.translate(ctx, errors)
    ctx.gen("GenGates.v", text)
    return table


# --------------------------------------------------------------------------- program generation
def py_type(t):
    t = t.strip()
    simple = {"TQubit": "qubit", "TAngle": "angle", "TFloat": "float", "TBool": "bool", "TNone": "None",
              "TOptQubit": "Option[qubit]", "TFuture": "Future[int]", 'TStruct "MaybeLeaked"': "MaybeLeaked"}
    if t in simple:
        return simple[t]
    m = re.fullmatch(r"TTuple \[(.*)\]", t)
    if m:
        return "tuple[" + ", ".join(py_type(x) for x in m.group(1).split(";")) + "]"
    return None


def per_function_programs(table, r):
    """one program per library function: main has the function's parameters with the qubits in a
    permuted order, calls it once and returns its result"""
    progs = []
    for f in table["fns"]:
        if f["mod"] == "angles" or f["bind"]["kind"] == "skipped":
            continue
        ptys = [p[1] for p in f["params"]]
        if any(t not in ("TQubit", "TAngle", "TFloat") for t in ptys):
            continue
        ret = py_type(f["ret"])
        if ret is None:
            continue
        qs = [p for p in f["params"] if p[1] == "TQubit"]
        others = [p for p in f["params"] if p[1] != "TQubit"]
        perm = list(range(len(qs)))
        if len(qs) > 1:
            while perm == sorted(perm):
                r.shuffle(perm)
        # main's parameters: qubits m0.. (declaration order of main), then the numbers
        main_params, call_q = [], {}
        for i, _ in enumerate(qs):
            main_params.append((f"m{i}", "qubit" + (" @ owned" if any(p[2] for p in qs) else "")))
        for j, p in enumerate(qs):
            call_q[p[0]] = f"m{perm[j]}"
        for p in others:
            main_params.append((p[0], py_type(p[1])))
        args = [call_q[p[0]] if p[1] == "TQubit" else p[0] for p in f["params"]]
        owned_any = any(p[2] for p in qs)
        if f["name"] == "qubit.__new__":
            callee = "qubit()"
        elif f["name"].startswith("qubit."):
            callee = f"{args[0]}.{f['name'][6:]}({', '.join(args[1:])})"
        else:
            callee = f"{ALIAS_OF[f['mod']]}.{f['name']}({', '.join(args)})"
        # a main that owns qubits the callee only borrows must hand them back
        borrowed_by_callee = [call_q[p[0]] for p in qs if not p[2]]
        sig = ", ".join(f"{n}: {t}" for n, t in main_params)
        if owned_any and borrowed_by_callee:
            continue
        body = f"    return {callee}" if ret != "None" else f"    {callee}"
        src = f"def main({sig}) -> {ret}:\n{body}\n"
        progs.append({"family": "per-function", "fn": f"{f['mod']}.{f['name']}", "src": src,
                      "mod": f["mod"], "fname": f["name"], "call_args": args})
    return progs


GATES_1Q = ["h", "x", "y", "z", "s", "t", "v", "sdg", "tdg", "vdg", "reset"]
GATES_2Q = ["cx", "cy", "cz", "ch"]


def angle_expr(r, depth):
    if depth <= 0 or r.random() < 0.3:
        return r.choice(["a", "b", "pi", "angle(x)", "angle(0.5)", "angle(1.25)", "pi"])
    k = r.choice(["add", "sub", "mulr", "mull", "div", "rdiv", "neg", "paren"])
    if k == "add":
        return f"({angle_expr(r, depth - 1)} + {angle_expr(r, depth - 1)})"
    if k == "sub":
        return f"({angle_expr(r, depth - 1)} - {angle_expr(r, depth - 1)})"
    if k == "mulr":
        return f"({angle_expr(r, depth - 1)} * {r.choice([float_expr(r, depth - 1), '3', '2'])})"
    if k == "mull":
        return f"({float_expr(r, depth - 1)} * {angle_expr(r, depth - 1)})"
    if k == "div":
        return f"({angle_expr(r, depth - 1)} / {r.choice([float_expr(r, depth - 1), '4', '2'])})"
    if k == "rdiv":
        return f"({float_expr(r, depth - 1)} / {angle_expr(r, depth - 1)})"
    if k == "neg":
        return f"(-{angle_expr(r, depth - 1)})"
    return angle_expr(r, depth - 1)


def float_expr(r, depth):
    if depth <= 0 or r.random() < 0.4:
        return r.choice(["x", "2.0", "4.0", "0.5", "3.0", "1.5", "0.1", "7.0", "x"])
    k = r.choice(["add", "sub", "mul", "div", "neg", "float"])
    if k == "neg":
        return f"(-{float_expr(r, depth - 1)})"
    if k == "float":
        return f"float({angle_expr(r, depth - 1)})"
    op = {"add": "+", "sub": "-", "mul": "*", "div": "/"}[k]
    return f"({float_expr(r, depth - 1)} {op} {float_expr(r, depth - 1)})"


def random_program(r, n_stmts):
    lines = []
    for _ in range(n_stmts):
        k = r.random()
        qs = ["q0", "q1", "q2"]
        r.shuffle(qs)
        if k < 0.25:
            lines.append(f"quantum.{r.choice(GATES_1Q)}({qs[0]})")
        elif k < 0.45:
            lines.append(f"quantum.{r.choice(GATES_2Q)}({qs[0]}, {qs[1]})")
        elif k < 0.5:
            lines.append(f"quantum.toffoli({qs[0]}, {qs[1]}, {qs[2]})")
        elif k < 0.7:
            lines.append(f"quantum.{r.choice(['rx', 'ry', 'rz'])}({qs[0]}, {angle_expr(r, 3)})")
        elif k < 0.78:
            lines.append(f"quantum.crz({qs[0]}, {qs[1]}, {angle_expr(r, 2)})")
        elif k < 0.84:
            lines.append(f"qsystem.phased_x({qs[0]}, {angle_expr(r, 2)}, {angle_expr(r, 2)})")
        elif k < 0.9:
            lines.append(f"qsystem.zz_phase({qs[0]}, {qs[1]}, {angle_expr(r, 2)})")
        elif k < 0.93:
            lines.append(f"qsystem.zz_max({qs[0]}, {qs[1]})")
        elif k < 0.97:
            lines.append(f"qsystem.rz({qs[0]}, {angle_expr(r, 2)})")
        else:
            lines.append(f"qsystem._zz_phase({qs[0]}, {qs[1]}, {float_expr(r, 2)})")
    meas = r.choice(["q0", "q1", "q2"])
    fn = r.choice(["quantum.project_z", "qsystem.measure_and_reset"])
    body = "\n".join("    " + l for l in lines) + f"\n    return {fn}({meas})\n"
    return {"family": "random-sequence", "fn": "",
            "src": f"def main(q0: qubit, q1: qubit, q2: qubit, a: angle, b: angle, x: float) -> bool:\n{body}"}


# --------------------------------------------------------------------------- model side
def coq_args(params):
    out = []
    for i, (n, t, o) in enumerate(params):
        out.append({"TQubit": f"VQ (QIn {i})", "TAngle": f"VAng (FVar {i})", "TFloat": f"VF (FVar {i})"}[t])
    return "[" + "; ".join(out) + "]"


def model_file(items):
    """items: list of ('run', coq fn term, args) | ('doc', mod, fn, args)"""
    lines = ["From Coq Require Import List String PrimFloat.", "From V.C20 Require Import Model Spec GenGates Show.",
             "Import ListNotations.", "Open Scope string_scope.", "Definition outs : list string := ["]
    its = []
    for it in items:
        if it[0] == "run":
            its.append(f"show_run {it[1]} {it[2]}")
        else:
            its.append(f'show_doc "{it[1]}" "{it[2]}" {it[3]}')
    lines.append(";\n".join(its) + "].")
    lines.append("Eval vm_compute in outs.")
    return "\n".join(lines)


def parse_outs(out):
    m = re.search(r"=\s*\[(.*)\]\s*:\s*list string", out, re.S)
    if not m:
        raise RuntimeError("cannot parse model output: " + out[-500:])
    strs = re.findall(r'"([^"]*)"', m.group(1))
    return [json.loads(re.sub(r"\s+", "", s).replace("'", '"')) for s in strs]


def run(ctx):
    import tr_gates
    tr_errors = []
    table = generate(ctx, tr_errors)
    _orig_report, _seen = ctx.report, {}

    def _capped(key, kind, name, detail, found_input=True):
        cat = key.split(":", 1)[0]
        _seen[cat] = _seen.get(cat, 0) + 1
        if _seen[cat] <= 3 or ctx.is_known(key) is not None:      # at most 3 replays per category of failure
            _orig_report(key, kind, name, detail, found_input)
    ctx.report = _capped
    info = ctx.coq_props()
    show = ctx.coq_make(["C20/Show.vo"])
    r = vlib.rng(ctx.seed, "C20")
    progs = per_function_programs(table, r)
    n_rand = 40 if ctx.quick else 400
    for i in range(n_rand):
        progs.append(random_program(r, r.randint(3, 9 if ctx.quick else 14)))
    corpus = ctx.dir / "corpus"
    if corpus.exists():
        for f in sorted(corpus.glob("*.py")):
            progs.insert(0, {"family": "corpus", "fn": f.name, "src": f.read_text()})
    items_run, items_doc = [], []
    for k, p in enumerate(progs):
        p["name"] = f"main_{k}"
        term, params = tr_gates.translate_program(p["src"], table, ALIASES)
        p["params"] = [list(x) for x in params]
        p["term"] = term
        items_run.append(("run", term, coq_args(params)))
        if p["family"] == "per-function":
            names = [n for n, _, _ in params]
            args = []
            for nm in p["call_args"]:
                i = names.index(nm)
                args.append({"TQubit": f"VQ (QIn {i})", "TAngle": f"VAng (FVar {i})", "TFloat": f"VF (FVar {i})"}[params[i][1]])
            items_doc.append((k, ("doc", p["mod"], p["fname"], "[" + "; ".join(args) + "]")))
    # ---- implementation
    impl = json.loads(ctx.impl("impl_gates.py", {"preamble": PREAMBLE, "programs": [
        {"name": p["name"], "src": p["src"], "params": p["params"]} for p in progs],
        "array_fns": [["quantum.measure_array", "measure_array"], ["quantum.discard_array", "discard_array"]]}))
    # ---- model
    model, docs = None, None
    if show.ok:
        try:
            chunks = [items_run[i:i + 60] for i in range(0, len(items_run), 60)]
            files = {f"run{i}": model_file(c) for i, c in enumerate(chunks)}
            files["doc"] = model_file([d for _, d in items_doc])
            outs = ctx.coq_eval_many(files)
            model = []
            for i in range(len(chunks)):
                model += parse_outs(outs[f"run{i}"])
            docs = dict(zip([k for k, _ in items_doc], parse_outs(outs["doc"])))
        except RuntimeError as e:
            ctx.notes.append(f"model evaluation failed: {str(e)[-600:]}")
            model = None
    else:
        ctx.notes.append("Show.vo did not build: " + vlib.CoqResult(False, show.log).error_excerpt(12))

    def replay(p):
        return ("write PREAMBLE (props/C20/check.py) + '@guppy' + this source to a file, then "
                "PYTHONPATH=/verif/tools:<repo>/guppylang/src:<repo>/guppylang-internals/src /venv/bin/python -c "
                "'import repo_shim, prog; h = prog.main.compile_function().modules[0]; "
                "print([h[n].op.name() for n in h.descendants(h.module_root) if hasattr(h[n].op, \"name\")])' "
                "and read the tket.quantum / tket.qsystem ops and their input wires")

    stats = {"programs": len(progs), "traced": 0, "unsupported": 0, "impl_errors": 0, "model_errors": 0,
             "model_mismatch": 0, "doc_mismatch": 0, "events_compared": 0, "per_function": 0, "random": 0}
    distinct = set()
    ops_seen = set()
    for k, p in enumerate(progs):
        res = impl["results"][k]
        if "unsupported" in res:
            stats["unsupported"] += 1
            ctx.notes.append(f"tracer unsupported: {p['fn'] or p['family']}: {res['unsupported']}")
            continue
        if "err" in res:
            stats["impl_errors"] += 1
            ctx.report(f"compile-error:{p['fn']}:{p['src']}", "counterexample", "generated gate program does not compile",
                       {"program": p["src"], "error": res["err"], "traceback": res.get("tb", ""), "replay": replay(p)})
            continue
        stats["traced"] += 1
        stats["per_function" if p["family"] == "per-function" else "random"] += 1
        for e in res["events"]:
            ops_seen.add(f"{e[0]}.{e[1]}")
        if res["events"]:
            distinct.add(json.dumps(res["events"]))
        # (4) documented side
        if docs is not None and k in docs and "events" in docs[k]:
            stats["events_compared"] += len(res["events"])
            if docs[k]["events"] != res["events"]:
                stats["doc_mismatch"] += 1
                ctx.report(f"doc:{p['fn']}", "counterexample",
                           f"{p['fn']} does not emit its documented op(s)",
                           {"program": p["src"], "documented_ops": docs[k]["events"], "emitted_ops": res["events"],
                            "encoding": "[extension, op, [qubits: ['in', i] = i-th parameter of main], [[rot|float, symbolic operand]]]",
                            "replay": replay(p)})
        # (3) model
        if model is not None:
            m = model[k]
            if "err" in m:
                stats["model_errors"] += 1
                ctx.report(f"model-error:{p['fn']}:{p['src']}", "correspondence", "model cannot run a program that /repo compiles",
                           {"program": p["src"], "model_error": m["err"], "emitted_ops": res["events"]}, found_input=True)
                continue
            exp_ret = m["ret"] + [m["after"][i] for i, (n, t, o) in enumerate(p["params"]) if t == "TQubit" and not o]
            if m["events"] != res["events"] or exp_ret != res["ret"]:
                stats["model_mismatch"] += 1
                ctx.report(f"model:{p['fn']}:{p['src']}", "counterexample",
                           "compiled HUGR differs from the model of the library (ops, qubit wiring, angle operands or results)",
                           {"program": p["src"], "model_ops": m["events"], "emitted_ops": res["events"],
                            "model_outputs": exp_ret, "emitted_outputs": res["ret"], "replay": replay(p)})
    arr = impl.get("array_ops", {})
    arr_expected = {"measure_array": "tket.quantum.MeasureFree", "discard_array": "tket.quantum.QFree"}
    for key, want in arr_expected.items():
        got = arr.get(key)
        if not (isinstance(got, list) and want in got and all(g == want for g in got)):
            ctx.report(f"array:{key}", "counterexample", f"{key} does not compile to a loop over {want}",
                       {"quantum_ops_in_compiled_function": got, "expected_only": want})
    if tr_errors and not ctx.violations:
        ctx.report("translator:" + tr_errors[0], "proof-broken", "translator (compiler wiring)",
                   {"errors": tr_errors, "searched_programs": len(progs),
                    "meaning": "a custom call compiler changed shape; the 0.21.6 wiring was used as the expected behaviour and no program distinguishing it from the new code was found"},
                   found_input=False)
    if not info["ok"]:
        if not ctx.violations:
            ctx.report("proof-broken:" + str(info["failed"]), "proof-broken", str(info["failed"]),
                       {"coq_error": vlib.CoqResult(False, info["log"]).error_excerpt(),
                        "searched_programs": len(progs)}, found_input=False)
    elif model is None:
        ctx.report("model-unavailable", "correspondence", "model side could not be evaluated", {"notes": ctx.notes}, found_input=False)
    if stats["traced"] < 60:
        ctx.report("tie-too-thin", "correspondence", "fewer than 60 programs could be traced", {"stats": stats}, found_input=False)
    cov = proof_coverage(
        info, "make -f Makefile.C20 C20/Props.vo && coqc C20/Props.v (Print Assumptions)",
        ["Coq 8.16.1 kernel; vm_compute; primitive floats (PrimFloat.*) as the IEEE double model",
         "tket op semantics: a gate returns each qubit on the port it came in on; gate matrices; qsystem float operands are radians (NOT modelled)",
         "props/C20/tr_gates.py: reading of decorators, docstrings, compiler bodies and Guppy bodies",
         "props/C20/impl_gates.py: the HUGR tracer; tools/repo_shim.py + stand-in definitions of tket.qsystem Measure/MeasureReset"],
        explanation=("Binding half of C20 only. Proved in Coq over tables regenerated from the source: every op-bound function emits "
                     "exactly its documented tket op on its qubits in declaration order with unscaled half-turns; composites and "
                     "functional variants expand as documented; angle arithmetic is the same IEEE op; measure_array/discard_array "
                     "for all lengths (loop level). Tied to the real compiler by tracing HUGR compiled from generated programs. "
                     "NOT claimed: the emulated state / gate matrices (no emulator for /repo HUGR in this sandbox; tket op "
                     "semantics are outside /repo); MaybeLeaked post-processing; measurement statistics."),
        evaluations=len(progs), distinct_nontrivial=len(distinct),
        rule="programs = one per library function (qubits permuted) + seeded random gate sequences over 3 qubits with random angle/float "
             "expression trees; non-trivial/distinct = distinct non-empty traced op sequences (op, qubit wiring, symbolic operands)",
        traces_validated_against_impl=stats["traced"] if model is not None else 0,
        stats=stats, ops_seen=sorted(ops_seen), table_functions=len(table["fns"]), array_ops=arr,
        samples=[{"program": progs[j]["src"], "emitted_ops": impl["results"][j].get("events")}
                 for j in (0, len(progs) // 2, len(progs) - 1)],
        translator_errors=tr_errors, notes=ctx.notes[:20])
    return ctx.finish(LEVEL, cov, ["tket ops act on qubits as documented by tket (matrices not modelled)",
                                   "HUGR node order within a dataflow block is program order",
                                   "the emulator half of the property is not observable in this sandbox"])
