"""C20 implementation side: compile generated gate programs with the guppylang under test
(through tools/repo_shim) and TRACE the emitted HUGR symbolically.

stdin : {"preamble": <python imports>, "programs": [{"name": "main_k", "src": "...", "params": [[name, ty, owned]..]}],
         "array_fns": [[python expr of a library function, name]...]}
stdout: {"results": [ {"ret": [...], "events": [...]} | {"err": "..."} ], "array_ops": {...}}

The tracer walks FuncDefn -> CFG -> single DataflowBlock in node order and gives every wire a
symbolic value: qubit identities (a tket gate hands each qubit back on the port it came in on --
trusted op semantics), IEEE expressions over the float inputs, tuples, measurement results.
Calls are inlined by tracing the callee FuncDefn.  It knows nothing about guppylang's library
tables: op names, operand order and constants are read from the HUGR only."""
import importlib.util
import json
import math
import sys
import traceback

import repo_shim  # noqa: F401
from guppylang_internals.std._internal.compiler.tket_exts import BOOL_EXTENSION, QSYSTEM_EXTENSION
from hugr import ext as he, ops, tys as ht

# ops that /repo 0.21.6 expects in tket.qsystem but the sandbox's newer tket-exts renamed;
# stand-in definitions (name + signature only) so that `import guppylang.std.qsystem` works
_OB = ht.ExtType(BOOL_EXTENSION.get_type("bool"))
for _name, _ins, _outs in (("Measure", [ht.Qubit], [_OB]), ("MeasureReset", [ht.Qubit], [ht.Qubit, _OB])):
    if _name not in QSYSTEM_EXTENSION.operations:
        QSYSTEM_EXTENSION.add_op_def(he.OpDef(name=_name, description=_name,
                                              signature=he.OpDefSig(ht.FunctionType(_ins, _outs))))


class Unsupported(Exception):
    pass


def fconst(v):
    v = float(v)
    if v != v:
        return ["nan"]
    if v in (float("inf"), float("-inf")):
        return ["inf", 1 if v < 0 else 0]
    s = 1 if math.copysign(1.0, v) < 0 else 0
    if v == 0:
        return [s, 0, 0]
    n, d = abs(v).as_integer_ratio()
    e = -(d.bit_length() - 1)
    while n % 2 == 0:
        n //= 2
        e += 1
    return [s, n, e]


def ieee_div(x, y):
    try:
        return x / y
    except ZeroDivisionError:
        if x != x or x == 0:
            return float("nan")
        return math.copysign(float("inf"), x) * math.copysign(1.0, y)


class F:
    """symbolic double; closed sub-expressions are folded with the same IEEE operation"""

    def __init__(self, tag, *a):
        self.tag, self.a = tag, a

    @staticmethod
    def const(v):
        return F("const", float(v))

    def enc(self):
        if self.tag == "var":
            return ["var", self.a[0]]
        if self.tag == "const":
            return ["const", fconst(self.a[0])]
        return [self.tag] + [x.enc() for x in self.a]


def fop(tag, *xs):
    if all(x.tag == "const" for x in xs):
        v = [x.a[0] for x in xs]
        if tag == "add":
            return F.const(v[0] + v[1])
        if tag == "sub":
            return F.const(v[0] - v[1])
        if tag == "mul":
            return F.const(v[0] * v[1])
        if tag == "div":
            return F.const(ieee_div(v[0], v[1]))
        if tag == "neg":
            return F.const(-v[0])
    return F(tag, *xs)


FLOAT_OPS = {"arithmetic.float.fadd": "add", "arithmetic.float.fsub": "sub", "arithmetic.float.fmul": "mul",
             "arithmetic.float.fdiv": "div", "arithmetic.float.fneg": "neg"}


class Tracer:
    def __init__(self, h):
        self.h = h
        self.events = []

    def opname(self, n):
        op = self.h[n].op
        try:
            return op.name()
        except Exception:  # noqa: BLE001
            return type(op).__name__

    def inputs(self, n, env):
        vals = []
        for i in range(self.h.num_in_ports(n)):
            srcs = list(self.h.linked_ports(n.inp(i)))
            if len(srcs) != 1:
                continue  # order / unconnected ports
            s = srcs[0]
            if (s.node, s.offset) in env:
                vals.append(env[(s.node, s.offset)])
            else:
                vals.append(("static", s.node))
        return vals

    def const_val(self, v):
        t = type(v).__name__
        if t == "FloatVal":
            return ("float", F.const(v.v))
        if t == "IntVal":
            return ("int", v.v)
        if t == "Tuple":
            return ("tuple", [self.const_val(x) for x in v.vals])
        raise Unsupported(f"constant {t}")

    def func(self, fnode, args):
        """trace a FuncDefn on symbolic arguments -> list of output values"""
        kids = list(self.h.children(fnode))
        inp = next(k for k in kids if isinstance(self.h[k].op, ops.Input))
        out = next(k for k in kids if isinstance(self.h[k].op, ops.Output))
        env = {(inp, i): a for i, a in enumerate(args)}
        for k in kids:
            if k in (inp, out):
                continue
            self.node(k, env)
        return self.inputs(out, env)

    def block(self, bnode, args):
        kids = list(self.h.children(bnode))
        inp = next(k for k in kids if isinstance(self.h[k].op, ops.Input))
        out = next(k for k in kids if isinstance(self.h[k].op, ops.Output))
        env = {(inp, i): a for i, a in enumerate(args)}
        for k in kids:
            if k in (inp, out):
                continue
            self.node(k, env)
        return self.inputs(out, env)

    def node(self, n, env):
        h = self.h
        op = h[n].op
        name = self.opname(n)
        tn = type(op).__name__
        ins = self.inputs(n, env)

        def put(vals):
            for i, v in enumerate(vals):
                env[(n, i)] = v

        if tn == "Const":
            env[("const", n)] = self.const_val(op.val)
            return
        if tn == "LoadConst":
            src = list(h.linked_ports(n.inp(0)))[0].node
            cop = h[src].op
            return put([self.const_val(cop.val)])
        if tn == "FuncDefn" or tn == "FuncDecl":
            return
        if tn == "CFG":
            blocks = list(h.children(n))
            entry = blocks[0]
            cur, vals = entry, ins
            for _ in range(64):
                if isinstance(h[cur].op, ops.ExitBlock):
                    return put(vals)
                outs = self.block(cur, vals)
                tag = outs[0]
                if not (isinstance(tag, tuple) and tag[0] == "tag"):
                    raise Unsupported("branching block")
                succs = [list(h.linked_ports(cur.out(i)))[0].node for i in range(h.num_out_ports(cur))]
                cur = succs[tag[1]]
                vals = list(tag[2]) + outs[1:]
            raise Unsupported("loop in CFG")
        if tn == "Tag":
            return put([("tag", op.tag, ins)])
        if tn == "MakeTuple":
            return put([("tuple", ins)])
        if tn == "UnpackTuple":
            if ins[0][0] != "tuple":
                raise Unsupported("unpack of non-tuple")
            return put(ins[0][1])
        if tn == "Call":
            target = [v for v in ins if v[0] == "static"]
            if len(target) != 1:
                raise Unsupported("call target")
            return put(self.func(target[0][1], [v for v in ins if v[0] != "static"]))
        if tn in ("DFG",):
            return put(self.block(n, ins))
        if name in FLOAT_OPS:
            return put([("float", fop(FLOAT_OPS[name], *[v[1] for v in ins]))])
        if name.startswith("arithmetic.conversions.convert_s") or name.startswith("arithmetic.conversions.convert_u"):
            if ins[0][0] != "int" or abs(ins[0][1]) > 2 ** 53:
                raise Unsupported("int->float of a non-constant")
            return put([("float", F.const(float(ins[0][1])))])
        if name == "arithmetic.float.feq":
            return put([("bit", ["feq", ins[0][1].enc(), ins[1][1].enc()])])
        if name.startswith("tket.rotation."):
            if name != "tket.rotation.from_halfturns_unchecked":
                self.events.append(["tket.rotation", name.split(".")[-1], [], []])  # any other conversion is visible
            return put([("rot", ins[0][1])])
        if name in ("tket.bool.make_opaque", "tket.bool.read"):
            return put([ins[0]])
        if name.startswith("tket.quantum.") or name.startswith("tket.qsystem."):
            ext, opn = name.rsplit(".", 1)
            idx = len(self.events)
            qs = [v[1] for v in ins if v[0] == "qubit"]
            ps = []
            for v in ins:
                if v[0] == "rot":
                    ps.append(["rot", v[1].enc()])
                elif v[0] == "float":
                    ps.append(["float", v[1].enc()])
                elif v[0] != "qubit":
                    raise Unsupported(f"operand {v[0]} of {name}")
            self.events.append([ext, opn, qs, ps])
            outs, qi = [], 0
            sig = op.outer_signature() if hasattr(op, "outer_signature") else op.signature
            for t in sig.output:
                if t == ht.Qubit:
                    if qi < len(qs):
                        outs.append(("qubit", qs[qi]))
                        qi += 1
                    else:
                        outs.append(("qubit", ["new", idx]))
                else:
                    ts = str(t)
                    if "Future" in ts or "future" in ts:
                        outs.append(("fut", idx))
                    elif "Option" in ts or isinstance(t, ht.Sum) and not (t == ht.Bool):
                        outs.append(("optq", ["new", idx]))
                    else:
                        outs.append(("bit", ["meas", idx]))
            return put(outs)
        raise Unsupported(f"node {tn} {name}")


def enc_val(v):
    k = v[0]
    if k == "qubit":
        return ["qubit", v[1]]
    if k == "float":
        return ["float", v[1].enc()]
    if k == "rot":
        return ["rot", v[1].enc()]
    if k == "tuple":
        return ["tuple", [enc_val(x) for x in v[1]]]
    if k == "bit":
        return ["bit", v[1]]
    if k in ("fut", "optq"):
        return [k, v[1]]
    raise Unsupported(f"value {k}")


def main():
    req = json.load(sys.stdin)
    path = "c20_programs.py"
    with open(path, "w") as f:
        f.write(req["preamble"] + "\n\n")
        for p in req["programs"]:
            f.write("@guppy\n" + p["src"].replace("def main(", f"def {p['name']}(") + "\n\n")
    spec = importlib.util.spec_from_file_location("c20_programs", path)
    mod = importlib.util.module_from_spec(spec)
    sys.modules["c20_programs"] = mod
    spec.loader.exec_module(mod)
    results = []
    for p in req["programs"]:
        try:
            pkg = getattr(mod, p["name"]).compile_function()
            h = pkg.modules[0]
            fnode = next(n for n in h.children(h.module_root)
                         if isinstance(h[n].op, ops.FuncDefn) and h[n].op.f_name == p["name"])
            args = []
            for i, (nm, ty, _owned) in enumerate(p["params"]):
                if ty == "TQubit":
                    args.append(("qubit", ["in", i]))
                elif ty == "TAngle":
                    args.append(("tuple", [("float", F("var", i))]))
                elif ty == "TFloat":
                    args.append(("float", F("var", i)))
                else:
                    raise Unsupported(f"parameter type {ty}")
            t = Tracer(h)
            outs = t.func(fnode, args)
            results.append({"ret": [enc_val(v) for v in outs], "events": t.events})
        except Unsupported as e:
            results.append({"unsupported": str(e)})
        except Exception as e:  # noqa: BLE001
            results.append({"err": f"{type(e).__name__}: {e}", "tb": traceback.format_exc()[-1500:]})
    # array functions: which quantum ops occur in the compiled function (loops are not traced)
    array_ops = {}
    for expr, key in req.get("array_fns", []):
        try:
            src = (f"@guppy\ndef arr_{key}(qs: array[qubit, 3] @ owned) -> None:\n"
                   f"    r = {expr}(qs)\n" + ("    for b in r:\n        pass\n" if key == "measure_array" else ""))
            with open(f"c20_arr_{key}.py", "w") as f:
                f.write(req["preamble"] + "\nfrom guppylang.std.array import array\n\n" + src)
            spec = importlib.util.spec_from_file_location(f"c20_arr_{key}", f"c20_arr_{key}.py")
            m2 = importlib.util.module_from_spec(spec)
            sys.modules[f"c20_arr_{key}"] = m2
            spec.loader.exec_module(m2)
            h = getattr(m2, f"arr_{key}").compile_function().modules[0]
            names = []
            for n in h.descendants(h.module_root):
                try:
                    nm = h[n].op.name()
                except Exception:  # noqa: BLE001
                    continue
                if nm.startswith("tket.quantum.") or nm.startswith("tket.qsystem."):
                    names.append(nm)
            array_ops[key] = sorted(names)
        except Exception as e:  # noqa: BLE001
            array_ops[key] = f"error: {type(e).__name__}: {e}"
    json.dump({"results": results, "array_ops": array_ops}, sys.stdout)


main()
