"""C08 random program generator (stdlib only).

gen_program(r, size=None, consts=False, nested=True) -> str
gen_many(seed, count, **kw) -> list[str]

Every program has the shape

    @guppy
    def f(c1: bool, c2: bool, n: int) -> int:
        <body>
        return 0

with the body grammar described in the C08 task (int/float literal assignments,
copies, `w + 1`, `+= 1`, bare uses, if/elif/else, while, for-range, break,
continue, return, pass, at most two non-recursively nested defs g/h with
captures, optional constant conditions).
"""
import random

POOL = ["x", "y", "z", "w"]
POOL_W = [5, 4, 2, 2]
IND = "    "
MAX_DEPTH = 3


class _Gen:
    def __init__(self, r, size, consts, nested):
        self.r = r
        self.consts = consts
        self.nested = nested
        self.budget = size
        self.nfuncs = 0
        self.funcs = []        # nested function names defined so far (textually)
        self.in_nested = None  # name of nested function being generated
        # scopes: "seen" = assigned textually before, "sure" = assigned at the top
        # level of the function body (outside compound statements) before
        self.seen = []
        self.sure = []
        self.loopvars_seen = []
        self.outer_seen = []
        self.outer_sure = []
        self.base = 0
        self.ty = {}
        self.hot = []          # variables that got different types on different paths
        self.exprs = False     # expression-level constructs (comprehensions, walrus, ifexp, and/or)
        self.bools = []        # bool variables bk / bj assigned so far

    # ---- helpers -----------------------------------------------------------
    def chance(self, p):
        return self.r.random() < p

    def pick_target(self):
        if self.in_nested:
            return self.r.choice(["p", "p", "q"])
        return self.r.choices(POOL, POOL_W)[0]

    def note_assign(self, v, depth, ty=None):
        if not self.in_nested and depth == self.base:
            self.ty[v] = ty or "int"
        if v not in self.seen:
            self.seen.append(v)
        if depth == self.base and v not in self.sure:
            self.sure.append(v)

    def pick_read(self):
        r = self.r
        u = r.random()
        if self.in_nested:
            if u < 0.30 and self.sure:
                return r.choice(self.sure)
            if u < 0.42 and self.seen:
                return r.choice(self.seen)
            if u < 0.50:
                return "k"
            if u < 0.72 and self.outer_sure:
                return r.choice(self.outer_sure)
            if u < 0.86 and self.outer_seen:
                return r.choice(self.outer_seen)
            if u < 0.92:
                return "n"
            if u < 0.96:
                return r.choice(["p", "q"])
            return r.choices(POOL, POOL_W)[0]
        if self.hot and self.chance(0.40):
            return r.choice(self.hot)
        if u < 0.45 and self.sure:
            return r.choice(self.sure)
        if u < 0.80 and self.seen:
            return r.choice(self.seen)
        if u < 0.85:
            return "n"
        if u < 0.93 and self.loopvars_seen:
            return r.choice(self.loopvars_seen)
        return r.choices(POOL, POOL_W)[0]

    def cond(self, allow_const=True):
        r = self.r
        if self.consts and allow_const and self.chance(0.30):
            return r.choice(["True", "False", "True", "False", "not False", "not True"])
        if self.exprs and not self.in_nested and self.chance(0.36):
            return self.expr_cond()
        u = r.random()
        if u < 0.30:
            return "c1"
        if u < 0.52:
            return "c2"
        if u < 0.62:
            return "not " + r.choice(["c1", "c2"])
        if u < 0.78:
            return "n > 0"
        return self.pick_read() + " > 0"

    # ---- expression-level constructs -------------------------------------------
    def int_arm(self, depth):
        """An int-typed operand; sometimes an assignment expression (binds only if evaluated)."""
        r = self.r
        u = r.random()
        if u < 0.35:
            v = self.pick_target()
            self.note_assign(v, depth + 1)
            return "(%s := %s)" % (v, r.choice(["1", "2", "n"]))
        if u < 0.6:
            return "n"
        return r.choice(["1", "2", "3"])

    def bool_operand(self, depth, first):
        r = self.r
        u = r.random()
        if u < 0.22:
            return r.choice(["c1", "c2"])
        if u < 0.34:
            return "n > 0"
        if u < 0.50:
            return "0 <= n < 5"
        if u < 0.60:
            return self.pick_read() + " > 0"
        if u < 0.85:
            v = self.pick_target()
            self.note_assign(v, depth if first else depth + 1)
            return "(%s := %s) > 0" % (v, r.choice(["1", "n", "2"]))
        if self.bools:
            return r.choice(self.bools)
        return "not c1"

    def dead_operand(self):
        """An operand that (re)binds a variable; placed where a literal constant makes it dead."""
        r = self.r
        v = r.choice(self.sure) if (self.sure and self.chance(0.7)) else self.pick_target()
        if v not in POOL:
            v = self.pick_target()
        return "(%s := %s) > 0" % (v, r.choice(["2.5", "2.5", "2", "n", "1.5"]))

    def const_operand_cond(self):
        """Short-circuit / conditional conditions with a literal constant operand: the other operand
        is never evaluated (dead), but both its branch targets are live."""
        r = self.r
        c = r.choice(["c1", "c2", "n > 0", "not c1"])
        b = self.dead_operand()
        return r.choice([
            "(False and %s) or %s" % (b, c),
            "(True or %s) and %s" % (b, c),
            "%s and (True or %s)" % (c, b),
            "%s or (False and %s)" % (c, b),
            "not (True or %s)" % b,
            "not (False and %s)" % b,
            "(%s if False else %s)" % (b, c),
            "(%s if True else %s)" % (c, b),
            "(False and %s) or (True and %s)" % (b, c),
        ])

    def expr_cond(self):
        """A condition with expression-level control flow and/or bindings."""
        r = self.r
        d = self.base + 1       # bindings inside conditions are recorded as 'not sure'
        if self.consts and self.chance(0.45):
            return self.const_operand_cond()
        u = r.random()
        if u < 0.22:
            v = self.pick_target()
            self.note_assign(v, self.base if False else d)
            return "(%s := %s) > 0" % (v, r.choice(["n", "1", self.pick_read()]))
        if u < 0.42:
            return "%s %s %s" % (self.bool_operand(d, True), r.choice(["and", "or"]), self.bool_operand(d, False))
        if u < 0.50:
            v = self.pick_target()
            self.note_assign(v, d)
            return "(%s := %s if %s else %s) > 0" % (v, self.int_arm(d), r.choice(["c1", "c2", "n > 0"]), self.int_arm(d))
        if u < 0.86:
            mid = r.choice(["n", "(%s := n)" % self.pick_target(), self.pick_read()])
            return "0 <= %s < 5" % mid
        if u < 0.92:
            b = r.choice(["bk", "bj"])
            if b not in self.bools:
                self.bools.append(b)
            return "(%s := %s)" % (b, r.choice(["c1 and c2", "c1 or n > 0", "0 <= n < 5", "n > 0 and c2"]))
        return "(%s if %s else %s) > 0" % (self.int_arm(d), r.choice(["c1", "c2"]), self.int_arm(d))

    def expr_stmt(self, depth):
        r = self.r
        if self.consts and self.chance(0.18):
            if self.chance(0.5):
                b = r.choice(["bk", "bj"])
                if b not in self.bools:
                    self.bools.append(b)
                return "%s = %s" % (b, self.const_operand_cond())
            v = self.pick_target()
            self.note_assign(v, depth)
            w = r.choice(self.sure) if self.sure else self.pick_target()
            if w not in POOL:
                w = self.pick_target()
            return r.choice(["%s = (%s := 2.5) if False else 2", "%s = 2 if True else (%s := 2.5)"]) % (v, w)
        u = r.random()
        if u < 0.42:
            # comprehension: the loop variable is local to it (may shadow an outer local)
            v = r.choices(POOL, POOL_W)[0] if self.chance(0.8) else "k"
            elt = r.choice([v, v + " + 1", v + " + n", "n", self.pick_read(), v + " * " + v])
            if self.chance(0.7):
                return "ys = array(%s for %s in range(3))" % (elt, v)
            return "zs = [%s for %s in range(3)]" % (elt, v)
        if u < 0.50:
            v, w = self.pick_target(), self.pick_target()
            self.note_assign(w, depth)
            self.note_assign(v, depth)
            return "%s = (%s := %s) + 1" % (v, w, r.choice(["5", "n", "2"]))
        if u < 0.64:
            v, w = self.pick_target(), self.pick_target()
            self.note_assign(w, depth)
            self.note_assign(v, depth)
            return "%s = (%s := %s if %s else %s)" % (v, w, self.int_arm(depth), r.choice(["c1", "c2", "n > 0"]), self.int_arm(depth))
        if u < 0.78:
            v = self.pick_target()
            a, b = self.int_arm(depth), self.int_arm(depth)
            self.note_assign(v, depth)
            return "%s = %s if %s else %s" % (v, a, r.choice(["c1", "c2", "n > 0", self.pick_read() + " > 0"]), b)
        if u < 0.90:
            b1, b2 = r.choice([("bk", "bj"), ("bj", "bk")])
            for b in (b1, b2):
                if b not in self.bools:
                    self.bools.append(b)
            return "%s = (%s := %s)" % (b1, b2, r.choice(["c1 and c2", "0 <= n < 5", "c1 or c2", "n > 0 and c1"]))
        if self.bools:
            return r.choice(self.bools)
        v = self.pick_target()
        self.note_assign(v, depth)
        return "(%s := %s)" % (v, r.choice(["1", "2"]))

    # ---- statements -----------------------------------------------------------
    def simple(self, depth):
        """One simple (non-jump) statement."""
        r = self.r
        if self.exprs and not self.in_nested and self.chance(0.42):
            return self.expr_stmt(depth)
        u = r.random()
        if not self.in_nested and self.chance(0.03):
            self.note_assign("n", depth)
            return "n = %d" % r.choice([1, 2])
        if (depth > self.base and not self.in_nested and self.chance(0.42)):
            cands = [x for x in self.sure if x in POOL]
            if cands:
                v = r.choice(cands)
                self.hot.append(v)
                return "%s = %s" % (v, "1.5" if self.ty.get(v) == "int" else "1")
        if self.funcs and not self.in_nested and self.chance(0.12):
            u = 0.99
        if u < 0.30:
            v = self.pick_target()
            s = "%s = %d" % (v, r.choice([1, 2]))
            self.note_assign(v, depth, "int")
            return s
        if u < 0.44:
            v = self.pick_target()
            s = "%s = 1.5" % v
            self.note_assign(v, depth, "float")
            return s
        if u < 0.54:
            w = self.pick_read()
            v = self.pick_target()
            s = "%s = %s" % (v, w)
            self.note_assign(v, depth)
            return s
        if u < 0.63:
            w = self.pick_read()
            v = self.pick_target()
            s = "%s = %s + 1" % (v, w)
            self.note_assign(v, depth)
            return s
        if u < 0.71:
            cands = [x for x in (self.sure if self.chance(0.7) else self.seen)
                     if x in POOL or x in ("p", "q")]
            if self.in_nested:
                cands = [x for x in cands if x in ("p", "q")]
            if not cands:
                v = self.pick_target()
            else:
                v = r.choice(cands)
            self.note_assign(v, depth)
            return "%s += 1" % v
        if u < 0.90:
            return self.pick_read()
        if u < 0.93:
            return "pass"
        # call / use of a nested function
        if not self.in_nested and (self.funcs or (self.nested and self.chance(0.15))):
            g = r.choice(self.funcs) if self.funcs and self.chance(0.93) else r.choice(["g", "h"])
            if g not in self.funcs and not self.nested:
                return self.pick_read()
            if g not in self.funcs and self.nfuncs >= 2:
                return self.pick_read()
            if self.chance(0.65):
                v = self.pick_target()
                self.note_assign(v, depth)
                return "%s = %s(1)" % (v, g)
            return g
        if self.in_nested and self.chance(0.25):
            return self.in_nested  # bare recursive reference
        return self.pick_read()

    def jump(self, in_loop):
        r = self.r
        if in_loop and self.chance(0.7):
            return r.choice(["break", "continue", "break"])
        return r.choice(["return 0", "return 0", "return n"])

    def block(self, depth, in_loop, n, force_exit=False):
        """Generates a list of source lines (relative indentation) with about n
        statements; force_exit = the block must contain a break/return."""
        lines = []
        count = 0
        jumped = False
        while count < n:
            count += 1
            self.budget -= 1
            lines += self.statement(depth, in_loop)
            last = lines[-1].strip()
            top_jump = lines[-1].startswith(("return", "break", "continue")) and not lines[-1].startswith(IND)
            if top_jump:
                jumped = True
                if not self.chance(0.12 if last.startswith("return") else 0.08):
                    break
                n = min(n + 1, count + self.r.choice([1, 1, 2]))
        if force_exit and not jumped:
            j = "break" if (in_loop and self.chance(0.75)) else "return 0"
            if self.chance(0.5) and depth < MAX_DEPTH:
                lines += ["if %s:" % self.cond(allow_const=False), IND + j]
            else:
                lines += [j]
        if not lines:
            lines = ["pass"]
        return lines

    def sub(self, depth, in_loop, force_exit=False):
        n = self.r.choice([1, 1, 2, 2, 3])
        n = max(1, min(n, self.budget))
        saved_sure = list(self.sure)
        body = self.block(depth, in_loop, n, force_exit)
        if self.exprs and not self.in_nested and self.chance(0.16):
            v = self.r.choices(POOL, POOL_W)[0]
            body = ["ys = array(%s for %s in range(3))" % (self.r.choice([v, v + " + 1", v + " + n"]), v)] + body
        self.sure = saved_sure  # nothing inside a compound is "sure"
        return [IND + l for l in body]

    def statement(self, depth, in_loop):
        r = self.r
        can_nest = depth < MAX_DEPTH and self.budget > 0
        u = r.random()
        if in_loop and can_nest and self.chance(0.15):
            return self.gen_while(depth) if self.chance(0.5) else self.gen_for(depth)
        if can_nest and u < 0.20:
            return self.gen_if(depth, in_loop)
        if can_nest and u < 0.27:
            return self.gen_while(depth)
        if can_nest and u < 0.34:
            return self.gen_for(depth)
        if (can_nest and u < (0.41 if self.nfuncs == 0 else 0.44) and self.nested
                and not self.in_nested and self.nfuncs < 2):
            return self.gen_def(depth)
        if u < 0.47 and (depth > 0 or self.chance(0.25)):
            return [self.jump(in_loop)]
        return [self.simple(depth)]

    def gen_if(self, depth, in_loop):
        r = self.r
        # frequently: the same variable gets an int in one branch and a float (or
        # nothing) in the other
        lines = ["if %s:" % self.cond()]
        if self.chance(0.5) and not self.in_nested:
            v = self.pick_target()
            a, b = r.choice([("1", "1.5"), ("1.5", "2"), ("1", "2"), ("1", None), ("1.5", "1"), ("1", "1.5")])
            saved = list(self.sure)
            lines.append(IND + "%s = %s" % (v, a))
            if self.chance(0.4):
                lines += self.sub(depth + 1, in_loop)
            if b is not None:
                lines.append("else:")
                lines.append(IND + "%s = %s" % (v, b))
                if self.chance(0.3):
                    lines += self.sub(depth + 1, in_loop)
            self.sure = saved
            self.note_assign(v, depth if b is not None else depth + 1)
            self.budget -= 2
            if a != b and b is not None and (a == "1.5" or b == "1.5"):
                self.hot.append(v)
            if self.chance(0.6):
                lines.append(r.choice(["%s", "%s", "y = %s", "z = %s + 1", "%s += 1"]) % v)
            return lines
        lines += self.sub(depth + 1, in_loop)
        if self.chance(0.25):
            lines.append("elif %s:" % self.cond())
            lines += self.sub(depth + 1, in_loop)
        if self.chance(0.5):
            lines.append("else:")
            lines += self.sub(depth + 1, in_loop)
        return lines

    def guarded_jump(self, body, depth):
        """With some probability put `if <cond>: break|continue` at the start or the end of a
        loop body (jumps under an if inside a loop, also of inner loops)."""
        if depth + 1 < MAX_DEPTH and self.chance(0.4):
            j = self.r.choice(["break", "continue", "break"])
            g = [IND + "if %s:" % self.cond(allow_const=False), IND + IND + j]
            self.budget -= 1
            return g + body if self.chance(0.4) else body + g
        return body

    def gen_while(self, depth):
        c = self.cond()
        if c in ("True", "not False"):
            return ["while %s:" % c] + self.guarded_jump(self.sub(depth + 1, True, force_exit=True), depth)
        return ["while %s:" % c] + self.guarded_jump(self.sub(depth + 1, True), depth)

    def gen_for(self, depth):
        i = self.r.choice(["i", "i", "j"])
        lines = ["for %s in range(3):" % i]
        if i not in self.loopvars_seen:
            self.loopvars_seen.append(i)
        body = self.guarded_jump(self.sub(depth + 1, True), depth)
        after = []
        if not self.in_nested and self.chance(0.3):
            # the loop variable read after the loop (unassigned when the loop body never ran)
            after = [self.r.choice(["%s", "y = %s", "z = %s + 1"]) % i]
        return lines + body + after

    def gen_def(self, depth):
        r = self.r
        name = "g" if "g" not in self.funcs else "h"
        if name in self.funcs:
            return [self.simple(depth)]
        self.nfuncs += 1
        # switch scope
        saved = (self.seen, self.sure, self.loopvars_seen)
        self.outer_seen = [x for x in self.seen if x not in ("i", "j")]
        self.outer_sure = list(self.sure)
        if self.chance(0.3):
            # make captures of not-yet/maybe assigned variables a bit more likely
            self.outer_seen = self.outer_seen + [r.choices(POOL, POOL_W)[0]]
        self.seen, self.sure, self.loopvars_seen = [], [], []
        self.in_nested = name
        n = max(1, min(r.choice([1, 2, 2, 3, 4]), self.budget))
        self.base = depth + 1
        body = self.block(depth + 1, False, n)
        self.base = 0
        self.in_nested = None
        self.seen, self.sure, self.loopvars_seen = saved
        lines = ["def %s(k: int) -> int:" % name] + [IND + l for l in body] + [IND + "return 0"]
        self.funcs.append(name)
        if self.chance(0.35):
            # call the nested function right after its definition
            v = self.pick_target()
            self.note_assign(v, depth)
            lines.append("%s = %s(1)" % (v, name))
        return lines


def _max_indent(lines):
    m = 0
    for l in lines:
        k = (len(l) - len(l.lstrip(" "))) // 4
        m = max(m, k)
    return m


def gen_program(r, size=None, consts=False, nested=True, exprs=False):
    if size is None:
        size = r.choice([3, 4, 5, 6, 7, 8, 9, 10, 12, 14])
    size = max(1, int(size) - 3)
    while True:
        g = _Gen(r, size, consts, nested)
        g.exprs = exprs
        body = []
        # a few programs start with initialisations, so that accepted programs
        # stay common
        ninit = r.choice([0, 0, 1, 1, 2, 3])
        for _ in range(ninit):
            v = r.choices(POOL, POOL_W)[0]
            lit = r.choice(["1", "2", "1", "1.5"])
            body.append("%s = %s" % (v, lit))
            g.note_assign(v, 0, "float" if lit == "1.5" else "int")
        while g.budget > 0:
            g.budget -= 1
            st = g.statement(0, False)
            body += st
            if st[-1].startswith("return"):
                if g.chance(0.2) and g.budget > 0:
                    continue  # dead code follows
                body.pop()
                break
        nuse = r.choice([0, 1, 1, 2, 2])
        if body and body[-1].startswith("return"):
            nuse = 0
        for _ in range(nuse):
            if g.hot and g.chance(0.5):
                body.append(r.choice(g.hot))
            else:
                body.append(g.pick_read())
        # nesting depth of compound statements <= 3 (nested def bodies included)
        if _max_indent(body) > MAX_DEPTH:
            continue
        break
    lines = ["@guppy", "def f(c1: bool, c2: bool, n: int) -> int:"]
    lines += [IND + l for l in body]
    lines.append(IND + "return 0")
    return "\n".join(lines) + "\n"


def gen_many(seed, count, **kw):
    return [gen_program(random.Random("%s/%d" % (seed, i)), **kw) for i in range(count)]


if __name__ == "__main__":
    import sys
    seed = sys.argv[1] if len(sys.argv) > 1 else "0"
    cnt = int(sys.argv[2]) if len(sys.argv) > 2 else 5
    consts = len(sys.argv) > 3 and sys.argv[3] == "consts"
    for p in gen_many(seed, cnt, consts=consts):
        print(p)
        print("#" * 40)
