"""Implementation side of C08: run the REAL checker of the tree under test on programs and dump,
for every call of check_cfg (the top-level function and each nested function), the CFG the
checker received as per-block variable-event lists (extracted here from the block statements'
ASTs, independently of VariableVisitor), the real VariableStats / analysis results, and the
outcome (block signatures, or the error: class, variable, location).

stdin JSON : {"programs": [{"id":…, "src": "<function text, line 1 = '@guppy'>"}…], "dir": scratch}
stdout JSON: [{"id", "outcome": "ok"|"error"|"other-error"|"crash", "error": {...},
               "instances": [ {...} ]}]
Nothing in the repo is edited: func_checker.check_cfg and linearity_checker.check_cfg_linearity
are wrapped in this process only (observation hooks; the wrapped functions run unchanged)."""
import ast
import importlib.util
import json
import os
import sys
import traceback

req = json.load(sys.stdin)

import repo_shim  # noqa: E402,F401
import guppylang  # noqa: E402
from guppylang_internals.error import GuppyError  # noqa: E402
from guppylang_internals.span import to_span  # noqa: E402
from guppylang_internals.nodes import (  # noqa: E402
    NestedFunctionDef, MakeIter, IterNext, DesugaredListComp, DesugaredArrayComp, DesugaredGeneratorExpr)
import guppylang_internals.checker.func_checker as fc  # noqa: E402
import guppylang_internals.checker.cfg_checker as cc  # noqa: E402
import guppylang_internals.checker.linearity_checker as lc  # noqa: E402

guppylang.enable_experimental_features()

HEADER = "from guppylang import guppy\nfrom guppylang.std.builtins import *\n"
HLINES = 2
KNOWN_FUNCS = {"g", "h"}           # nested functions of the generated fragment return int


class Unmodelled(Exception):
    pass


def pos(node):
    sp = to_span(node)
    return [sp.start.line - HLINES, sp.start.column]


COMPS = (DesugaredListComp, DesugaredArrayComp, DesugaredGeneratorExpr)


def names_in(node, bound=frozenset(), flag=None):
    """(Name node, in_comprehension) read by an expression, in evaluation order (field order of
    the AST).  Names bound inside a comprehension (loop targets, iterator temporaries) are local
    to it: reads of them are not external uses (own code, independent of VariableVisitor)."""
    if isinstance(node, ast.Name):
        return [] if node.id in bound else [(node, flag)]
    if isinstance(node, COMPS):
        gens = [node.generator] if isinstance(node, DesugaredArrayComp) else list(node.generators)
        b = set(bound)
        out = []
        for g in gens:
            out += names_in(g.iter_assign.value, frozenset(b), "comp")
            for t in g.iter_assign.targets:
                b |= {n.id for n in ast.walk(t) if isinstance(n, ast.Name)}
            out += names_in(g.next_call, frozenset(b), "comp")
            b |= {n.id for n in ast.walk(g.target) if isinstance(n, ast.Name)}
            for c in g.ifs:
                out += names_in(c, frozenset(b), "comp")
        out += names_in(node.elt, frozenset(b), "comp")
        return out
    out = []
    for ch in ast.iter_child_nodes(node):
        out += names_in(ch, bound, flag)
    return out


def has_comp(node):
    return any(isinstance(n, COMPS) for n in ast.walk(node))


def is_local(x, local_names):
    return x in local_names


def rhs_of(value, local_names):
    """('lit', tyname) | ('copy', y) for the value of an assignment; fail closed."""
    if isinstance(value, ast.Constant):
        if isinstance(value.value, bool):
            return ("lit", "bool")
        if isinstance(value.value, int):
            return ("lit", "int")
        if isinstance(value.value, float):
            return ("lit", "float")
        raise Unmodelled(f"constant {value.value!r}")
    if isinstance(value, ast.Name):
        return ("copy", value.id) if is_local(value.id, local_names) else ("lit", "glob:" + value.id)
    if (isinstance(value, ast.BinOp) and isinstance(value.op, ast.Add | ast.Mult | ast.Sub)
            and isinstance(value.left, ast.Name) and isinstance(value.right, ast.Constant)
            and type(value.right.value) is int):
        if not is_local(value.left.id, local_names):
            return ("lit", "glob:" + value.left.id)
        return ("copy", value.left.id)
    if (isinstance(value, ast.Call) and isinstance(value.func, ast.Name)
            and value.func.id in KNOWN_FUNCS and all(isinstance(a, ast.Constant) for a in value.args)):
        return ("lit", "int")
    if isinstance(value, COMPS) or (isinstance(value, ast.Call) and has_comp(value)):
        return ("lit", "comp")
    if isinstance(value, ast.Compare) or (isinstance(value, ast.UnaryOp) and isinstance(value.op, ast.Not)):
        return ("lit", "bool")
    if isinstance(value, MakeIter):
        return ("lit", "Range")
    if isinstance(value, IterNext):
        return ("lit", "Option[(int, Range)]")
    raise Unmodelled("rhs " + ast.dump(value)[:80])


def stmt_events(node, local_names, nested_out):
    """[('use', x, [pos…]) | ('assign', x, rhs)] for one BB statement."""
    ev = []

    def uses(e):
        for n, fl in names_in(e):
            if fl:
                ev.append(("use", n.id, [pos(n)], "nested"))   # read inside a comprehension
            else:
                ev.append(("use", n.id, [pos(n)]))

    if isinstance(node, NestedFunctionDef):
        inner = extract_cfg(node.cfg, [a.arg for a in node.args.args], nested_out)
        nested_out.append({"name": node.name, "line": node.lineno - HLINES})
        skip = {node.name} | {a.arg for a in node.args.args}
        for x, poss in inner["live_entry"]:
            if x not in skip:
                ev.append(("use", x, poss, "nested"))
        ev.append(("assign", node.name, ("lit", "fun:" + str(node.ty))))
    elif isinstance(node, ast.Assign):
        if len(node.targets) != 1:
            raise Unmodelled("multi-target assign")
        t = node.targets[0]
        uses(node.value)
        if isinstance(t, ast.Name):
            ev.append(("assign", t.id, rhs_of(node.value, local_names)))
        elif isinstance(t, ast.Tuple) and len(t.elts) == 2 and all(isinstance(e, ast.Name) for e in t.elts) \
                and isinstance(node.value, ast.Call) and isinstance(node.value.func, ast.Attribute) \
                and node.value.func.attr == "unwrap":
            # for-loop template:  x, it = res.unwrap()   (range elements are ints)
            ev.append(("assign", t.elts[0].id, ("lit", "int")))
            ev.append(("assign", t.elts[1].id, ("lit", "Range")))
        else:
            raise Unmodelled("assign target " + ast.dump(t)[:60])
    elif isinstance(node, ast.AugAssign):
        if not isinstance(node.target, ast.Name):
            raise Unmodelled("augassign")
        uses(node.value)
        ev.append(("use", node.target.id, [pos(node.target)]))
        ev.append(("assign", node.target.id, ("copy", node.target.id)))
    elif isinstance(node, ast.Expr):
        uses(node.value)
    elif isinstance(node, ast.Return):
        if node.value is not None:
            uses(node.value)
    else:
        raise Unmodelled("statement " + type(node).__name__)
    return ev


def assigned_names(cfg):
    out = set()
    for bb in cfg.bbs:
        for s in bb.statements:
            if isinstance(s, NestedFunctionDef):
                out.add(s.name)
            elif isinstance(s, ast.Assign):
                for t in s.targets:
                    for n in ast.walk(t):
                        if isinstance(n, ast.Name):
                            out.add(n.id)
            elif isinstance(s, ast.AugAssign | ast.AnnAssign):
                for n in ast.walk(s.target):
                    if isinstance(n, ast.Name):
                        out.add(n.id)
    return out


def block_stats(events):
    """first-use positions and assigned names of a block, from the event list (own code)."""
    used, assigned = {}, []
    for e in events:
        if e[0] == "use":
            if e[1] not in assigned and e[1] not in used:
                used[e[1]] = list(e[2])
            elif e[1] not in assigned and len(e) > 3 and used.get(e[1]) is not None:
                # visit_NestedFunctionDef does `stats.used |= {...}`: the recorded use NODE of an
                # already used name is replaced by the read inside the nested function (location only)
                used[e[1]] = used[e[1]] + [q for q in e[2] if q not in used[e[1]]]
        else:
            if e[2][0] == "copy" and e[2][1] not in assigned and e[2][1] not in used:
                used[e[2][1]] = None     # position filled by the preceding explicit use event
            if e[1] not in assigned:
                assigned.append(e[1])
    return used, assigned


def extract_cfg(cfg, input_names, nested_out):
    idx = {bb: i for i, bb in enumerate(cfg.bbs)}
    for bb, i in idx.items():
        if bb.idx != i:
            raise Unmodelled("bb.idx != position")
    local_names = set(input_names) | assigned_names(cfg)
    blocks = []
    for bb in cfg.bbs:
        evs = []
        for s in bb.statements:
            evs += stmt_events(s, local_names, nested_out)
        if bb.branch_pred is not None:
            for n, _fl in names_in(bb.branch_pred):
                evs.append(("use", n.id, [pos(n)]))
        # an explicit use event precedes every copy, so that positions are known
        fixed = []
        for e in evs:
            fixed.append(e)
        used, assigned = block_stats(fixed)
        blocks.append({"succ": [idx[s] for s in bb.successors],
                       "dsucc": [idx[s] for s in bb.dummy_successors],
                       "pred": sorted(idx[s] for s in bb.predecessors),
                       "dpred": sorted(idx[s] for s in bb.dummy_predecessors),
                       "reachable": bool(bb.reachable),
                       "events": fixed,
                       "first_use": {x: p for x, p in used.items() if p is not None},
                       "my_used": list(used), "my_assigned": assigned})
    # variables live at the entry + the positions of the reads that make them live
    # (own search over real AND dummy edges: dead code of a nested function is checked too,
    #  so what it reads is captured — the code after fix-2.patch)
    n = len(blocks)
    live_entry = []
    allv = []
    for b in blocks:
        for x in b["my_used"]:
            if x not in allv:
                allv.append(x)
    for x in allv:
        seen, todo, poss = set(), [0], []
        while todo:
            b = todo.pop()
            if b in seen:
                continue
            seen.add(b)
            if x in blocks[b]["my_used"]:
                for p in blocks[b]["first_use"].get(x, []):
                    if p not in poss:
                        poss.append(p)
            if x not in blocks[b]["my_assigned"]:
                todo += blocks[b]["succ"] + blocks[b]["dsucc"]
        if poss:
            live_entry.append((x, sorted(poss)))
    return {"blocks": blocks, "live_entry": live_entry, "exit": idx[cfg.exit_bb], "entry": idx[cfg.entry_bb],
            "local_names": sorted(local_names)}


# ------------------------------------------------------------------ observation hooks
LOG = []           # instances of the current program
_orig_check_cfg = cc.check_cfg
_orig_lin = lc.check_cfg_linearity


def hooked_check_cfg(cfg, inputs, return_ty, generic_params, func_name, globals):
    inst = {"func": func_name, "inputs": [[v.name, str(v.ty)] for v in inputs]}
    LOG.append(inst)
    try:
        nested = []
        ex = extract_cfg(cfg, [v.name for v in inputs], nested)
        inst.update(blocks=ex["blocks"], exit=ex["exit"], entry=ex["entry"], nested=nested)
        names = set()
        for b in ex["blocks"]:
            names |= set(b["my_used"])
        inst["globals"] = sorted(x for x in names if x in globals or x in generic_params)
    except Unmodelled as e:
        inst["unmodelled"] = str(e)
    depth_before = len(LOG)
    try:
        res = _orig_check_cfg(cfg, inputs, return_ty, generic_params, func_name, globals)
        inst["result"] = "ok"
        return res
    except GuppyError as e:
        inner_failed = any(i.get("result") in ("error", "nested-error") for i in LOG[depth_before:])
        inst["result"] = "nested-error" if inner_failed else "error"
        raise
    finally:
        try:
            inst["real_used"] = [list(bb.vars.used.keys()) if bb._vars is not None else None for bb in cfg.bbs]
            inst["real_assigned"] = [list(bb.vars.assigned.keys()) if bb._vars is not None else None for bb in cfg.bbs]
            inst["real_live"] = [sorted(cfg.live_before[bb].keys()) if bb in cfg.live_before else None for bb in cfg.bbs]
            inst["real_def"] = [sorted(cfg.ass_before[bb]) if bb in cfg.ass_before else None for bb in cfg.bbs]
            inst["real_maybe"] = [sorted(cfg.maybe_ass_before[bb]) if bb in cfg.maybe_ass_before else None for bb in cfg.bbs]
            inst["real_as"] = sorted(cfg.assigned_somewhere)
        except Exception as e2:  # noqa: BLE001
            inst["dump_error"] = repr(e2)


def hooked_lin(checked_cfg, *a, **k):
    # checked_cfg : CheckedCFG[Variable]; find the instance it belongs to (innermost open one)
    for inst in reversed(LOG):
        if "result" not in inst and "sig" not in inst:
            try:
                inst["sig"] = {str(bb.idx): sorted([v.name, str(v.ty)] for v in bb.sig.input_row)
                               for bb in checked_cfg.bbs}
            except Exception as e:  # noqa: BLE001
                inst["sig_error"] = repr(e)
            break
    return _orig_lin(checked_cfg, *a, **k)


cc.check_cfg = hooked_check_cfg
fc.check_cfg = hooked_check_cfg
lc.check_cfg_linearity = hooked_lin

out = []
for n, p in enumerate(req["programs"]):
    path = os.path.join(req["dir"], f"c08_{os.getpid()}_{n}.py")
    with open(path, "w") as f:
        f.write(HEADER + p["src"])
    rec = {"id": p["id"]}
    LOG = []
    try:
        name = f"c08_{os.getpid()}_{n}"
        spec = importlib.util.spec_from_file_location(name, path)
        mod = importlib.util.module_from_spec(spec)
        sys.modules[name] = mod
        spec.loader.exec_module(mod)
        mod.f.check()
        rec["outcome"] = "ok"
    except GuppyError as e:
        er = e.error
        cls = type(er).__name__
        rec["outcome"] = "error" if cls in ("VarNotDefinedError", "VarMaybeNotDefinedError", "BranchTypeError") else "other-error"
        sp = to_span(er.span) if er.span is not None else None
        rec["error"] = {"cls": cls, "title": er.rendered_title if hasattr(er, "rendered_title") else getattr(er, "title", ""),
                        "var": getattr(er, "var", None) or getattr(er, "ident", None),
                        "line": sp.start.line - HLINES if sp else None,
                        "col": sp.start.column if sp else None,
                        "label": getattr(er, "rendered_span_label", None)}
    except Exception as e:  # noqa: BLE001
        rec["outcome"] = "crash"
        rec["error"] = {"cls": type(e).__name__, "msg": str(e)[:300], "tb": traceback.format_exc()[-1500:]}
    rec["instances"] = LOG
    out.append(rec)
    try:
        os.unlink(path)
    except OSError:
        pass
json.dump(out, sys.stdout)
