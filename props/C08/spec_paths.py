"""C08 specification-side analyser (syntax only, stdlib only).

Exact collecting semantics over the Python *syntax* of one generated function
(see gen_progs.py): at every program point a SET of environments
(variable -> "U" | "int" | "float" | "bool" | "fun:<name>" | "P").  Branch
condition values are ignored (both outcomes possible); loops are iterated to a
fixpoint.  This module never imports guppylang and never looks at its CFG.

Flow state at a program point is one of
    None            no flow arrives here (directly after a jump)
    (False, envs)   LIVE flow carrying the environment set `envs`
    (True,  envs)   DEAD flow (mode "const" only)
Join:  None is neutral; live beats dead (environments leaving a dead region
never flow back into live code); otherwise union of the environment sets.

mode="strict": literal conditions are ordinary conditions; code after a jump
    (return/break/continue, or an `if` all of whose branches jump) in the same
    statement list is not analysed at all.
mode="const":  `True`/`False`/`not True`/`not False` conditions only take the
    real outcome; the other branch is entered as DEAD flow with the environments
    at the branch.  A statement following a statement with no exit flow is
    entered as DEAD flow with the environments that were flowing at the START of
    that preceding statement (for `return e` / `break` / `continue` this is
    "the environments just before the jump"; for an `if` whose branches all jump
    it is the environments at the `if` condition).  `while True:` exits with
    DEAD flow carrying the loop-head environments unless a live `break` exists.

Public interface:  analyse(src, mode="const") -> dict ;  verdict(res) -> str
"""
import ast

MODULE_NAMES = {
    "guppy", "range", "int", "float", "bool", "len", "abs", "True", "False", "None", "array",
}

U = "U"
P = "P"


def _is_proper(v):
    return v not in (U, P)


def const_cond(e):
    """Literal truth value of a condition (True/False/not .../nested nots) or None."""
    if isinstance(e, ast.Constant) and isinstance(e.value, bool):
        return e.value
    if isinstance(e, ast.UnaryOp) and isinstance(e.op, ast.Not):
        c = const_cond(e.operand)
        return None if c is None else (not c)
    return None


def _assigned_names(body):
    """Names bound in a function body (Python scoping, not entering nested defs)."""
    out = []

    def tgt(t):
        if isinstance(t, ast.Name):
            if t.id not in out:
                out.append(t.id)
        elif isinstance(t, (ast.Tuple, ast.List)):
            for x in t.elts:
                tgt(x)
        elif isinstance(t, ast.Starred):
            tgt(t.value)

    def walk(stmts):
        for s in stmts:
            if isinstance(s, ast.Assign):
                for t in s.targets:
                    tgt(t)
            elif isinstance(s, (ast.AugAssign, ast.AnnAssign)):
                tgt(s.target)
            elif isinstance(s, ast.For):
                tgt(s.target)
                walk(s.body)
                walk(s.orelse)
            elif isinstance(s, (ast.While, ast.If)):
                walk(s.body)
                walk(s.orelse)
            elif isinstance(s, ast.FunctionDef):
                if s.name not in out:
                    out.append(s.name)

    walk(body)

    def walrus(stmts):
        for st in stmts:
            if isinstance(st, ast.FunctionDef):
                continue
            todo = [st]
            while todo:
                n = todo.pop()
                if isinstance(n, ast.FunctionDef) and n is not st:
                    continue
                if isinstance(n, ast.NamedExpr) and n.target.id not in out:
                    out.append(n.target.id)
                todo += list(ast.iter_child_nodes(n))
    walrus(body)
    return out


def _name_loads(e):
    """Name nodes read by expression e, in source order."""
    ns = [n for n in ast.walk(e) if isinstance(n, ast.Name) and isinstance(n.ctx, ast.Load)]
    ns.sort(key=lambda n: (n.lineno, n.col_offset))
    return ns


class _Recorder:
    """Collects, per read occurrence, the set of values seen."""

    def __init__(self):
        # key: (ctx, var, (line, col), dead) -> set of values ; ctx separates the
        # separate analyses of a nested body
        self.reads = {}
        # key: (ctx, var, (defline, defcol), dead) -> [set of values, set of positions]
        self.defreads = {}
        self.globals_undef = set()  # (var, pos, dead)
        self.dead_stmt = False
        self.skipped_stmt = False

    def read(self, ctx, var, pos, dead, val):
        self.reads.setdefault((ctx, var, pos, dead), set()).add(val)

    def defread(self, ctx, var, dpos, dead, val, positions):
        ent = self.defreads.setdefault((ctx, var, dpos, dead), [set(), set()])
        ent[0].add(val)
        ent[1].update(positions)


class _Func:
    def __init__(self, node, top_name, parent, rec, mode, ctx, captured_vals=None):
        self.node = node
        self.top_name = top_name
        self.parent = parent
        self.rec = rec
        self.mode = mode
        self.ctx = ctx
        self.params = [a.arg for a in node.args.args]
        self.locals = list(self.params)
        for x in _assigned_names(node.body):
            if x not in self.locals:
                self.locals.append(x)
        self.captured_vals = dict(captured_vals or {})
        self.vars = self.locals + [x for x in self.captured_vals if x not in self.locals]
        self.idx = {x: i for i, x in enumerate(self.vars)}
        self.loops = []
        self.comp_scope = []
        # non-local reads of enclosing-function locals reached in this body:
        # var -> {pos: set of dead flags}
        self.outer_reads = {}
        self.nested_memo = {}

    # ---- environments -------------------------------------------------
    def entry_env(self):
        env = []
        for x in self.vars:
            if x in self.params:
                ann = None
                for a in self.node.args.args:
                    if a.arg == x:
                        ann = a.annotation
                t = ann.id if isinstance(ann, ast.Name) and ann.id in ("int", "float", "bool") else "int"
                env.append(t)
            elif x in self.locals:
                env.append(U)
            else:
                v = self.captured_vals[x]
                env.append(P if v == U else v)
        return tuple(env)

    def set(self, env, x, v):
        i = self.idx[x]
        if env[i] == v:
            return env
        return env[:i] + (v,) + env[i + 1:]

    # ---- reads / expressions -------------------------------------------
    def read_name(self, n, env, dead):
        """Value of reading Name node n in env; records violations."""
        x = n.id
        pos = (n.lineno, n.col_offset)
        if x in self.locals:
            v = env[self.idx[x]]
            self.rec.read(self.ctx, x, pos, dead, v)
            return P if v == U else v
        if self.parent is not None and x == self.node.name:
            return "fun:" + x  # recursion: known global
        if self.parent is not None and x in self.parent.locals:
            self.outer_reads.setdefault(x, {}).setdefault(pos, set()).add(dead)
            if x in self.idx:
                return env[self.idx[x]]
            return P
        if x == self.top_name or x in MODULE_NAMES:
            return "global"
        self.rec.globals_undef.add((x, pos, dead))
        return P

    def evalx(self, e, env, dead):
        """Evaluates expression e in env following Python's evaluation order; every short-circuit /
        conditional outcome is possible.  Returns a list of (env after, type): assignment
        expressions bind in the enclosing function scope at the point they are evaluated;
        comprehension variables are local to the comprehension."""
        if isinstance(e, ast.Constant):
            if isinstance(e.value, bool):
                return [(env, "bool")]
            if isinstance(e.value, int):
                return [(env, "int")]
            if isinstance(e.value, float):
                return [(env, "float")]
            return [(env, P)]
        if isinstance(e, ast.Name):
            if e.id in self.comp_scope:
                return [(env, "int")]
            return [(env, self.read_name(e, env, dead))]
        if isinstance(e, ast.NamedExpr):
            out = []
            for env1, v in self.evalx(e.value, env, dead):
                v1 = P if v == "global" else v
                out.append((self.set(env1, e.target.id, v1), v1))
            return out
        if isinstance(e, ast.BinOp):
            out = []
            for env1, l in self.evalx(e.left, env, dead):
                for env2, r in self.evalx(e.right, env1, dead):
                    t = P if (l == P or r == P) else ("float" if "float" in (l, r) else l)
                    out.append((env2, t))
            return out
        if isinstance(e, ast.UnaryOp):
            return [(env1, "bool" if isinstance(e.op, ast.Not) else v) for env1, v in self.evalx(e.operand, env, dead)]
        if isinstance(e, ast.Compare):
            # a op b op c ...: operands left to right; the chain stops at the first false comparison
            cur = self.evalx(e.left, env, dead)
            cur = [(env2, "bool") for env1, _ in cur for env2, _ in self.evalx(e.comparators[0], env1, dead)]
            out = list(cur)
            for c in e.comparators[1:]:
                cur = [(env2, "bool") for env1, _ in cur for env2, _ in self.evalx(c, env1, dead)]
                out += cur
            return out
        if isinstance(e, ast.BoolOp):
            return [(env1, "bool") for env1, _ in self.evalc(e, env, dead)]
        if isinstance(e, ast.IfExp):
            out = []
            for env1, t in self.evalc(e.test, env, dead):
                out += self.evalx(e.body if t else e.orelse, env1, dead)
            st0 = self.static_truth(e.test) if self.mode == "const" else None
            if st0 is not None:
                self.evalx(e.orelse if st0 else e.body, env, True)
                self.rec.dead_stmt = True
            return out
        if isinstance(e, (ast.ListComp, ast.GeneratorExp)):
            cur = [env]
            names = []
            for k, g in enumerate(e.generators):
                cur = [env2 for env1 in cur for env2, _ in self.evalx(g.iter, env1, dead)]
                for n in ast.walk(g.target):
                    if isinstance(n, ast.Name):
                        names.append(n.id)
                        self.comp_scope.append(n.id)
                for c in g.ifs:
                    for env1 in cur:
                        self.evalx(c, env1, dead)
            for env1 in cur:
                self.evalx(e.elt, env1, dead)      # reads only; nothing bound inside escapes
            for _ in names:
                self.comp_scope.pop()
            return [(env1, "comp") for env1 in cur]
        if isinstance(e, ast.Call):
            cur = self.evalx(e.func, env, dead)
            comp = False
            for a in e.args:
                nxt = []
                for env1, _ in cur:
                    for env2, t in self.evalx(a, env1, dead):
                        comp = comp or t == "comp"
                        nxt.append((env2, t))
                cur = nxt
            return [(env1, "comp" if comp else "int") for env1, _ in cur]
        for n in _name_loads(e):
            self.read_name(n, env, dead)
        return [(env, P)]

    def evalc(self, e, env, dead):
        """Evaluates e as a CONDITION: list of (env after, truth outcome).  The outcome of a leaf
        comparison / name is free (both True and False), but the short-circuit structure is kept:
        `a or b` is True without evaluating b when a is True, `a and b` is False without
        evaluating b when a is False, `not` flips, a conditional expression picks its arm."""
        if isinstance(e, ast.BoolOp):
            is_and = isinstance(e.op, ast.And)
            cur = [(env, None)]
            out = []
            for k, v in enumerate(e.values):
                nxt = []
                for env1, _ in cur:
                    for env2, t in self.evalc(v, env1, dead):
                        if k == len(e.values) - 1:
                            out.append((env2, t))
                        elif t == (not is_and):
                            out.append((env2, t))       # short-circuit: decided
                        else:
                            nxt.append((env2, t))
                if self.mode == "const" and self.static_truth(v) == (not is_and) and k < len(e.values) - 1:
                    # decided by a literal constant: the remaining operands are DEAD code (still
                    # checked for undefined reads, as the compiler does; nothing they bind flows on)
                    for env1, _ in cur:
                        for rest in e.values[k + 1:]:
                            self.evalx(rest, env1, True)
                    self.rec.dead_stmt = True
                cur = nxt
            return out
        if isinstance(e, ast.UnaryOp) and isinstance(e.op, ast.Not):
            return [(env1, not t) for env1, t in self.evalc(e.operand, env, dead)]
        if isinstance(e, ast.IfExp):
            out = []
            for env1, t in self.evalc(e.test, env, dead):
                out += self.evalc(e.body if t else e.orelse, env1, dead)
            st = self.static_truth(e.test) if self.mode == "const" else None
            if st is not None:
                self.evalx(e.orelse if st else e.body, env, True)
                self.rec.dead_stmt = True
            return out
        if isinstance(e, ast.Constant) and isinstance(e.value, bool) and self.mode == "const":
            return [(env, e.value)]
        out = []
        for env1, _ in self.evalx(e, env, dead):
            out.append((env1, True))
            out.append((env1, False))
        return out

    def static_truth(self, e):
        """Truth value of a condition that is decided by literal constants alone, else None."""
        if isinstance(e, ast.Constant) and isinstance(e.value, bool):
            return e.value
        if isinstance(e, ast.UnaryOp) and isinstance(e.op, ast.Not):
            v = self.static_truth(e.operand)
            return None if v is None else (not v)
        if isinstance(e, ast.BoolOp):
            is_and = isinstance(e.op, ast.And)
            for v in e.values:
                t = self.static_truth(v)
                if t is None:
                    return None
                if t == (not is_and):
                    return t
            return is_and
        if isinstance(e, ast.IfExp):
            t = self.static_truth(e.test)
            return None if t is None else self.static_truth(e.body if t else e.orelse)
        return None

    def cond_states(self, e, st):
        """(state when e is true, state when e is false)."""
        t, f = set(), set()
        for env in st[1]:
            for env1, o in self.evalc(e, env, st[0]):
                (t if o else f).add(env1)
        return (st[0], frozenset(t)), (st[0], frozenset(f))

    def eval(self, e, env, dead):
        """Type of e in env (first outcome); kept for callers that only need the reads."""
        return self.evalx(e, env, dead)[0][1]

    def eval_state(self, e, st):
        """The flow state after evaluating e (bindings made by assignment expressions)."""
        out = set()
        for env in st[1]:
            for env1, _ in self.evalx(e, env, st[0]):
                out.add(env1)
        return (st[0], frozenset(out))

    def reads_only(self, e, st):
        self.eval_state(e, st)

    # ---- states ----------------------------------------------------------
    @staticmethod
    def join(*sts):
        sts = [s for s in sts if s is not None]
        if not sts:
            return None
        live = [s for s in sts if not s[0]]
        use = live if live else sts
        envs = frozenset().union(*(s[1] for s in use))
        return (not live, envs)

    # ---- statements --------------------------------------------------------
    def block(self, stmts, st):
        anchor = None
        for s in stmts:
            if st is None:
                if self.mode == "strict":
                    self.rec.skipped_stmt = True
                    return None
                st = (True, anchor)
            if st[0]:
                self.rec.dead_stmt = True
            anchor = st[1]
            st = self.stmt(s, st)
        return st

    def stmt(self, s, st):
        dead, envs = st
        if isinstance(s, ast.Pass):
            return st
        if isinstance(s, ast.Expr):
            return self.eval_state(s.value, st)
        if isinstance(s, ast.Assign):
            out = set()
            for env in envs:
                for env1, v in self.evalx(s.value, env, dead):
                    if v == "global":
                        v = P
                    e2 = env1
                    for t in s.targets:
                        for n in ast.walk(t):
                            if isinstance(n, ast.Name):
                                e2 = self.set(e2, n.id, v)
                    out.add(e2)
            return (dead, frozenset(out))
        if isinstance(s, ast.AugAssign):
            out = set()
            for env in envs:
                for env1, _ in self.evalx(s.value, env, dead):
                    tv = self.read_name(ast.copy_location(ast.Name(id=s.target.id, ctx=ast.Load()), s.target), env1, dead)
                    out.add(self.set(env1, s.target.id, tv))
            return (dead, frozenset(out))
        if isinstance(s, ast.Return):
            if s.value is not None:
                self.reads_only(s.value, st)
            return None
        if isinstance(s, ast.Break):
            self.loops[-1]["breaks"].append(st)
            return None
        if isinstance(s, ast.Continue):
            self.loops[-1]["continues"].append(st)
            return None
        if isinstance(s, ast.If):
            return self.do_if(s, st)
        if isinstance(s, ast.While):
            return self.do_while(s, st)
        if isinstance(s, ast.For):
            return self.do_for(s, st)
        if isinstance(s, ast.FunctionDef):
            return self.do_def(s, st)
        raise ValueError("statement outside the C08 fragment: %s" % type(s).__name__)

    def branch_states(self, test, st):
        """(flow into the true branch, flow into the false branch) of a condition.  An outcome that no
        evaluation of the condition can produce (it is decided by literal constants, mode "const")
        makes that branch DEAD code: it is entered as dead flow with the environments in which the
        condition was decided (= after everything that IS evaluated), like every never-taken edge."""
        st_t, st_f = self.cond_states(test, st)
        if self.mode == "const":
            if not st_t[1] and st_f[1]:
                st_t = (True, st_f[1])
            elif not st_f[1] and st_t[1]:
                st_f = (True, st_t[1])
        return st_t, st_f

    def do_if(self, s, st):
        then_in, else_in = self.branch_states(s.test, st)
        t = self.block(s.body, then_in)
        e = self.block(s.orelse, else_in)
        return self.join(t, e)

    def do_while(self, s, st):
        head = st
        while True:
            body_in, _ = self.branch_states(s.test, head)
            self.loops.append({"breaks": [], "continues": []})
            out = self.block(s.body, body_in)
            lp = self.loops.pop()
            new_head = self.join(st, out, *lp["continues"])
            if new_head == head:
                break
            head = new_head
        _, exit_st = self.branch_states(s.test, head)
        return self.join(exit_st, *lp["breaks"])

    def do_for(self, s, st):
        self.reads_only(s.iter, st)
        head = st
        while True:
            body_in = (head[0], frozenset(self._bind(s.target, env) for env in head[1]))
            self.loops.append({"breaks": [], "continues": []})
            out = self.block(s.body, body_in)
            lp = self.loops.pop()
            new_head = self.join(st, out, *lp["continues"])
            if new_head == head:
                break
            head = new_head
        return self.join(head, *lp["breaks"])

    def _bind(self, target, env):
        for n in ast.walk(target):
            if isinstance(n, ast.Name):
                env = self.set(env, n.id, "int")
        return env

    def do_def(self, s, st):
        dead, envs = st
        parent_locals = self.locals
        # which enclosing locals does the body mention at all (syntactically)?
        own = set(a.arg for a in s.args.args) | set(_assigned_names(s.body))
        mentioned = []
        for n in ast.walk(s):
            if isinstance(n, ast.Name) and isinstance(n.ctx, ast.Load):
                x = n.id
                if x not in own and x != s.name and x in parent_locals and x not in mentioned:
                    mentioned.append(x)
        out = set()
        dpos = (s.lineno, s.col_offset)
        for env in envs:
            cap = tuple((x, env[self.idx[x]]) for x in mentioned)
            key = (id(s), cap, dead)
            if key not in self.nested_memo:
                sub = _Func(s, self.top_name, self, self.rec, self.mode,
                            self.ctx + ((s.lineno, cap),), dict(cap))
                sub.run(dead)
                self.nested_memo[key] = sub.outer_reads
            reached = self.nested_memo[key]
            for x, _v in cap:
                if x not in reached:
                    continue
                poss = reached[x]
                # the capture read is live iff the def is live and some read of x
                # inside g is in live code of g
                rd_dead = dead or all(all(fl) for fl in poss.values())
                self.rec.defread(self.ctx, x, dpos, rd_dead, env[self.idx[x]], poss.keys())
            out.add(self.set(env, s.name, "fun:" + s.name))
        return (dead, frozenset(out))

    def run(self, dead=False):
        st = (dead, frozenset([self.entry_env()]))
        self.block(self.node.body, st)


def _features(fn):
    feats = set()
    body = fn.body
    for n in ast.walk(fn):
        if isinstance(n, ast.If):
            feats.add("if")
        elif isinstance(n, ast.While):
            feats.add("while")
        elif isinstance(n, ast.For):
            feats.add("for")
        elif isinstance(n, ast.Break):
            feats.add("break")
        elif isinstance(n, ast.Continue):
            feats.add("continue")
        elif isinstance(n, ast.AugAssign):
            feats.add("augassign")
        elif isinstance(n, ast.Assign) and isinstance(n.value, ast.Name):
            feats.add("copy")
        elif isinstance(n, ast.FunctionDef) and n is not fn:
            feats.add("nested")
        if isinstance(n, (ast.If, ast.While)) and const_cond(n.test) is not None:
            feats.add("const")
    finals = set()
    if body and isinstance(body[-1], ast.Return):
        finals.add(id(body[-1]))
    for n in ast.walk(fn):
        if isinstance(n, ast.FunctionDef) and n is not fn and n.body and isinstance(n.body[-1], ast.Return):
            finals.add(id(n.body[-1]))
    for n in ast.walk(fn):
        if isinstance(n, ast.Return) and id(n) not in finals:
            feats.add("return_mid")
    return feats


def _run(fn, mode):
    rec = _Recorder()
    top = _Func(fn, fn.name, None, rec, mode, ())
    top.run(False)
    return rec, top


def _collect(rec):
    """Turns the recorded reads into violation lists."""
    und = {}   # (dead, var, positions) -> maybe?
    conf = set()
    for (ctx, var, pos, dead), vals in rec.reads.items():
        key = (dead, var, (pos,))
        if U in vals:
            und[key] = und.get(key, False) or any(v != U for v in vals)
        if len([v for v in vals if _is_proper(v)]) >= 2:
            conf.add(key)
    for (ctx, var, dpos, dead), (vals, poss) in rec.defreads.items():
        key = (dead, var, tuple(sorted(poss)))
        if U in vals:
            und[key] = und.get(key, False) or any(v != U for v in vals)
        if len([v for v in vals if _is_proper(v)]) >= 2:
            conf.add(key)
    for (var, pos, dead) in rec.globals_undef:
        key = (dead, var, (pos,))
        und.setdefault(key, False)

    def fmt(items):
        items = sorted(items, key=lambda k: (k[2], k[1]))
        return [[k[1], [list(p) for p in k[2]]] for k in items], items

    res = {}
    lst, keys = fmt([k for k in und if not k[0]])
    res["undef"] = lst
    res["undef_kind"] = ["maybe" if und[k] else "never" for k in keys]
    lst, keys = fmt([k for k in und if k[0]])
    res["dead_undef"] = lst
    res["dead_undef_kind"] = ["maybe" if und[k] else "never" for k in keys]
    res["conflict"] = fmt([k for k in conf if not k[0]])[0]
    res["dead_conflict"] = fmt([k for k in conf if k[0]])[0]
    return res


def analyse(src, mode="const"):
    if mode not in ("const", "strict"):
        raise ValueError("mode must be 'const' or 'strict'")
    tree = ast.parse(src)
    fn = [s for s in tree.body if isinstance(s, ast.FunctionDef)][-1]
    rec, top = _run(fn, mode)
    res = _collect(rec)
    if mode == "const":
        has_dead = rec.dead_stmt
    else:
        rec2, _ = _run(fn, "const")
        has_dead = rec2.dead_stmt
    feats = _features(fn)
    if has_dead:
        feats.add("dead")
    # capture: some nested function reads a local of the enclosing function
    names = set(top.locals)
    nvars = len(top.locals)
    for n in ast.walk(fn):
        if isinstance(n, ast.FunctionDef) and n is not fn:
            own = set(a.arg for a in n.args.args) | set(_assigned_names(n.body))
            nvars += len(own)
            for m in ast.walk(n):
                if (isinstance(m, ast.Name) and isinstance(m.ctx, ast.Load)
                        and m.id not in own and m.id != n.name and m.id in names):
                    feats.add("capture")
    res["has_const"] = "const" in feats
    res["has_dead"] = has_dead
    res["nvars"] = nvars
    res["nstmts"] = sum(1 for n in ast.walk(fn) if isinstance(n, ast.stmt)) - 1
    res["features"] = sorted(feats)
    res["mode"] = mode
    return res


def verdict(res):
    if res["undef"] or res["dead_undef"]:
        return "undef"
    if res["conflict"]:
        return "types"
    return "ok"


if __name__ == "__main__":
    import json
    import sys
    progs = json.load(open(sys.argv[1]))
    mode = sys.argv[2] if len(sys.argv) > 2 else "const"
    if isinstance(progs, list):
        progs = {str(i): p for i, p in enumerate(progs)}
    for k, v in progs.items():
        r = analyse(v, mode)
        print(k, verdict(r), json.dumps({x: r[x] for x in
              ("undef", "undef_kind", "conflict", "dead_undef", "dead_undef_kind", "dead_conflict")}))
