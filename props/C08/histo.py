"""Per-construct histogram of generated programs (own AST walk; independent of spec_paths)."""
import ast

KEYS = ["if", "elif", "else", "while", "for", "break", "continue", "jump_under_if_in_loop",
        "nested_loop", "jump_in_inner_loop", "return_mid", "code_after_jump", "nested_def",
        "nested_def_reads_outer", "call_nested", "augassign", "copy_assign", "const_cond",
        "var_two_types", "loop_var_read_after_loop", "bare_use",
        "comprehension", "comprehension_shadows_outer_local", "comprehension_in_nested_block", "walrus",
        "walrus_control_flow_value", "walrus_in_condition", "conditional_expression", "and_or", "chained_comparison"]


def features(src):
    tree = ast.parse(src)
    f = tree.body[0]
    out = set()
    types = {}

    def walk(stmts, loops, under_if, in_nested, outer_locals):
        for k, s in enumerate(stmts):
            last = k == len(stmts) - 1
            if isinstance(s, ast.If):
                out.add("if")
                if s.orelse:
                    out.add("elif" if (len(s.orelse) == 1 and isinstance(s.orelse[0], ast.If)) else "else")
                if isinstance(s.test, ast.Constant) or (isinstance(s.test, ast.UnaryOp) and isinstance(s.test.operand, ast.Constant)):
                    out.add("const_cond")
                walk(s.body, loops, under_if + (1 if loops else 0), in_nested, outer_locals)
                walk(s.orelse, loops, under_if + (1 if loops else 0), in_nested, outer_locals)
            elif isinstance(s, ast.While | ast.For):
                out.add("while" if isinstance(s, ast.While) else "for")
                if isinstance(s, ast.While) and (isinstance(s.test, ast.Constant) or (isinstance(s.test, ast.UnaryOp) and isinstance(s.test.operand, ast.Constant))):
                    out.add("const_cond")
                if loops:
                    out.add("nested_loop")
                walk(s.body, loops + 1, 0, in_nested, outer_locals)
                if isinstance(s, ast.For):
                    v = s.target.id
                    for later in stmts[k + 1:]:
                        if any(isinstance(n, ast.Name) and n.id == v and isinstance(n.ctx, ast.Load) for n in ast.walk(later)):
                            out.add("loop_var_read_after_loop")
            elif isinstance(s, ast.Break | ast.Continue):
                out.add("break" if isinstance(s, ast.Break) else "continue")
                if under_if:
                    out.add("jump_under_if_in_loop")
                if loops >= 2:
                    out.add("jump_in_inner_loop")
                if not last:
                    out.add("code_after_jump")
            elif isinstance(s, ast.Return):
                if not last or loops or under_if or s is not f.body[-1]:
                    if s is not f.body[-1]:
                        out.add("return_mid")
                if not last:
                    out.add("code_after_jump")
            elif isinstance(s, ast.FunctionDef):
                out.add("nested_def")
                own = {a.arg for a in s.args.args} | {n.id for n in ast.walk(s) if isinstance(n, ast.Name) and isinstance(n.ctx, ast.Store)}
                if any(isinstance(n, ast.Name) and isinstance(n.ctx, ast.Load) and n.id in ("x", "y", "z", "w", "n", "c1", "c2") and n.id not in own
                       for n in ast.walk(s)):
                    out.add("nested_def_reads_outer")
                walk(s.body, 0, 0, True, outer_locals)
            elif isinstance(s, ast.AugAssign):
                out.add("augassign")
            elif isinstance(s, ast.Assign):
                v = s.value
                t = s.targets[0].id if isinstance(s.targets[0], ast.Name) else None
                if isinstance(v, ast.Name) or (isinstance(v, ast.BinOp) and isinstance(v.left, ast.Name)):
                    out.add("copy_assign")
                if isinstance(v, ast.Call):
                    out.add("call_nested")
                if isinstance(v, ast.Constant) and t and not in_nested:
                    types.setdefault(t, set()).add(type(v.value).__name__)
            elif isinstance(s, ast.Expr) and isinstance(s.value, ast.Name):
                out.add("bare_use")

    walk(f.body, 0, 0, False, set())
    assigned_outer = {n.id for n in ast.walk(f) if isinstance(n, ast.Name) and isinstance(n.ctx, ast.Store)}
    top = set(map(id, f.body))
    for st in ast.walk(f):
        if isinstance(st, (ast.ListComp, ast.GeneratorExp)):
            out.add("comprehension")
            tv = {n.id for g in st.generators for n in ast.walk(g.target) if isinstance(n, ast.Name)}
            outside = {n.id for n in ast.walk(f) if isinstance(n, ast.Name) and isinstance(n.ctx, ast.Store)
                       and not any(n in ast.walk(g.target) for g in st.generators)}
            if tv & outside:
                out.add("comprehension_shadows_outer_local")
        if isinstance(st, ast.NamedExpr):
            out.add("walrus")
            if any(isinstance(n, (ast.IfExp, ast.BoolOp)) or (isinstance(n, ast.Compare) and len(n.ops) > 1) for n in ast.walk(st.value)):
                out.add("walrus_control_flow_value")
        if isinstance(st, (ast.If, ast.While)) and any(isinstance(n, ast.NamedExpr) for n in ast.walk(st.test)):
            out.add("walrus_in_condition")
        if isinstance(st, ast.IfExp):
            out.add("conditional_expression")
        if isinstance(st, ast.BoolOp):
            out.add("and_or")
        if isinstance(st, ast.Compare) and len(st.ops) > 1:
            out.add("chained_comparison")
    for st in f.body:
        pass
    for st in ast.walk(f):
        if isinstance(st, (ast.If, ast.While, ast.For)):
            if any(isinstance(n, (ast.ListComp, ast.GeneratorExp)) for b in (st.body + st.orelse) for n in ast.walk(b)):
                out.add("comprehension_in_nested_block")
    if any(len(v) > 1 for v in types.values()):
        out.add("var_two_types")
    return out


def histogram(sources):
    h = {k: 0 for k in KEYS}
    for s in sources:
        for k in features(s):
            h[k] += 1
    n = max(1, len(sources))
    return {k: {"programs": v, "percent": round(100.0 * v / n, 1)} for k, v in h.items()}
