"""C08 — use-before-definition and path-dependent types are rejected exactly.

Theorem half: coq/C08 (CfgCheck.v executable model of check_cfg / check_bb / check_rows_match /
compute_variable_stats on top of C09's proved model of the analyses; Props.v the theorems).
Tie (X), checked on every run:
  1. corpus first, then seeded generated programs (gen_progs.py: two types, nested
     if/while/for/break/continue/return, dead code, literal-constant conditions, nested
     functions capturing outer variables);
  2. impl_check.py runs the REAL check() of the tree under test and records every call of
     check_cfg: the CFG the checker received (as variable events), VariableStats, analysis
     results, block signatures or the error (class, variable, location);
  3. the Coq model (vm_compute inside coqc) is run on the same CFGs and compared: stats,
     live/def/maybe sets, verdict, error class, variable, location, signatures;
  4. spec_paths.py — an exact path enumeration over the SOURCE SYNTAX, independent of model
     and CFG — is compared with the real verdict (the failing-input search: always run).
The model is of the code AFTER props/C08/fix-1.patch."""
import json
import os
import sys
from concurrent.futures import ThreadPoolExecutor
from pathlib import Path

import vlib
from vlib import proof_coverage

HERE = Path(__file__).resolve().parent
sys.path.insert(0, str(HERE))
import gen_progs  # noqa: E402
import histo  # noqa: E402
import spec_paths  # noqa: E402

LEVEL = "proof"
KEY_CONST = "interpretation:literal-constant-condition"
KEY_DEAD = "interpretation:dead-code-after-jump"


# ------------------------------------------------------------------------------- encoding
def coq_list(xs):
    return "[" + "; ".join(xs) + "]"


class Enc:
    """names / types of one check_cfg instance -> naturals"""

    def __init__(self, inst):
        names = set(x for x, _ in inst["inputs"]) | set(inst.get("globals", []))
        tys = set(t for _, t in inst["inputs"])
        for b in inst["blocks"]:
            for e in b["events"]:
                names.add(e[1])
                if e[0] == "assign":
                    if e[2][0] == "copy":
                        names.add(e[2][1])
                    else:
                        tys.add(e[2][1])
        self.names = sorted(names)
        self.tys = sorted(tys)
        self.n = {x: i for i, x in enumerate(self.names)}
        self.t = {x: i + 1 for i, x in enumerate(self.tys)}      # 0 = global_ty

    def ev(self, e):
        if e[0] == "use":
            return f"EUse {self.n[e[1]]}"       # (a 4th field marks reads made by a nested def)
        r = e[2]
        rhs = f"RCopy {self.n[r[1]]}" if r[0] == "copy" else f"RLit {self.t[r[1]]}"
        return f"EAssign {self.n[e[1]]} ({rhs})"

    def cfg(self, inst):
        bl = []
        for b in inst["blocks"]:
            bl.append("mkEB " + coq_list(map(str, b["succ"])) + " " + coq_list(map(str, b["dsucc"])) + " "
                      + coq_list(self.ev(e) for e in b["events"]))
        return coq_list(bl)

    def inputs(self, inst):
        return coq_list(f"({self.n[x]},{self.t[t]})" for x, t in inst["inputs"])

    def glob(self, inst):
        return coq_list(str(self.n[x]) for x in inst.get("globals", []))


def eval_instances(ctx, insts):
    """insts: list of (key, inst).  Returns key -> decoded observation."""
    files, order = {}, {}
    chunk = 45
    for c in range(0, len(insts), chunk):
        part = insts[c:c + chunk]
        body = ["From Coq Require Import List. Import ListNotations.",
                "From V.C08 Require Import CfgCheck Observe."]
        for k, (key, inst) in enumerate(part):
            enc = Enc(inst)
            body.append(f"Definition g{k} : ecfg := {enc.cfg(inst)}.")
            body.append(f"Eval vm_compute in (observe g{k} {enc.inputs(inst)} {enc.glob(inst)}).")
        name = f"ev{c // chunk}"
        files[name] = "\n".join(body) + "\n"
        order[name] = part
    outs = ctx.coq_eval_many(files, jobs=12)
    res = {}
    for name, part in order.items():
        vals = vlib.parse_coq_values(outs[name])
        if len(vals) != len(part):
            raise RuntimeError(f"model evaluation {name}: {len(vals)} values for {len(part)} cases")
        for (key, inst), v in zip(part, vals):
            enc = Enc(inst)
            code, site, vars_, cands, tcands, sig, (used, assigned), (live, dfn, maybe), (eu, uv) = v
            nm = enc.names
            ty = {i + 1: (t[4:] if t.startswith("fun:") else t) for i, t in enumerate(enc.tys)}
            ty[0] = "<global>"
            res[key] = {
                "code": code, "site": list(site), "vars": [nm[x] for x in vars_],
                "cands": [[bool(m), nm[x], u] for (m, x, u) in cands],
                "tcands": [[nm[x], u] for (x, u) in tcands],
                "sig": {str(b): sorted(set((nm[x], ty[t]) for (x, t) in row)) for (b, row) in sig},
                "used": [[nm[x] for x in l] for l in used],
                "assigned": [[nm[x] for x in l] for l in assigned],
                "live": [sorted(nm[x] for x in l) for l in live],
                "def": [sorted(nm[x] for x in l) for l in dfn],
                "maybe": [sorted(nm[x] for x in l) for l in maybe],
                "entry_undef": [nm[x] for x in eu], "undef_vars": sorted(nm[x] for x in uv),
            }
    return res


# ------------------------------------------------------------------------------- comparison
CODE_NAME = {0: "ok", 1: "EntryUndef", 2: "SuccUndef", 3: "RowMismatch", 4: "RowKeyError", 5: "OutOfFuel"}


def compare_instance(inst, obs, err):
    """Differences between the real checker's record of one check_cfg call and the model's
    observation.  err = the program's error record if THIS instance raised it."""
    diffs = []
    blocks = inst["blocks"]
    for b, bl in enumerate(blocks):
        has_nested = any(e[0] == "assign" and e[2][0] == "lit" and str(e[2][1]).startswith("fun:") for e in bl["events"])
        ru, ra = inst["real_used"][b], inst["real_assigned"][b]
        if ru is None:
            continue
        mu, ma = obs["used"][b], obs["assigned"][b]
        if (sorted(mu) != sorted(ru)) or (not has_nested and mu != ru):
            diffs.append(f"block {b}: VariableStats.used real {ru} model {mu}")
        if ma != ra:
            diffs.append(f"block {b}: VariableStats.assigned real {ra} model {ma}")
    for fld, real in (("live", "real_live"), ("def", "real_def"), ("maybe", "real_maybe")):
        for b in range(len(blocks)):
            rv = inst[real][b]
            if rv is not None and rv != obs[fld][b]:
                diffs.append(f"block {b}: {fld}_before real {rv} model {obs[fld][b]}")
    res = inst["result"]
    if res == "ok":
        if obs["code"] != 0:
            diffs.append(f"real checker accepts, model rejects with {CODE_NAME[obs['code']]} {obs['site']} {obs['vars']}")
        else:
            for b, row in (inst.get("sig") or {}).items():
                if b in obs["sig"]:
                    comp_vars = {x[0] for x in obs["sig"][b] if x[1] == "comp"}     # type of a comprehension: not modelled
                    mrow = [[x[0], "*" if x[0] in comp_vars else x[1]] for x in obs["sig"][b]]
                    rrow = [[x[0], "*" if x[0] in comp_vars else x[1]] for x in row]
                    if mrow != rrow:
                        diffs.append(f"block {b}: input row real {row} model {obs['sig'][b]}")
                elif not (int(b) == inst["exit"] and not blocks[int(b)]["reachable"]):
                    diffs.append(f"block {b}: checked by the real checker, not visited by the model")
    elif res == "error":
        cls = err["cls"]
        where = [err["line"], err["col"]]
        if obs["code"] == 0:
            diffs.append(f"real checker raises {cls} {err['var']} at {where}, model accepts")
        elif cls in ("VarNotDefinedError", "VarMaybeNotDefinedError"):
            maybe = cls == "VarMaybeNotDefinedError"
            if obs["code"] == 1:
                x = obs["vars"][0]
                ok = (not maybe) and err["var"] in obs["entry_undef"] and where in blocks[0]["first_use"].get(err["var"], [])
                exact = err["var"] == x
                has_nested = any(e[0] == "assign" and str(e[2][1]).startswith("fun:") for e in blocks[0]["events"] if e[0] == "assign" and e[2][0] == "lit")
                if not ok or (not exact and not has_nested):
                    diffs.append(f"real {cls} {err['var']} at {where}; model EntryUndef first={x} all={obs['entry_undef']}")
            elif obs["code"] == 2:
                ok = any(m == maybe and x == err["var"] and where in blocks[u]["first_use"].get(x, [])
                         for (m, x, u) in obs["cands"])
                if not ok:
                    diffs.append(f"real {cls} {err['var']} at {where}; model SuccUndef site {obs['site']} candidates {obs['cands']}")
            else:
                diffs.append(f"real {cls} {err['var']}; model {CODE_NAME[obs['code']]} {obs['site']} {obs['vars']}")
        elif cls == "BranchTypeError":
            if obs["code"] != 3:
                diffs.append(f"real BranchTypeError {err['var']}; model {CODE_NAME[obs['code']]} {obs['site']} {obs['vars']}")
            else:
                ok = any(err["var"] in (f"Variable `{x}`", "Expression" if x.startswith("%") else None)
                         and where in blocks[u]["first_use"].get(x, []) for (x, u) in obs["tcands"])
                if not ok:
                    diffs.append(f"real BranchTypeError {err['var']} at {where}; model RowMismatch {obs['site']} candidates {obs['tcands']}")
    return diffs


def spec_compare(src, rec):
    """Independent syntactic path specification vs the real verdict.  Returns (status, detail):
    status in agree | either | DISAGREE."""
    sp = spec_paths.analyse(src, "const")
    und = sp["undef"] + sp["dead_undef"]
    kinds = sp["undef_kind"] + sp["dead_undef_kind"]
    out = rec["outcome"]
    if out == "ok":
        if und or sp["conflict"]:
            return "DISAGREE", {"expected": "rejected", "spec": {k: sp[k] for k in ("undef", "dead_undef", "conflict")}, "observed": "accepted"}
        return ("either" if sp["dead_conflict"] else "agree"), None
    e = rec["error"]
    where = [e["line"], e["col"]]
    if e["cls"] in ("VarNotDefinedError", "VarMaybeNotDefinedError"):
        hits = [(v, ps, k) for (v, ps), k in zip(und, kinds) if v == e["var"] and where in ps]
        if not hits:
            return "DISAGREE", {"expected": {"undef": und, "conflict": sp["conflict"]}, "observed": e}
        # the wording is only determined when the variable has a single candidate read
        cands = [(v, ps, k) for (v, ps), k in zip(und, kinds) if v == e["var"]]
        # (own locals p, q of a nested function are reported by the ENCLOSING function's test, where
        #  they are not locals at all: always "not defined" — wording only, see NOTES.md)
        if len(cands) == 1 and len(cands[0][1]) == 1 and e["var"] not in ("p", "q"):
            want = "VarMaybeNotDefinedError" if cands[0][2] == "maybe" else "VarNotDefinedError"
            if want != e["cls"]:
                return "DISAGREE", {"expected": want, "observed": e, "why": "maybe/never classification"}
        return "agree", None
    if e["cls"] == "BranchTypeError":
        if und:
            return "DISAGREE", {"expected": {"undef": und}, "observed": e, "why": "an undefined use exists, type error reported"}
        pool = sp["conflict"] + sp["dead_conflict"]
        if any(e["var"] == f"Variable `{v}`" and where in ps for v, ps in pool):
            return "agree", None
        return "DISAGREE", {"expected": {"conflict": pool}, "observed": e}
    return "either", None


# ------------------------------------------------------------------------------- bridge tie
RENAME = {"x": "v0", "y": "v1", "z": "v2", "w": "v3", "n": "v4", "c1": "v5", "c2": "v6"}


def bridge_variant(src):
    """A generated program of the while/if fragment rewritten into C03's PyAst vocabulary
    (variables v<k>, integer literals only); None when it uses for / nested defs."""
    import ast
    import re
    tree = ast.parse(src)
    for n in ast.walk(tree):
        if isinstance(n, ast.For) or (isinstance(n, ast.FunctionDef) and n.name != "f") or isinstance(n, ast.Call):
            return None
    out = re.sub(r"\b(x|y|z|w|n|c1|c2)\b", lambda m: RENAME[m.group(1)], src)
    return out.replace("1.5", "7")


def bridge_tie(ctx, sources, limit):
    """C03's builder model read as an event CFG (ecfg_of (build p), evaluated in Coq) against the
    event CFG impl_check.py extracts from the REAL builder's CFG, block by block."""
    sys.path.insert(0, str(HERE.parent / "C03"))
    import pyast as c03
    cases = []
    for src in sources:
        v = bridge_variant(src)
        if v is None:
            continue
        try:
            term = c03.parse_program(v)
            coq = c03.stmts_coq(term)
        except Exception:  # noqa: BLE001  (outside PyAst)
            continue
        cases.append((v, coq))
        if len(cases) >= limit:
            break
    st = {"cases": len(cases), "in_cf_fragment": 0, "blocks_compared": 0, "differences": 0}
    if not cases:
        return st
    recs = run_impl(ctx, [{"id": f"bridge/{i}", "src": v} for i, (v, _) in enumerate(cases)])
    files = {}
    chunk = 60
    for c in range(0, len(cases), chunk):
        body = ["From Coq Require Import ZArith List. Import ListNotations.",
                "From V.C03 Require Import PyAst.", "From V.C08 Require Import ObserveBridge.", "Open Scope Z_scope."]
        for k, (_, coq) in enumerate(cases[c:c + chunk]):
            body.append(f"Eval vm_compute in (obs_bridge {coq}).")
        files[f"br{c // chunk}"] = "\n".join(body) + "\n"
    outs = ctx.coq_eval_many(files, jobs=8)
    vals = []
    for name in sorted(files, key=lambda n: int(n[2:])):
        vals += vlib.parse_coq_values(outs[name])
    if len(vals) != len(cases):
        raise RuntimeError(f"bridge evaluation: {len(vals)} values for {len(cases)} cases")
    shown = 0
    for (v, _), r, (ok, (cf, wfb), blocks) in zip(cases, recs, vals):
        inst = next((i for i in r["instances"] if i["func"] == "f" and "blocks" in i), None)
        if inst is None or not ok:
            if (inst is None) != (not ok):
                st["differences"] += 1
                if shown < 3:
                    shown += 1
                    ctx.report(f"bridge:{v}", "correspondence", "ecfg_of (C03 build) vs real builder",
                               {"program": v, "expected": "both build or both fail", "observed": {"model_builds": ok, "real_instance": inst is not None},
                                "replay": replay_cmd(v)}, found_input=False)
            continue
        st["in_cf_fragment"] += int(bool(cf))
        st["wf_ecfg_of_model_graph"] = st.get("wf_ecfg_of_model_graph", 0) + int(bool(wfb))
        if not wfb:
            st["differences"] += 1
            ctx.report(f"bridge-wf:{v}", "correspondence", "wf_ecfg (ecfg_of (build p))",
                       {"program": v, "why": "hypothesis of syntactic_undef_rejected fails on the model's own graph",
                        "replay": replay_cmd(v)}, found_input=False)
        real = []
        for b in inst["blocks"]:
            evs = []
            for e in b["events"]:
                num = lambda nm: (2 * int(nm[1:]) if nm.startswith("v") and nm[1:].isdigit() else (2 * int(nm[4:]) + 1 if nm.startswith("%tmp") else -1))
                if e[0] == "use":
                    evs.append([0, num(e[1]), 0])
                elif e[2][0] == "copy":
                    evs.append([2, num(e[1]), num(e[2][1])])
                elif str(e[2][1]).startswith("glob:"):
                    # `x = y` with y never assigned in the function: the harness types it as the
                    # global y, ecfg_of keeps the syntactic copy; same reads, same assignment
                    evs.append([2, num(e[1]), num(str(e[2][1])[5:])])
                else:
                    evs.append([1, num(e[1]), 0])
            real.append([sorted(b["succ"]), sorted(b["dsucc"]), evs])
        # successor ORDER (which edge is the true branch) is C03's business; C08's theorems do not depend on it
        model = [[sorted(su), sorted(ds), [list(t) for t in evs]] for (su, ds, evs) in blocks]
        st["blocks_compared"] += len(real)
        if real != model:
            st["differences"] += 1
            if shown < 3:
                shown += 1
                bad = next((i for i, (a, b) in enumerate(zip(real, model)) if a != b), None)
                ctx.report(f"bridge:{v}", "correspondence", "ecfg_of (C03 build) vs real builder",
                           {"program": v, "first_differing_block": bad,
                            "why": "the event CFG of the real builder differs from C03's builder model read through ecfg_of: the "
                                   "syntactic-path bridge no longer speaks about this CFG (the verdict comparison above decides whether C08 itself fails)",
                            "expected": model[bad] if bad is not None and bad < len(model) else len(model),
                            "observed": real[bad] if bad is not None and bad < len(real) else len(real),
                            "replay": replay_cmd(v)}, found_input=False)
    return st


# ------------------------------------------------------------------------------- driver
def run_impl(ctx, progs, jobs=12, batch=34):
    parts = [progs[i:i + batch] for i in range(0, len(progs), batch)]

    def one(part):
        out = ctx.impl("impl_check.py", {"programs": part, "dir": str(ctx.scratch)}, timeout=1500)
        return json.loads(out)
    with ThreadPoolExecutor(max_workers=jobs) as ex:
        res = list(ex.map(one, parts))
    return [r for part in res for r in part]


def replay_cmd(src):
    return ("cd /tmp && printf '%s' " + json.dumps(json.dumps({"programs": [{"id": "replay", "src": src}], "dir": "/tmp"}))
            + " | PYTHONPATH=/verif/tools:$REPO/guppylang/src:$REPO/guppylang-internals/src VERIF_REPO=$REPO PYTHONHASHSEED=0 "
              "/venv/bin/python /verif/props/C08/impl_check.py   # REPO=/repo or the tree under test")


def generate(ctx):
    """X tie: nothing is generated; fail closed when the anchored functions disappear."""
    import ast
    src = ctx.int_src("checker/cfg_checker.py").read_text()
    funcs = {n.name for n in ast.walk(ast.parse(src)) if isinstance(n, ast.FunctionDef)}
    for f in ("check_cfg", "check_bb", "check_rows_match"):
        if f not in funcs:
            raise vlib.TranslatorError(f"cfg_checker.py: function {f} not found")


def run(ctx) -> int:
    import time
    T = {}
    t0 = time.time()
    generate(ctx)
    info = ctx.coq_props()
    T["coq_props"] = round(time.time() - t0, 1); t0 = time.time()
    if not info["ok"]:
        ctx.report("coq:" + str(info["failed"]), "proof-broken", "coq/C08/Props.v",
                   {"failed": info["failed"], "log": info["log"][-3000:]}, found_input=False)

    quick = ctx.quick
    n_plain, n_const = (240, 130) if quick else (2600, 1400)
    n_expr = 230 if quick else 2600
    progs = []
    for cse in json.loads((HERE / "corpus" / "cases.json").read_text()):
        progs.append({"id": "corpus/" + cse["id"], "src": cse["src"], "group": "corpus",
                      "expect": cse["expect"], "spec": cse.get("spec", True)})
    for i, s in enumerate(gen_progs.gen_many(ctx.seed, n_plain, consts=False, nested=True)):
        progs.append({"id": f"gen/{ctx.seed}/{i}", "src": s, "group": "plain"})
    for i, s in enumerate(gen_progs.gen_many(ctx.seed + 1, n_const, consts=True, nested=True)):
        progs.append({"id": f"genc/{ctx.seed}/{i}", "src": s, "group": "const"})
    for i, s in enumerate(gen_progs.gen_many(ctx.seed + 2, n_expr, consts=False, nested=True, exprs=True)):
        progs.append({"id": f"gene/{ctx.seed}/{i}", "src": s, "group": "expr"})
    n_cexpr = 150 if quick else 1500
    for i, s in enumerate(gen_progs.gen_many(ctx.seed + 3, n_cexpr, consts=True, nested=True, exprs=True)):
        progs.append({"id": f"gence/{ctx.seed}/{i}", "src": s, "group": "const-expr"})
    by_id = {p["id"]: p for p in progs}

    recs = run_impl(ctx, [{"id": p["id"], "src": p["src"]} for p in progs])
    T["impl"] = round(time.time() - t0, 1); t0 = time.time()

    # ---- model vs implementation
    todo = []
    stats = {"programs": len(recs), "outcome": {}, "instances": 0, "unmodelled": 0, "nested_instances": 0,
             "model_verdicts": {}, "error_class": {}, "nested_error_skipped": 0}
    for r in recs:
        stats["outcome"][r["outcome"]] = stats["outcome"].get(r["outcome"], 0) + 1
        if r["outcome"] == "error":
            c = r["error"]["cls"]
            stats["error_class"][c] = stats["error_class"].get(c, 0) + 1
        for k, inst in enumerate(r["instances"]):
            stats["instances"] += 1
            if k > 0:
                stats["nested_instances"] += 1
            if inst["func"] not in ("f", "g", "h"):
                stats["library_instances"] = stats.get("library_instances", 0) + 1   # guppy std functions (Range.__next__ ...)
                continue
            if "unmodelled" in inst or "blocks" not in inst:
                stats["unmodelled"] += 1
                stats.setdefault("unmodelled_reasons", {})
                stats["unmodelled_reasons"][inst.get("unmodelled", "?")[:60]] = stats["unmodelled_reasons"].get(inst.get("unmodelled", "?")[:60], 0) + 1
                continue
            todo.append(((r["id"], k), inst))
    obs = eval_instances(ctx, todo)
    T["model_eval"] = round(time.time() - t0, 1); t0 = time.time()
    n_diff = 0
    samples = []
    nontrivial = set()
    for r in recs:
        src = by_id[r["id"]]["src"]
        if r["outcome"] in ("crash", "other-error"):
            stats["crash_or_other"] = stats.get("crash_or_other", 0) + 1
            if stats["crash_or_other"] > 5:
                continue
            # not a C08 verdict at all: decide from the syntactic specification what was expected
            try:
                sp = spec_paths.analyse(src, "const")
                und = sp["undef"] + sp["dead_undef"]
                exp = ("rejected: variable not defined " + json.dumps(und)) if und else \
                      ("rejected: different types " + json.dumps(sp["conflict"])) if sp["conflict"] else "accepted"
                ctx.report(f"crash:{r['id']}", "counterexample", "check() neither accepts nor reports a C08 error",
                           {"program": src, "expected": exp, "observed": r.get("error"), "replay": replay_cmd(src)})
            except Exception as e:  # noqa: BLE001
                ctx.report(f"fragment:{r['id']}", "correspondence", "generator fragment",
                           {"program": src, "observed": r.get("error"), "spec_paths_error": repr(e),
                            "why": "the program left the modelled fragment (not a C08 verdict)", "replay": replay_cmd(src)},
                           found_input=False)
            continue
        for k, inst in enumerate(r["instances"]):
            key = (r["id"], k)
            if key not in obs:
                continue
            o = obs[key]
            stats["model_verdicts"][CODE_NAME[o["code"]]] = stats["model_verdicts"].get(CODE_NAME[o["code"]], 0) + 1
            if inst["result"] == "nested-error":
                stats["nested_error_skipped"] += 1
            err = r.get("error") if inst["result"] == "error" else None
            diffs = compare_instance(inst, o, err)
            if len(inst["blocks"]) >= 4:
                nontrivial.add((src, k))
            if len(samples) < 6 and o["code"] in (1, 2, 3) and k == 0:
                samples.append({"program": src, "real": r.get("error"), "model": {x: o[x] for x in ("code", "site", "vars", "cands", "tcands")}})
            if diffs:
                n_diff += 1
                if n_diff <= 5:
                    ctx.report(f"model-vs-impl:{r['id']}:{k}", "counterexample", "CfgCheck.v vs check_cfg",
                               {"program": src, "function": inst["func"], "differences": diffs[:8],
                                "expected": "the proved model's verdict / sets (see differences: 'model …')",
                                "observed": {"outcome": r["outcome"], "error": r.get("error")},
                                "replay": replay_cmd(src)})
    stats["model_vs_impl_differences"] = n_diff

    # ---- corpus: verdicts fixed by hand from the property
    for r in recs:
        pr = by_id[r["id"]]
        ex = pr.get("expect")
        if not ex:
            continue
        got = {"outcome": r["outcome"]}
        if r["outcome"] == "error":
            got.update(cls=r["error"]["cls"], var=r["error"]["var"], line=r["error"]["line"])
        if any(got.get(k) != v for k, v in ex.items()):
            ctx.report(f"corpus:{r['id']}", "counterexample", "corpus verdict",
                       {"program": pr["src"], "expected": ex, "observed": got, "replay": replay_cmd(pr["src"])})

    # ---- independent syntactic specification vs implementation (the search)
    spec_stats = {"agree": 0, "either": 0, "DISAGREE": 0, "strict_differs": 0, "features": {}}
    n_dis = 0
    const_dev = dead_dev = None
    for r in recs:
        if r["outcome"] not in ("ok", "error") or not by_id[r["id"]].get("spec", True):
            continue
        src = by_id[r["id"]]["src"]
        try:
            st, detail = spec_compare(src, r)
            sp_strict = spec_paths.analyse(src, "strict")
            sp_const = spec_paths.analyse(src, "const")
        except Exception as e:  # noqa: BLE001
            st, detail = "DISAGREE", {"spec_paths_error": repr(e)}
            sp_strict = sp_const = None
        spec_stats[st] += 1
        if sp_const:
            for f in sp_const["features"]:
                spec_stats["features"][f] = spec_stats["features"].get(f, 0) + 1
        if sp_strict is not None and st != "DISAGREE":
            strict_rej = bool(sp_strict["undef"] or sp_strict["conflict"])
            real_rej = r["outcome"] == "error"
            if strict_rej != real_rej:
                spec_stats["strict_differs"] += 1
                if strict_rej and not real_rej and const_dev is None and sp_const["has_const"]:
                    const_dev = (src, sp_strict)
                if real_rej and not strict_rej and dead_dev is None and sp_const["has_dead"]:
                    dead_dev = (src, r["error"])
        if st == "DISAGREE":
            n_dis += 1
            if n_dis <= 5:
                ctx.report(f"spec-vs-impl:{r['id']}", "counterexample", "syntactic path specification vs check()",
                           {"program": src, **(detail or {}), "replay": replay_cmd(src)})
    if const_dev is not None:
        ctx.report(KEY_CONST, "counterexample", "literal reading of the property (every condition may go both ways)",
                   {"program": const_dev[0], "expected": "rejected: " + json.dumps({k: const_dev[1][k] for k in ("undef", "conflict")}),
                    "observed": "accepted", "replay": replay_cmd(const_dev[0])})
    if dead_dev is not None:
        ctx.report(KEY_DEAD, "counterexample", "literal reading of the property (no control-flow path reaches code after a jump)",
                   {"program": dead_dev[0], "expected": "accepted", "observed": dead_dev[1], "replay": replay_cmd(dead_dev[0])})

    T["compare_and_spec"] = round(time.time() - t0, 1); t0 = time.time()
    bridge = bridge_tie(ctx, [p["src"] for p in progs if p["group"] == "plain"], 70 if quick else 900)
    T["bridge_tie"] = round(time.time() - t0, 1)
    gen_sources = [p["src"] for p in progs if p["group"] != "corpus"]
    hist = histo.histogram(gen_sources)
    below = sorted(k for k, v in hist.items() if v["percent"] < 5.0)
    cov = proof_coverage(
        info, "cd /verif/coq && make -f Makefile.C08 C08/Props.vo",
        ["Coq 8.16.1 kernel", "C09's theorems (imported, re-checked in this build)",
         "impl_check.py: extraction of variable events from the block statements' ASTs; repo_shim",
         "types of right-hand sides are literal or copied (expression typing itself is not modelled)"],
        evaluations=len(obs) + spec_stats["agree"] + spec_stats["either"] + spec_stats["DISAGREE"],
        distinct_nontrivial=len(nontrivial),
        rule="programs: corpus + gen_progs (seeded; two types, nested if/while/for/break/continue/return, dead code, "
             "literal-constant conditions in the 'const' group, nested functions with captures); each check_cfg call of the "
             "real checker is one case for the model comparison, each program one case for the syntactic specification; "
             "non-trivial = check_cfg instance whose CFG has >= 4 basic blocks; distinct = by (program text, instance index)",
        programs=len(recs),
        correspondence=stats, specification=spec_stats, samples=samples,
        phase_seconds=T, bridge_tie=bridge,
        construct_histogram={"over": f"{len(gen_sources)} generated programs (corpus excluded)", "constructs": hist,
                             "below_5_percent": below},
        cases={"const_expr": n_cexpr, "expr": n_expr, "plain": n_plain, "const": n_const, "corpus": len([p for p in progs if p["group"] == "corpus"])},
    )
    return ctx.finish(LEVEL, cov, info.get("axioms", []))
