"""C27 implementation-side harness: run the REAL method source text of Guppy's
`Stack` (std/collections/stack.py) and `PriorityQueue` (std/collections/priority_queue.py)
under plain CPython.  guppylang is never imported; the class/constructor ASTs are taken
from <REPO> (= $VERIF_REPO or /repo), decorators and annotations are stripped (bodies are
kept verbatim), and the result is exec'd against small stand-ins (Opt/some/nothing/array/
panic).  Any unexpected source shape -> "TRANSLATOR: ..." on stderr, exit code 3.

Usage:  /venv/bin/python impl_heap.py < payload.json      |      impl_heap.py --selftest

stdin : {"cases": [{"kind": "stack"|"pq", "cap": int,
                    "init": null | {"buf": [cell,...], "size": int}, "ops": [op,...]}]}
        cell = null (nothing) | int (stack) | [prio, value] (pq).  init == null starts from
        the real empty_stack()/empty_priority_queue() with MAX_SIZE = cap; otherwise
        Cls(array(cells), size) is built directly (may violate the invariant on purpose).
        ops: ["push", v] (stack) / ["push", v, p] (pq: q.push(v, p)), ["pop"], ["peek"],
             ["len"], ["next"].
stdout: {"hashes": {"Stack.push": h, ..., "empty_stack": h, ...}, "fields": {...},
         "methods": {...}, "results": [{"obs": [...], "final": null | {"buf","size"}}]}
        obs: [0] push | [1, v] / [1, p, v] pop, peek, next-some | [2, n] len |
             [3] next-nothing (stop) | [4, msg] Guppy panic (stop) | [8] 2s timeout (stop) |
             [9, "Exc: text"] other Python exception (stop).  A stop gives final = null.
        hash = sha256(ast.dump(fn minus docstring/decorators/annotations))[:16].
Note: `len` in the namespace is `lambda x: x.__len__()` (Guppy's len is a plain method
call; CPython's builtin would raise ValueError on a negative size from a bad `init`).
"""
import ast, copy, hashlib, json, os, signal, sys, typing

REPO = os.environ.get("VERIF_REPO", "/repo")
COLL = os.path.join(REPO, "guppylang/src/guppylang/std/collections")
SPECS = {  # kind -> (file, class, constructor, expected fields)
    "stack": ("stack.py", "Stack", "empty_stack", ["buf", "end"]),
    "pq": ("priority_queue.py", "PriorityQueue", "empty_priority_queue", ["buf", "size"]),
}


def die(msg):
    sys.stderr.write("TRANSLATOR: %s\n" % msg)
    raise SystemExit(3)


# ---------------------------------------------------------------- stand-ins
class GuppyPanic(Exception):
    def __init__(self, msg):
        super().__init__(msg)
        self.msg = msg


def panic(msg, *args):
    raise GuppyPanic(msg)


class Opt:
    def __init__(self, flag=False, val=None):
        self.is_some_flag, self.val = flag, val

    def is_some(self): return self.is_some_flag  # noqa: E704

    def is_nothing(self): return not self.is_some_flag  # noqa: E704

    def swap(self, other):  # Guppy: mem_swap(self, other); return other
        self.is_some_flag, other.is_some_flag = other.is_some_flag, self.is_some_flag
        self.val, other.val = other.val, self.val
        return other

    def take(self): return self.swap(nothing())  # noqa: E704

    def unwrap(self):  # does not mutate the cell
        if self.is_some_flag:
            return self.val
        panic("Option.unwrap: value is `Nothing`")

    def unwrap_nothing(self):
        if self.is_some_flag:
            panic("Option.unwrap: value is `Some`")
        return None


def some(v): return Opt(True, v)  # noqa: E704


class _Nothing:  # nothing() and nothing[T]()
    def __call__(self): return Opt()  # noqa: E704

    def __getitem__(self, _ty): return self  # noqa: E704


nothing = _Nothing()


class array:
    def __init__(self, it):
        self.cells = list(it)

    def __getitem__(self, i):
        if not (isinstance(i, int) and 0 <= i < len(self.cells)):
            panic("Array index out of bounds")
        return self.cells[i]

    def __iter__(self): return iter(self.cells)  # noqa: E704

    def __len__(self): return len(self.cells)  # noqa: E704


class _Dummy:  # harmless placeholder for guppy / owned / Generic / ...
    def __call__(self, *a, **k): return a[0] if a else self  # noqa: E704

    def __getattr__(self, _n): return self  # noqa: E704

    def __getitem__(self, _k): return self  # noqa: E704


def fresh_ns():
    d = _Dummy()
    return {"GuppyPanic": GuppyPanic, "panic": panic, "Opt": Opt, "Option": d, "some": some,
            "nothing": nothing, "array": array, "T": typing.TypeVar("T"), "TCopyable": d,
            "owned": d, "guppy": d, "no_type_check": d, "Generic": d, "MAX_SIZE": 0,
            "len": lambda x: x.__len__()}


# ---------------------------------------------------------------- translator
def is_doc(st):
    return (isinstance(st, ast.Expr) and isinstance(st.value, ast.Constant)
            and isinstance(st.value.value, str))


def strip(fn):
    fn = copy.deepcopy(fn)
    fn.decorator_list, fn.returns = [], None
    a = fn.args
    for x in a.posonlyargs + a.args + a.kwonlyargs + [a.vararg, a.kwarg]:
        if x is not None:
            x.annotation = None
    return fn


def fhash(fn):
    f = copy.deepcopy(fn)
    if f.body and is_doc(f.body[0]):
        f.body = f.body[1:]
    return hashlib.sha256(ast.dump(f).encode()).hexdigest()[:16]


def build(kind):
    fname, cname, ctor, want = SPECS[kind]
    path = os.path.join(COLL, fname)
    try:
        tree = ast.parse(open(path).read(), path)
    except (OSError, SyntaxError) as e:
        die("cannot read/parse %s: %s" % (path, e))
    cds = [n for n in tree.body if isinstance(n, ast.ClassDef) and n.name == cname]
    fds = [n for n in tree.body if isinstance(n, ast.FunctionDef) and n.name == ctor]
    if len(cds) != 1 or len(fds) != 1:
        die("%s: expected exactly one class %s and one function %s" % (fname, cname, ctor))
    fields, methods = [], []
    for i, st in enumerate(cds[0].body):
        if isinstance(st, ast.AnnAssign) and isinstance(st.target, ast.Name) and st.value is None:
            fields.append(st.target.id)
        elif isinstance(st, ast.FunctionDef):
            methods.append(strip(st))
        elif not (i == 0 and is_doc(st)):
            die("%s: unexpected statement in class body at line %d" % (cname, st.lineno))
    if fields != want:
        die("%s: fields %r, expected %r" % (cname, fields, want))
    if "__init__" in [m.name for m in methods] or not methods:
        die("%s: unexpected method set" % cname)
    init = ast.parse("def __init__(self, %s):\n%s" % (
        ", ".join(fields), "".join("    self.%s = %s\n" % (f, f) for f in fields))).body[0]
    cls = copy.deepcopy(cds[0])
    cls.bases, cls.keywords, cls.decorator_list, cls.body = [], [], [], [init] + methods
    cfn = strip(fds[0])
    mod = ast.fix_missing_locations(ast.Module(body=[cls, cfn], type_ignores=[]))
    ns = fresh_ns()
    exec(compile(mod, path, "exec"), ns)
    hashes = {"%s.%s" % (cname, m.name): fhash(m) for m in methods}
    hashes[ctor] = fhash(cfn)
    return {"ns": ns, "cls": ns[cname], "ctor": ns[ctor], "cname": cname, "fields": fields,
            "methods": [m.name for m in methods], "hashes": hashes}


# ---------------------------------------------------------------- driver
def _alarm(_sig, _frm):
    raise TimeoutError("case timed out")


def dump(env, s):
    buf = getattr(s, env["fields"][0])
    return {"buf": [c.val if c.is_some_flag else None for c in buf],
            "size": getattr(s, env["fields"][1])}


def run_case(envs, case):
    env, pq, obs, final = envs[case["kind"]], case["kind"] == "pq", [], None
    env["ns"]["MAX_SIZE"] = case["cap"]
    signal.setitimer(signal.ITIMER_REAL, 2.0)
    try:
        try:
            if case.get("init") is None:
                s = env["ctor"]()
            else:
                cells = [Opt() if c is None else some(tuple(c) if pq else c)
                         for c in case["init"]["buf"]]
                s = env["cls"](array(cells), case["init"]["size"])
            for op in case["ops"]:
                name = op[0]
                if name == "push":
                    s = s.push(*op[1:])
                    obs.append([0])
                elif name in ("pop", "peek") and pq:
                    p, v, s = getattr(s, name)()
                    obs.append([1, p, v])
                elif name in ("pop", "peek"):
                    v, s = getattr(s, name)()
                    obs.append([1, v])
                elif name == "len":
                    obs.append([2, s.__len__()])
                elif name == "next":
                    r = s.__next__()
                    if r.is_nothing():
                        obs.append([3])
                        s = None
                        break
                    if pq:
                        (p, v), s = r.unwrap()
                    else:
                        v, s = r.unwrap()
                    obs.append([1, p, v] if pq else [1, v])
                else:
                    raise SystemExit("HARNESS: unknown op %r" % (op,))
            final = None if s is None else dump(env, s)
        finally:
            signal.setitimer(signal.ITIMER_REAL, 0)
    except GuppyPanic as e:
        obs.append([4, e.msg])
    except TimeoutError:
        obs.append([8])
    except Exception as e:  # noqa: BLE001 - anything else is an observation
        obs.append([9, "%s: %s" % (type(e).__name__, e)])
    return {"obs": obs, "final": final}  # final is only set when every op completed


def run(payload):
    signal.signal(signal.SIGALRM, _alarm)
    envs = {k: build(k) for k in SPECS}
    out = {"hashes": {}, "fields": {}, "methods": {}}
    for e in envs.values():
        out["hashes"].update(e["hashes"])
        out["fields"][e["cname"]] = e["fields"]
        out["methods"][e["cname"]] = e["methods"]
    out["results"] = [run_case(envs, c) for c in payload["cases"]]
    return out


def _c(kind, cap, ops, init=None):
    return {"kind": kind, "cap": cap, "init": init, "ops": [[o] if isinstance(o, str) else o
                                                            for o in ops]}


_P3 = [["push", 10, 3], ["push", 11, 1], ["push", 12, 2]]
SELFTEST = [
    _c("stack", 3, [["push", 1], ["push", 2], ["push", 3], "len", "peek", "pop", "len"]),
    _c("stack", 2, [["push", 1], ["push", 2], ["push", 3]]),
    _c("stack", 2, ["pop"]),
    _c("stack", 2, [["push", 7], "next", "next"]),
    _c("pq", 4, _P3 + ["len", "peek", "pop", "pop", "pop", "len"]),
    _c("pq", 3, _P3 + ["next", "next", "next", "next"]),
    _c("stack", 3, ["pop"], {"buf": [1, None, None], "size": 2}),
    _c("pq", 3, ["pop"], {"buf": [[1, 10], None, [3, 12]], "size": 3}),
    _c("stack", 2, ["len", ["push", 5]], {"buf": [None, None], "size": -1}),
]

if __name__ == "__main__":
    if "--selftest" in sys.argv[1:]:
        res = run({"cases": SELFTEST})
        for k in ("fields", "methods", "hashes"):
            print(k, json.dumps(res[k]))
        for c, r in zip(SELFTEST, res["results"]):
            print(json.dumps(c), "\n   ->", json.dumps(r))
    else:
        json.dump(run(json.load(sys.stdin)), sys.stdout, default=repr)
        sys.stdout.write("\n")
