"""C27 — Stack and PriorityQueue follow their reference models.   Tie: X (+ structural T).

1. structural tie (tr_heap.py): the fields, the method list and the canonicalised method bodies of
   stack.py / priority_queue.py must be the ones coq/C27/ModelHeap.v was written against
   (model_hashes.json); fail closed otherwise (the proof is then about stale code).
2. re-check the theorems of coq/C27/Props.v (refinement to the LIFO list / the multiset spec,
   heap invariant, minimality, capacity panics; unbounded scripts and capacity).
3. correspondence X: the REAL method sources are executed under CPython (impl_heap.py: method
   FunctionDefs exec'd against stand-ins for array/Option/panic) and the Coq model is evaluated
   with vm_compute on the same operation scripts; observations per operation (values, lengths,
   panic messages, end of iteration) and the final concrete buffer are compared.  Scripts: corpus,
   exhaustive insertion orders, exhaustive short interleavings, seeded random scripts (small
   priority sets to force ties, small capacities to reach full/empty), and a malformed stream
   (initial buffers that violate the class invariant) that pins the Option/array panics.
4. search (always run): the implementation's observations and final contents are checked against
   reference models written here in Python (list; multiset with "any entry of minimal priority").
   A failure is minimised and reported as a counterexample with a replay command."""
import itertools
import json
import time

import vlib
from vlib import proof_coverage

LEVEL = "proof"
MSGS = ["Array index out of bounds", "Option.unwrap: value is `Nothing`", "Option.unwrap: value is `Some`",
        "Stack.push: max size reached", "Stack.pop: stack is empty", "Stack.peek: stack is empty",
        "Stack.discard_empty: stack is not empty", "PriorityQueue.push: max size reached",
        "PriorityQueue.pop: priority queue is empty", "PriorityQueue.peek: priority queue is empty",
        "PriorityQueue.discard_empty: priority queue is not empty"]
FULL = {"stack": MSGS[3], "pq": MSGS[7]}
EMPTY_POP = {"stack": MSGS[4], "pq": MSGS[8]}
EMPTY_PEEK = {"stack": MSGS[5], "pq": MSGS[9]}


# ------------------------------------------------------------------------------ structural tie
def generate(ctx):
    """No Coq text is generated for C27; the structural tie is checked here (fail-closed on
    missing classes/methods/fields).  Returns the list of methods whose body changed."""
    import tr_heap
    got = tr_heap.shape_hashes(ctx.repo / vlib.SRC_PUB)
    want = json.loads((ctx.dir / "model_hashes.json").read_text())
    return sorted(k for k in want if got.get(k) != want[k])


# ------------------------------------------------------------------------------ case generation
def mk(kind, cap, ops, init=None, tag=""):
    return {"kind": kind, "cap": cap, "init": init, "ops": ops, "tag": tag}


class Ids:
    def __init__(self):
        self.n = 100

    def next(self):
        self.n += 1
        return self.n


def push_op(kind, ids, prio):
    return ["push", ids.next()] if kind == "stack" else ["push", ids.next(), prio]


def random_script(r, kind, cap, n, prios):
    """mostly stays inside [0, cap] (so that scripts are long), but tries the full/empty panics"""
    ids, ops, bias, size = Ids(), [], r.choice([0.35, 0.55, 0.75]), 0
    for _ in range(n):
        if r.random() < 0.12:
            bias = r.choice([0.2, 0.5, 0.8])
        push = r.random() < bias
        if push and size >= cap and r.random() < 0.9:
            push = False
        elif not push and size == 0 and cap > 0 and r.random() < 0.9:
            push = True
        if push:
            ops.append(push_op(kind, ids, r.choice(prios)))
            size += size < cap
        else:
            o = r.choices(["pop", "peek", "len", "next"], [55, 20, 20, 5])[0]
            if o in ("peek", "next") and size == 0 and r.random() < 0.8:
                o = "len"
            ops.append([o])
            size -= (o in ("pop", "next") and size > 0)
    return ops


def random_cases(r, n, quick):
    out = []
    for _ in range(n):
        kind = "pq" if r.random() < 0.7 else "stack"
        cap = r.choice([0, 1, 2, 3, 3, 4, 5, 6, 7, 8]) if r.random() < 0.85 else r.randint(9, 24)
        pr = r.random()
        prios = [0, 1, 2, 3] if pr < 0.6 else ([0, 1] if pr < 0.75 else
                                                ([-5, -1, 0, 7, 2 ** 40, -2 ** 40, 2 ** 62] if pr < 0.85 else list(range(-20, 21))))
        n_ops = r.randint(1, 40) if cap <= 8 else r.randint(20, 70)
        out.append(mk(kind, cap, random_script(r, kind, cap, n_ops, prios), tag="random"))
    return out


def insertion_orders(P, K):
    """every insertion order of k <= K entries with priorities < P, then drain (k+1 pops)."""
    out = []
    for k in range(1, K + 1):
        for ps in itertools.product(range(P), repeat=k):
            ids = Ids()
            ops = [["push", ids.next(), p] for p in ps] + [["pop"]] * (k + 1)
            out.append(mk("pq", k, ops, tag="insertion-orders"))
    return out


def interleavings(L, cap):
    """every script of length <= L over {push p=0, push p=1, pop} for the queue."""
    out = []
    for n in range(1, L + 1):
        for w in itertools.product("01p", repeat=n):
            ids = Ids()
            ops = [["pop"] if c == "p" else ["push", ids.next(), int(c)] for c in w]
            out.append(mk("pq", cap, ops, tag="interleavings"))
    return out


def stack_small(L, cap):
    out = []
    for n in range(1, L + 1):
        for w in itertools.product(["push", "pop", "peek", "len", "next"], repeat=n):
            ids = Ids()
            out.append(mk("stack", cap, [["push", ids.next()] if c == "push" else [c] for c in w], tag="stack-small"))
    return out


def malformed_cases(r, n):
    out = []
    for _ in range(n):
        kind = "pq" if r.random() < 0.6 else "stack"
        cap = r.randint(0, 6)
        ids = Ids()
        style = r.random()
        fill = r.randint(0, cap)
        cells = []
        for j in range(cap):
            some = (j < fill) if style < 0.6 else (r.random() < 0.5)
            if some and style < 0.6 and r.random() < 0.15:
                some = False                                    # a hole in the prefix
            if not some and style < 0.6 and r.random() < 0.1:
                some = True                                     # a value beyond the prefix
            if some:
                cells.append(ids.next() if kind == "stack" else [r.randint(0, 3), ids.next()])  # heap order not enforced
            else:
                cells.append(None)
        size = fill if r.random() < 0.6 else r.randint(-1, cap + 1)
        ops = random_script(r, kind, cap, r.randint(1, 8), [0, 1, 2, 3])
        out.append(mk(kind, cap, ops, init={"buf": cells, "size": size}, tag="malformed"))
    return out


# ------------------------------------------------------------------------------ model side (Coq)
def zl(x):
    return f"({x})" if x < 0 else str(x)


def coq_case(c):
    kind, cap = c["kind"], c["cap"]
    if kind == "stack":
        ops = "; ".join({"push": lambda o: f"SPush {zl(o[1])}", "pop": lambda o: "SPop", "peek": lambda o: "SPeek",
                         "len": lambda o: "SLen", "next": lambda o: "SNext"}[o[0]](o) for o in c["ops"])
        if c["init"] is None:
            st = f"(empty_stack {cap})"
        else:
            cells = "; ".join("None" if x is None else f"Some {zl(x)}" for x in c["init"]["buf"])
            st = f"([{cells}], {zl(c['init']['size'])})"
        return f"enc_srun (stack_run {cap} [{ops}] {st})"
    ops = "; ".join({"push": lambda o: f"QPush {zl(o[1])} {zl(o[2])}", "pop": lambda o: "QPop", "peek": lambda o: "QPeek",
                     "len": lambda o: "QLen", "next": lambda o: "QNext"}[o[0]](o) for o in c["ops"])
    if c["init"] is None:
        st = f"(empty_pq {cap})"
    else:
        cells = "; ".join("None" if x is None else f"Some ({zl(x[0])}, {zl(x[1])})" for x in c["init"]["buf"])
        st = f"([{cells}], {zl(c['init']['size'])})"
    return f"enc_qrun (pq_run {cap} [{ops}] {st})"


def coq_file(cases):
    head = ["From Coq Require Import ZArith List String.", "From V.C27 Require Import ModelHeap ModelEncode.",
            "Import ListNotations. Open Scope Z_scope.", "Definition cases : list (list (list Z)) := ["]
    return "\n".join(head) + ";\n".join(coq_case(c) for c in cases) + "].\nEval vm_compute in cases.\n"


def decode_model(enc, kind):
    """-> {"obs": [...], "final": None | {"buf", "size"}} in the implementation harness's format."""
    obs, i = [], 0
    while enc[i] not in ([-1], [-2]):
        o = enc[i]
        if o[0] == 4:
            o = [4, MSGS[o[1]] if 0 <= o[1] < len(MSGS) else f"?{o[1]}"]
        elif o[0] == 5:
            o = [5, "model ran out of fuel"]
        obs.append(o)
        i += 1
    if enc[i] == [-2]:
        return {"obs": obs, "final": None}
    size = enc[i + 1][0]
    cells = enc[i + 2:]
    buf = [None if not c else (c[0] if kind == "stack" else list(c)) for c in cells]
    return {"obs": obs, "final": {"buf": buf, "size": size}}


# ------------------------------------------------------------------------------ reference models
def spec_check(c, res):
    """Reference models (independent of the buffers).  Returns None or a dict describing the
    first deviation.  Only for scripts started from the constructor."""
    kind, cap, ops, obs = c["kind"], c["cap"], c["ops"], res["obs"]
    m = []                       # stack: list, top last.  pq: list of (p, v) as a multiset
    stopped = False
    for i, o in enumerate(ops):
        if i >= len(obs):
            return {"at": i, "why": "no observation for this operation", "contents": list(m)}
        ob = obs[i]
        exp = None               # deterministic expectation, or a predicate for pq pops
        if o[0] == "push":
            if len(m) >= cap:
                exp, stopped = [4, FULL[kind]], True
            else:
                exp = [0]
                m.append(o[1] if kind == "stack" else (o[2], o[1]))
        elif o[0] == "len":
            exp = [2, len(m)]
        elif o[0] in ("pop", "peek", "next"):
            if not m:
                exp = [3] if o[0] == "next" else [4, (EMPTY_POP if o[0] == "pop" else EMPTY_PEEK)[kind]]
                stopped = True
            elif kind == "stack":
                exp = [1, m[-1]]
                if o[0] != "peek":
                    m.pop()
            else:
                lo = min(p for p, _ in m)
                ok = ob[0] == 1 and len(ob) == 3 and (ob[1], ob[2]) in m and ob[1] == lo
                if not ok:
                    return {"at": i, "op": o, "observed": ob, "contents": sorted(m),
                            "why": f"expected an entry of the queue with minimal priority {lo}"}
                if o[0] != "peek":
                    m.remove((ob[1], ob[2]))
                continue
        if stopped and exp[0] == 4:
            # the property only says "panics": any Guppy panic is accepted here (the exact message
            # is pinned by the correspondence with the Coq model)
            if ob[0] != 4:
                return {"at": i, "op": o, "observed": ob, "expected": "a panic (" + exp[1] + ")", "contents": list(m)}
        elif ob != exp:
            return {"at": i, "op": o, "observed": ob, "expected": exp, "contents": list(m)}
        if stopped:
            if len(obs) != i + 1 or res["final"] is not None:
                return {"at": i, "why": "execution continued after a panic / end of iteration"}
            return None
    if len(obs) != len(ops):
        return {"at": len(ops), "why": "more observations than operations"}
    fin = res["final"]
    if fin is None:
        return {"at": len(ops), "why": "no final state"}
    buf, size = fin["buf"], fin["size"]
    if size != len(m) or len(buf) != cap:
        return {"at": len(ops), "why": "final size/capacity", "size": size, "contents": list(m)}
    if any(x is None for x in buf[:size]) or any(x is not None for x in buf[size:]):
        return {"at": len(ops), "why": "INVARIANT of the source comment broken: cells below size must be some, the others nothing", "buf": buf}
    if kind == "stack":
        if buf[:size] != m:
            return {"at": len(ops), "why": "final contents differ from the list model", "buf": buf, "contents": list(m)}
    else:
        if sorted(tuple(x) for x in buf[:size]) != sorted(m):
            return {"at": len(ops), "why": "final multiset of entries differs", "buf": buf, "contents": sorted(m)}
    return None


# ------------------------------------------------------------------------------ running both sides
def run_impl(ctx, cases):
    out, meta = [], None
    for i in range(0, len(cases), 4000):
        chunk = [{k: c[k] for k in ("kind", "cap", "init", "ops")} for c in cases[i:i + 4000]]
        try:
            d = json.loads(ctx.impl("impl_heap.py", {"cases": chunk}, timeout=3000))
        except RuntimeError as e:
            if "TRANSLATOR:" in str(e):
                raise vlib.TranslatorError(str(e).split("TRANSLATOR:", 1)[1].strip()[:300])
            raise
        out += d["results"]
        meta = {k: d[k] for k in ("fields", "methods")}
    return out, meta


def run_model(ctx, cases, per_file=1200):
    chunks = [cases[i:i + per_file] for i in range(0, len(cases), per_file)]
    outs = ctx.coq_eval_many({f"cases{i}": coq_file(ch) for i, ch in enumerate(chunks)}, timeout=1500)
    res = []
    for i, ch in enumerate(chunks):
        vals = vlib.parse_coq_values(outs[f"cases{i}"])[0]
        if len(vals) != len(ch):
            raise RuntimeError(f"model output of chunk {i}: {len(vals)} results for {len(ch)} cases")
        res += [decode_model(v, c["kind"]) for v, c in zip(vals, ch)]
    return res


def replay_cmd(c):
    payload = json.dumps({"cases": [{k: c[k] for k in ("kind", "cap", "init", "ops")}]})
    return f"echo '{payload}' | VERIF_REPO=/repo /venv/bin/python /verif/props/C27/impl_heap.py   # executes the method sources of the tree under CPython"


def shrink(ctx, c):
    """greedy: drop single operations while the reference model still rejects the run."""
    cur = c
    for _ in range(60):
        cands = [dict(cur, ops=cur["ops"][:i] + cur["ops"][i + 1:]) for i in range(len(cur["ops"]))]
        cands = [x for x in cands if x["ops"]]
        if not cands:
            break
        rs, _ = run_impl(ctx, cands)
        nxt = next((x for x, r in zip(cands, rs) if spec_check(x, r) is not None), None)
        if nxt is None:
            break
        cur = nxt
    if cur["kind"] == "pq":          # try the smallest capacity that still fails
        for cap in range(0, cur["cap"]):
            x = dict(cur, cap=cap)
            r, _ = run_impl(ctx, [x])
            if spec_check(x, r[0]) is not None:
                return x
    return cur


def key_of(c):
    return json.dumps([c["kind"], c["cap"], c["init"], c["ops"]], separators=(",", ":"))


def features(c, res):
    """non-trivial = a pq run that held >= 3 entries and popped successfully (both sift loops can
    iterate), a stack run with >= 2 pushes and a successful pop/peek, or a malformed run that
    reached an Option/array panic."""
    obs = res["obs"]
    pushes = sum(1 for o, b in zip(c["ops"], obs) if o[0] == "push" and b == [0])
    pops = sum(1 for o, b in zip(c["ops"], obs) if o[0] in ("pop", "next", "peek") and b[0] == 1)
    size = mx = 0
    for o, b in zip(c["ops"], obs):
        if o[0] == "push" and b == [0]:
            size += 1
        elif o[0] in ("pop", "next") and b[0] == 1:
            size -= 1
        mx = max(mx, size)
    if c["init"] is not None:
        return any(b[0] == 4 and b[1] in MSGS[:3] for b in obs)
    if c["kind"] == "pq":
        return mx >= 3 and pops >= 1
    return pushes >= 2 and pops >= 1


def campaign(ctx, big, salt, phase):
    """generate scripts, run both sides, compare.  Returns a dict."""
    r = vlib.rng(ctx.seed, "C27" + salt)
    cases = []
    corpus = ctx.dir / "corpus"
    if corpus.exists():
        for f in sorted(corpus.glob("*.json")):
            for c in json.loads(f.read_text()):
                cases.append(mk(c["kind"], c["cap"], c["ops"], c.get("init"), tag="corpus"))
    cases += insertion_orders(3, 7 if big else 5)
    if big:
        cases += insertion_orders(4, 5) + insertion_orders(2, 9)
    cases += interleavings(7 if big else 5, 3)
    if big:
        cases += interleavings(6, 2)
    cases += stack_small(4 if big else 3, 2)
    cases += random_cases(r, 4000 if big else 600, ctx.quick)
    cases += malformed_cases(r, 1000 if big else 200)
    # search-only scripts: implementation vs reference models (cheap, no Coq evaluation)
    search = [dict(c, tag="search-" + c["tag"]) for c in random_cases(r, 40000 if big else 5000, ctx.quick)]
    if big:
        search += [dict(c, tag="search-" + c["tag"]) for c in insertion_orders(3, 8) + insertion_orders(4, 6)]
    n_x = len(cases)
    t1 = time.time()
    impl_all, meta = run_impl(ctx, cases + search)
    phase["impl_exec" + salt] = round(time.time() - t1, 1)
    impl = impl_all[:n_x]
    # ---- reference models vs implementation (the failing-input search)
    spec_fail = []
    for c, res in zip(cases + search, impl_all):
        if c["init"] is None:
            d = spec_check(c, res)
            if d is not None:
                spec_fail.append((c, res, d))
    # ---- Coq model on the same scripts
    t1 = time.time()
    model = None
    try:
        model = run_model(ctx, cases)
    except RuntimeError as e:
        ctx.notes.append(f"model evaluation failed: {str(e)[:1500]}")
    phase["model_eval" + salt] = round(time.time() - t1, 1)
    mism = []
    if model is not None:
        mism = [(c, a, b) for c, a, b in zip(cases, impl, model) if a != b]
    return {"cases": cases, "search": search, "impl": impl, "model": model, "spec_fail": spec_fail,
            "mism": mism, "meta": meta}


def run(ctx):
    t0 = time.time()
    phase = {}
    stale = generate(ctx)
    info = ctx.coq_props()
    phase["coq_build_and_props"] = round(time.time() - t0, 1)
    broken = (not info["ok"]) or bool(stale)
    res = campaign(ctx, not ctx.quick, "", phase)
    if broken and ctx.quick and not res["spec_fail"]:
        # the tie or a proof is broken and the quick volume found no failing script: search harder
        res2 = campaign(ctx, True, "/escalated", phase)
        for k in ("cases", "search", "impl", "spec_fail", "mism"):
            res[k] = res[k] + res2[k]
        res["model"] = None if (res["model"] is None or res2["model"] is None) else res["model"] + res2["model"]
    cases, search, impl, model, spec_fail, mism, meta = (res[k] for k in ("cases", "search", "impl", "model", "spec_fail", "mism", "meta"))

    reported = 0
    seen_min = set()
    for c, _res, d in sorted(spec_fail, key=lambda t: len(t[0]["ops"]))[:40]:
        if reported >= 3:
            break
        small = shrink(ctx, c)
        k = key_of(small)
        if k in seen_min:
            continue
        seen_min.add(k)
        rs, _ = run_impl(ctx, [small])
        ctx.report("spec:" + k, "counterexample",
                   f"{'Stack' if small['kind'] == 'stack' else 'PriorityQueue'} deviates from its reference model"
                   + (f" (theorem file no longer checks: {info['failed']})" if not info["ok"] else "")
                   + (f" (changed methods: {', '.join(stale)})" if stale else ""),
                   {"script": {k2: small[k2] for k2 in ("kind", "cap", "init", "ops")},
                    "ops_meaning": "['push', value] / ['push', value, priority], ['pop'], ['peek'], ['len'], ['next']",
                    "observed": rs[0], "obs_encoding": "[0] pushed | [1,v] / [1,prio,v] returned | [2,n] len | [3] iterator done | [4,msg] panic | [8] timeout | [9,exc] Python exception",
                    "deviation": spec_check(small, rs[0]), "found_in": {"tag": c["tag"], "ops": len(c["ops"])},
                    "replay": replay_cmd(small)})
        reported += 1

    # ---- model vs implementation
    if mism and not spec_fail:
        for c, a, b in sorted(mism, key=lambda t: len(t[0]["ops"]))[:3]:
            ctx.report("corr:" + key_of(c), "correspondence", "ModelHeap.v vs executed method sources",
                       {"script": {k2: c[k2] for k2 in ("kind", "cap", "init", "ops")}, "implementation": a, "model": b,
                        "meaning": "the Coq model no longer describes the source (the theorems are about the model); the reference-model search found no failing script",
                        "changed_methods": stale, "replay": replay_cmd(c)}, found_input=False)
    if model is None and not spec_fail:
        ctx.report("model-eval", "correspondence", "Coq model could not be evaluated", {"notes": ctx.notes}, found_input=False)
    if broken and not spec_fail and not mism:
        what = f"theorem file does not check: {info['failed']}" if not info["ok"] else \
            f"method bodies differ from the ones the model was written against: {', '.join(stale)}"
        ctx.report("proof-broken:" + (str(info["failed"]) if not info["ok"] else ",".join(stale)), "proof-broken", what,
                   {"coq_error": vlib.CoqResult(False, info["log"]).error_excerpt() if not info["ok"] else None,
                    "changed_methods": stale, "searched_scripts": len(cases) + len(search),
                    "note": "no script separates the implementation from the reference models or from the Coq model; "
                            "if the edit is a harmless refactor, re-validate ModelHeap.v against it and refresh model_hashes.json"},
                   found_input=False)

    # ---- evidence
    distinct = {}
    for c, res in zip(cases, impl):
        distinct.setdefault(key_of(c), features(c, res))
    hist_tag, hist_out, hist_cap = {}, {}, {}
    ties = 0
    for c, res in zip(cases, impl):
        hist_tag[c["tag"]] = hist_tag.get(c["tag"], 0) + 1
        hist_cap[c["cap"]] = hist_cap.get(c["cap"], 0) + 1
        last = res["obs"][-1] if res["obs"] else [None]
        o = "completed" if res["final"] is not None else ("iterator-finished" if last[0] == 3 else f"panic: {last[1]}" if last[0] == 4 else f"other: {last}")
        hist_out[o] = hist_out.get(o, 0) + 1
        if c["kind"] == "pq":
            ps = [o2[2] for o2 in c["ops"] if o2[0] == "push"]
            ties += len(ps) != len(set(ps))
    n_ops = sum(len(res["obs"]) for res in impl)
    pick = [0, len(cases) // 3, 2 * len(cases) // 3, len(cases) - 1]
    cov = proof_coverage(
        info, "make C27/Props.vo && coqc C27/Props.v (Print Assumptions)",
        ["Coq 8.16.1 kernel; vm_compute for the Examples and for evaluating the model in the harness",
         "ModelHeap.v is hand-written; it is tied to the sources by (a) tr_heap.py: fields, method list and canonical body hashes must equal model_hashes.json, (b) the differential harness of this run",
         "impl_heap.py: CPython stand-ins for array (bounds-checked, no negative indices), Option (swap/take/unwrap/unwrap_nothing with the real panic texts), some/nothing/panic, MAX_SIZE; decorators and annotations are stripped, bodies are executed verbatim",
         "that the Guppy compiler gives these method bodies their Python meaning is C03/C07/C19, not C27; Guppy int is modelled as Z (sizes stay in [0, MAX_SIZE], no wrap-around below 2^62 entries)"],
        evaluations=len(cases) + len(search), search_only_scripts=len(search), distinct_nontrivial=sum(1 for v in distinct.values() if v),
        distinct_scripts=len(distinct), operations_executed=n_ops,
        rule="cases = corpus + every insertion order of k entries with few distinct priorities then drain + every short push/pop interleaving + every short stack script + seeded random scripts (capacity 0..24, priorities mostly from {0..3}) + malformed initial buffers; each is run on the executed sources and on the Coq model and compared observation by observation and on the final buffer; search-only scripts (random, more insertion orders) run on the executed sources and are checked against the Python reference models only; distinct/non-trivial are counted over the model-validated cases only; distinct = by (kind, capacity, initial state, script); non-trivial = pq run holding >= 3 entries with a successful pop/peek, stack run with >= 2 pushes and a successful pop/peek, malformed run reaching an Option/array panic",
        traces_validated_against_impl=len(cases) if model is not None else 0,
        model_vs_impl_mismatches=len(mism), reference_model_failures=len(spec_fail),
        changed_methods=stale, pq_scripts_with_tied_priorities=ties,
        histogram={"by_generator": hist_tag, "by_outcome": hist_out, "by_capacity": {str(k): v for k, v in sorted(hist_cap.items())}},
        source_shape=meta, phase_seconds=phase,
        samples=[{"case": {k2: cases[j][k2] for k2 in ("kind", "cap", "init", "ops", "tag")}, "impl": impl[j]} for j in pick],
        notes=ctx.notes)
    return ctx.finish(LEVEL, cov, [
        "the method bodies mean under Guppy what they mean under CPython with the stand-ins (C03/C07/C19)",
        "array length equals MAX_SIZE (type-level in Guppy); sizes below 2^62 so Guppy's 64-bit int does not wrap",
        "after a panic the program stops (observations end at the first panic)"])
