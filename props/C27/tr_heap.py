"""C27 structural tie: the method list and the method bodies the Coq model (coq/C27/ModelHeap.v)
was written against.  Reads stack.py / priority_queue.py with `ast`, strips docstrings,
decorators and annotations, renames parameters and local variables canonically (so a renamed
local or an edited docstring/comment does not matter) and hashes the result.  The expected
hashes live in model_hashes.json (written with `python3 tr_heap.py --write <repo>`).
Fail-closed: a missing class/method/field raises TranslatorError."""
import ast
import hashlib
import json
import sys
from pathlib import Path

HERE = Path(__file__).resolve().parent
sys.path.insert(0, str(HERE.parent.parent / "tools"))
try:
    from vlib import TranslatorError
except Exception:  # pragma: no cover
    class TranslatorError(Exception):
        pass

FILES = {"Stack": ("std/collections/stack.py", "empty_stack", ["buf", "end"]),
         "PriorityQueue": ("std/collections/priority_queue.py", "empty_priority_queue", ["buf", "size"])}
METHODS = ["__len__", "__iter__", "__next__", "push", "pop", "peek", "discard_empty"]


class _Canon(ast.NodeTransformer):
    def __init__(self, local):
        self.local, self.map = local, {}

    def _n(self, name):
        if name not in self.local:
            return name
        return self.map.setdefault(name, f"v{len(self.map)}")

    def visit_arg(self, node):
        return ast.arg(arg=self._n(node.arg), annotation=None)

    def visit_Name(self, node):
        return ast.Name(id=self._n(node.id), ctx=node.ctx)


def canon(fn: ast.FunctionDef) -> str:
    body = list(fn.body)
    if body and isinstance(body[0], ast.Expr) and isinstance(body[0].value, ast.Constant) \
            and isinstance(body[0].value.value, str):
        body = body[1:]
    local = {a.arg for a in fn.args.args + fn.args.kwonlyargs + fn.args.posonlyargs}
    for n in ast.walk(ast.Module(body=body, type_ignores=[])):
        if isinstance(n, ast.Name) and isinstance(n.ctx, ast.Store):
            local.add(n.id)
    f2 = ast.FunctionDef(name=fn.name, args=fn.args, body=body or [ast.Pass()], decorator_list=[],
                         returns=None, type_comment=None)
    f2 = _Canon(local).visit(f2)
    return ast.dump(f2, annotate_fields=True, include_attributes=False)


def shape_hashes(pub_root: Path) -> dict:
    out = {}
    for cls, (rel, ctor, fields) in FILES.items():
        p = pub_root / rel
        if not p.exists():
            raise TranslatorError(f"source file missing: {rel}")
        mod = ast.parse(p.read_text())
        cds = [n for n in mod.body if isinstance(n, ast.ClassDef) and n.name == cls]
        if len(cds) != 1:
            raise TranslatorError(f"class {cls} not found in {rel}")
        cd = cds[0]
        got_fields = [n.target.id for n in cd.body if isinstance(n, ast.AnnAssign) and isinstance(n.target, ast.Name)]
        if got_fields != fields:
            raise TranslatorError(f"{cls}: fields {got_fields}, the model knows {fields}")
        meths = {n.name: n for n in cd.body if isinstance(n, ast.FunctionDef)}
        if sorted(meths) != sorted(METHODS):
            raise TranslatorError(f"{cls}: methods {sorted(meths)}, the model knows {sorted(METHODS)}")
        for m in METHODS:
            out[f"{cls}.{m}"] = hashlib.sha256(canon(meths[m]).encode()).hexdigest()[:16]
        fns = [n for n in mod.body if isinstance(n, ast.FunctionDef) and n.name == ctor]
        if len(fns) != 1:
            raise TranslatorError(f"constructor {ctor} not found in {rel}")
        out[ctor] = hashlib.sha256(canon(fns[0]).encode()).hexdigest()[:16]
    return out


if __name__ == "__main__":
    if len(sys.argv) >= 2 and sys.argv[1] == "--write":
        repo = Path(sys.argv[2] if len(sys.argv) > 2 else "/repo")
        h = shape_hashes(repo / "guppylang/src/guppylang")
        (HERE / "model_hashes.json").write_text(json.dumps(h, indent=1, sort_keys=True) + "\n")
        print(json.dumps(h, indent=1))
    else:
        print(json.dumps(shape_hashes(Path(sys.argv[1] if len(sys.argv) > 1 else "/repo") / "guppylang/src/guppylang"), indent=1))
