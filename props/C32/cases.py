"""C32 program matrix: one entry per (node kind, field / optional clause).

Every entry is a *pair* of programs A, B that differ in exactly one field of one AST node
(the check verifies this with a parallel AST walk and records the (kind, field) it found), so
that Python gives A and B different meanings.  The implementation must either reject the
construct or show a different checked program / HUGR for A and B.

Body snippets are placed inside

    @guppy
    def main(x: int, y: int, b: bool) -> int:
        <body>

unless the entry gives a whole-program template (key `frame`)."""
import ast
import textwrap

HEADER = '''from guppylang.decorator import guppy
from guppylang.std.builtins import array, comptime, py, nat, owned, result, panic, range
from guppylang.std.quantum import qubit, h, x as qx, measure, discard
import math

@guppy.declare
def ext(a: int) -> int: ...

@guppy.declare
def ext2(a: int, b: int) -> int: ...

@guppy.declare
def ext3(a: int, b: int, c: int) -> int: ...

@guppy.declare
def mk0(a: int) -> int: ...

@guppy.declare
def mk1(a: int) -> int: ...

@guppy.declare
def mk2(a: int) -> int: ...

@guppy.declare
def mk3(a: int) -> int: ...

@guppy.declare
def mkb0(a: int) -> bool: ...

@guppy.declare
def mkb1(a: int) -> bool: ...

@guppy.declare
def mkb2(a: int) -> bool: ...

@guppy.declare
def mkn(a: int) -> None: ...

@guppy.declare
def mkt(a: int) -> tuple[int, int]: ...

@guppy.declare
def mkarr(a: int) -> array[int, 3]: ...

@guppy.declare
def mks(a: int) -> "S": ...

@guppy
def sub(a: int, b: int) -> int:
    return a - b

@guppy.struct
class S:
    a: int
    c: int

@guppy.declare(dagger=True, control=True, power=True)
def u1(q: qubit) -> None: ...

dagger = object(); control = object(); power = object()
N1 = 1
N2 = 2
'''

MAIN = '''
@guppy
def main(x: int, y: int, b: bool) -> int:
{body}
'''

QMAIN = '''
@guppy
def main(q: qubit, c: qubit, n: nat) -> None:
{body}
'''


def prog(body, frame=MAIN):
    return HEADER + frame.format(body=textwrap.indent(textwrap.dedent(body).strip("\n"), "    "))


CASES = []


def C(cid, a, b, frame=MAIN, exp=(False, True), note=""):
    CASES.append({"id": cid, "a": a, "b": b, "frame": frame, "exp": list(exp), "note": note})


# ------------------------------------------------------------------ statements
# nested FunctionDef
C("FunctionDef.decorator_list", "@ext\ndef g(a: int) -> int:\n    return a + 1\nreturn g(x)",
  "@sub\ndef g(a: int) -> int:\n    return a + 1\nreturn g(x)")
C("FunctionDef.decorator_list/absent", "@ext\ndef g(a: int) -> int:\n    return a + 1\nreturn g(x)",
  "def g(a: int) -> int:\n    return a + 1\nreturn g(x)")
C("FunctionDef.returns", "def g(a: int) -> int:\n    return a\nreturn g(x)", "def g(a: int) -> bool:\n    return a\nreturn g(x)")
C("FunctionDef.returns/absent", "def g(a: int) -> int:\n    return a\nreturn g(x)", "def g(a: int):\n    return a\nreturn g(x)")
C("FunctionDef.name", "def g(a: int) -> int:\n    return a\nreturn g(x)", "def k(a: int) -> int:\n    return a\nreturn g(x)")
C("FunctionDef.body", "def g(a: int) -> int:\n    return a\nreturn g(x)", "def g(a: int) -> int:\n    return a + 1\nreturn g(x)")
C("FunctionDef.type_params", "def g[T](a: int) -> int:\n    return a\nreturn g(x)", "def g[T, U](a: int) -> int:\n    return a\nreturn g(x)")
C("FunctionDef.type_params/absent", "def g[T](a: int) -> int:\n    return a\nreturn g(x)", "def g(a: int) -> int:\n    return a\nreturn g(x)")
C("arguments.defaults", "def g(a: int = 1) -> int:\n    return a\nreturn g()", "def g(a: int = 2) -> int:\n    return a\nreturn g()")
C("arguments.defaults/absent", "def g(a: int = 1) -> int:\n    return a\nreturn g(x)", "def g(a: int) -> int:\n    return a\nreturn g(x)")
C("arguments.kwonlyargs", "def g(a: int, *, k: int) -> int:\n    return a\nreturn g(x)", "def g(a: int, *, k: int, l: int) -> int:\n    return a\nreturn g(x)")
C("arguments.kwonlyargs/absent", "def g(a: int, *, k: int) -> int:\n    return a\nreturn g(x)", "def g(a: int) -> int:\n    return a\nreturn g(x)")
C("arguments.kw_defaults", "def g(a: int, *, k: int = 1) -> int:\n    return a + k\nreturn g(x)", "def g(a: int, *, k: int = 2) -> int:\n    return a + k\nreturn g(x)")
C("arguments.vararg", "def g(a: int, *r: int) -> int:\n    return a\nreturn g(x)", "def g(a: int, *s: int) -> int:\n    return a\nreturn g(x)")
C("arguments.vararg/absent", "def g(a: int, *r: int) -> int:\n    return a\nreturn g(x)", "def g(a: int) -> int:\n    return a\nreturn g(x)")
C("arguments.kwarg", "def g(a: int, **r: int) -> int:\n    return a\nreturn g(x)", "def g(a: int, **s: int) -> int:\n    return a\nreturn g(x)")
C("arguments.kwarg/absent", "def g(a: int, **r: int) -> int:\n    return a\nreturn g(x)", "def g(a: int) -> int:\n    return a\nreturn g(x)")
C("arguments.posonlyargs", "def g(a: int, /, c: int) -> int:\n    return a\nreturn g(x, y)", "def g(a: int, d: int, /, c: int) -> int:\n    return a\nreturn g(x, y)")
C("arguments.posonlyargs/absent", "def g(a: int, /) -> int:\n    return a\nreturn g(x)", "def g(a: int) -> int:\n    return a\nreturn g(x)")
C("arguments.args", "def g(a: int) -> int:\n    return a\nreturn g(x)", "def g(a: int, c: int) -> int:\n    return a\nreturn g(x)")
C("arg.annotation", "def g(a: int) -> int:\n    return 1\nreturn g(x)", "def g(a: bool) -> int:\n    return 1\nreturn g(x)")
C("arg.annotation/absent", "def g(a: int) -> int:\n    return 1\nreturn g(x)", "def g(a) -> int:\n    return 1\nreturn g(x)")
C("arg.arg", "def g(a: int, c: int) -> int:\n    return a\nreturn g(x, y)", "def g(c: int, a: int) -> int:\n    return a\nreturn g(x, y)")
# top-level signature
for fld, (sa, sb) in {
    "defaults": ("x: int, y: int = 1", "x: int, y: int = 2"),
    "kwonlyargs": ("x: int, *, y: int", "x: int, *, y: int, z: int"),
    "kw_defaults": ("x: int, *, y: int = 1", "x: int, *, y: int = 2"),
    "vararg": ("x: int, *y: int", "x: int, *z: int"),
    "kwarg": ("x: int, **y: int", "x: int, **z: int"),
    "posonlyargs": ("x: int, /, y: int", "x: int, z: int, /, y: int"),
}.items():
    C(f"toplevel arguments.{fld}", sa, sb,
      frame="\n@guppy\ndef main({body}) -> int:\n    return x\n".replace("{body}", "{body}"), note="signature of the @guppy function itself")
C("toplevel FunctionDef.returns/absent", "x: int) -> int", "x: int)", frame="\n@guppy\ndef main({body}:\n    return x\n")
C("toplevel arg.annotation/absent", "x: int, y: int", "x: int, y", frame="\n@guppy\ndef main({body}) -> int:\n    return x\n")
C("AsyncFunctionDef", "async def g(a: int) -> int:\n    return a\nreturn x", "async def g(a: int) -> int:\n    return a + 1\nreturn x")
C("AsyncFunctionDef/vs-def", "async def g(a: int) -> int:\n    return a\nreturn x", "def g(a: int) -> int:\n    return a\nreturn x")
C("toplevel AsyncFunctionDef", "async def main(x: int) -> int:\n    return x", "def main(x: int) -> int:\n    return x", frame="\n@guppy\n{body}\n")
C("Await.value", "async def g(a: int) -> int:\n    return await ext(a)\nreturn x", "async def g(a: int) -> int:\n    return await ext(a + 1)\nreturn x")
C("ClassDef", "class K:\n    pass\nreturn x", "class K:\n    z = 1\nreturn x")
C("ClassDef.bases", "class K(S):\n    pass\nreturn x", "class K:\n    pass\nreturn x")
C("ClassDef.keywords", "class K(metaclass=type):\n    pass\nreturn x", "class K:\n    pass\nreturn x")
C("Return.value", "return x", "return y")
C("Return.value/absent", "u1(q)\nreturn None", "u1(q)\nreturn", frame=QMAIN)
C("Delete.targets", "z = x\ndel z\nreturn x", "z = x\nw = y\ndel w\nreturn x")
C("Delete/absent", "z = x\ndel z\nreturn z", "z = x\nreturn z", note="`del z` makes the later read of z an error in Python")
C("Assign.targets/chained", "p = q = x\nreturn p + q", "p = r = x\nq = y\nreturn p + q")
C("Assign.targets/chained-absent", "p = q = x\nreturn p", "p = x\nreturn p")
C("Assign.targets", "p = x\nq = y\nreturn p", "q = x\np = y\nreturn p")
C("Assign.value", "p = x\nreturn p", "p = y\nreturn p")
C("Assign.targets/tuple", "p, q = x, y\nreturn p", "q, p = x, y\nreturn p")
C("Assign.targets/starred", "a = array(1, 2, 3)\np, *r = a\nreturn p", "a = array(1, 2, 3)\n*r, p = a\nreturn p")
C("Assign.targets/attr", "s = S(x, y)\ns.a = 1\nreturn s.a", "s = S(x, y)\ns.c = 1\nreturn s.a")
C("Assign.targets/subscript", "a = array(1, 2, 3)\na[0] = x\nreturn a[0]", "a = array(1, 2, 3)\na[1] = x\nreturn a[0]")
C("TypeAlias", "type T = int\nreturn x", "type T = bool\nreturn x")
C("AugAssign.op", "z = x\nz += y\nreturn z", "z = x\nz -= y\nreturn z")
C("AugAssign.target", "z = x\nw = x\nz += y\nreturn z", "z = x\nw = x\nw += y\nreturn z")
C("AugAssign.value", "z = x\nz += y\nreturn z", "z = x\nz += x\nreturn z")
C("AugAssign.target/subscript", "a = array(1, 2, 3)\na[0] += x\nreturn a[0]", "a = array(1, 2, 3)\na[1] += x\nreturn a[0]")
C("AugAssign.target/attr", "s = S(x, y)\ns.a += 1\nreturn s.a", "s = S(x, y)\ns.c += 1\nreturn s.a")
C("AnnAssign.annotation", "z: int = 1\nreturn z", "z: bool = 1\nreturn z")
C("AnnAssign.annotation/float", "z: int = 1\nreturn int(z + 1)", "z: float = 1\nreturn int(z + 1)")
C("AnnAssign.value", "z: int = 1\nreturn z", "z: int = 2\nreturn z")
C("AnnAssign.value/absent", "z: int = 1\nreturn x", "z: int\nreturn x")
C("AnnAssign.target", "z: int = 1\nw = 2\nreturn z", "w: int = 1\nz = 2\nreturn z")
C("For.orelse", "z = 0\nfor i in range(3):\n    z += i\nelse:\n    z = 100\nreturn z", "z = 0\nfor i in range(3):\n    z += i\nelse:\n    z = 200\nreturn z")
C("For.orelse/absent", "z = 0\nfor i in range(3):\n    z += i\nelse:\n    z = 100\nreturn z", "z = 0\nfor i in range(3):\n    z += i\nreturn z")
C("For.target", "z = 0\nfor i in range(3):\n    z += i\nreturn z", "z = 0\ni = 7\nfor j in range(3):\n    z += i\nreturn z")
C("For.iter", "z = 0\nfor i in range(3):\n    z += i\nreturn z", "z = 0\nfor i in range(4):\n    z += i\nreturn z")
C("For.body", "z = 0\nfor i in range(3):\n    z += i\nreturn z", "z = 0\nfor i in range(3):\n    z -= i\nreturn z")
C("AsyncFor", "async def g() -> int:\n    async for i in range(3):\n        pass\n    return 1\nreturn x", "async def g() -> int:\n    async for i in range(4):\n        pass\n    return 1\nreturn x")
C("While.orelse", "z = x\nwhile z < 10:\n    z += 1\nelse:\n    z = 100\nreturn z", "z = x\nwhile z < 10:\n    z += 1\nelse:\n    z = 200\nreturn z")
C("While.orelse/absent", "z = x\nwhile z < 10:\n    z += 1\nelse:\n    z = 100\nreturn z", "z = x\nwhile z < 10:\n    z += 1\nreturn z")
C("While.test", "z = x\nwhile z < 10:\n    z += 1\nreturn z", "z = x\nwhile z < 11:\n    z += 1\nreturn z")
C("While.body", "z = x\nwhile z < 10:\n    z += 1\nreturn z", "z = x\nwhile z < 10:\n    z += 2\nreturn z")
C("If.orelse", "if b:\n    z = 1\nelse:\n    z = 2\nreturn z", "if b:\n    z = 1\nelse:\n    z = 3\nreturn z")
C("If.orelse/absent", "z = 0\nif b:\n    z = 1\nelse:\n    z = 2\nreturn z", "z = 0\nif b:\n    z = 1\nreturn z")
C("If.test", "z = 0\nif b:\n    z = 1\nreturn z", "z = 0\nif not b:\n    z = 1\nreturn z")
C("If.body", "z = 0\nif b:\n    z = 1\nreturn z", "z = 0\nif b:\n    z = 2\nreturn z")
C("With.items", "with dagger:\n    u1(q)", "with control(c):\n    u1(q)", frame=QMAIN)
C("With.items/two", "with dagger:\n    u1(q)", "with dagger, control(c):\n    u1(q)", frame=QMAIN)
C("With.body", "with control(c):\n    u1(q)", "with control(c):\n    u1(q)\n    u1(q)", frame=QMAIN)
C("With/absent", "with control(c):\n    u1(q)", "u1(q)", frame=QMAIN)
C("withitem.optional_vars", "with dagger as d:\n    u1(q)", "with dagger as e:\n    u1(q)", frame=QMAIN)
C("withitem.optional_vars/absent", "with dagger as d:\n    u1(q)", "with dagger:\n    u1(q)", frame=QMAIN)
C("withitem.context_expr", "with power(n):\n    u1(q)", "with power(n + 1):\n    u1(q)", frame=QMAIN)
C("withitem.context_expr/call-keywords", "with control(c, foo=1):\n    u1(q)", "with control(c, foo=2):\n    u1(q)", frame=QMAIN)
C("withitem.context_expr/call-keywords-absent", "with control(c, foo=1):\n    u1(q)", "with control(c):\n    u1(q)", frame=QMAIN)
C("withitem.context_expr/dagger-keywords", "with dagger(foo=1):\n    u1(q)", "with dagger():\n    u1(q)", frame=QMAIN)
C("withitem.context_expr/power-keywords", "with power(n, foo=1):\n    u1(q)", "with power(n):\n    u1(q)", frame=QMAIN)
C("withitem.context_expr/control-starred", "t = (c,)\nwith control(*t):\n    u1(q)", "t = (c,)\nwith control(c):\n    u1(q)", frame=QMAIN)
C("With/non-modifier", "with ext(x):\n    z = 1\nreturn x", "with ext(y):\n    z = 1\nreturn x")
C("AsyncWith", "async def g() -> int:\n    async with ext(1):\n        pass\n    return 1\nreturn x", "async def g() -> int:\n    async with ext(2):\n        pass\n    return 1\nreturn x")
C("Match", "match x:\n    case 1:\n        z = 1\n    case _:\n        z = 2\nreturn z", "match x:\n    case 2:\n        z = 1\n    case _:\n        z = 2\nreturn z")
C("match_case.guard", "match x:\n    case 1 if b:\n        z = 1\n    case _:\n        z = 2\nreturn z", "match x:\n    case 1:\n        z = 1\n    case _:\n        z = 2\nreturn z")
C("Match/patterns-seq-star", "match (x, y):\n    case [1, *rest]:\n        z = 1\n    case _:\n        z = 2\nreturn z", "match (x, y):\n    case [2, *rest]:\n        z = 1\n    case _:\n        z = 2\nreturn z")
C("Match/patterns-class-or-singleton", "match b:\n    case True | None:\n        z = 1\n    case S(a=1):\n        z = 3\n    case _:\n        z = 2\nreturn z", "match b:\n    case False | None:\n        z = 1\n    case S(a=1):\n        z = 3\n    case _:\n        z = 2\nreturn z")
C("Match/patterns-mapping-as", "match x:\n    case {1: v, **rest}:\n        z = 1\n    case _ as w:\n        z = 2\nreturn z", "match x:\n    case {2: v, **rest}:\n        z = 1\n    case _ as w:\n        z = 2\nreturn z")
C("Raise.exc", "if b:\n    raise ValueError\nreturn x", "if b:\n    raise TypeError\nreturn x")
C("Raise.cause", "if b:\n    raise ValueError from None\nreturn x", "if b:\n    raise ValueError\nreturn x")
C("Raise/bare", "if b:\n    raise\nreturn x", "if b:\n    pass\nreturn x")
C("Try.finalbody", "z = x\ntry:\n    z = 1\nfinally:\n    z = 2\nreturn z", "z = x\ntry:\n    z = 1\nfinally:\n    z = 3\nreturn z")
C("Try.handlers", "z = x\ntry:\n    z = 1\nexcept ValueError:\n    z = 2\nreturn z", "z = x\ntry:\n    z = 1\nexcept TypeError:\n    z = 2\nreturn z")
C("ExceptHandler.name", "z = x\ntry:\n    z = 1\nexcept ValueError as e:\n    z = 2\nreturn z", "z = x\ntry:\n    z = 1\nexcept ValueError:\n    z = 2\nreturn z")
C("Try.orelse", "z = x\ntry:\n    z = 1\nexcept ValueError:\n    z = 2\nelse:\n    z = 3\nreturn z", "z = x\ntry:\n    z = 1\nexcept ValueError:\n    z = 2\nreturn z")
C("TryStar", "z = x\ntry:\n    z = 1\nexcept* ValueError:\n    z = 2\nreturn z", "z = x\ntry:\n    z = 1\nexcept* TypeError:\n    z = 2\nreturn z")
C("Assert.test", "assert b\nreturn x", "assert not b\nreturn x")
C("Assert.msg", "assert b, 'one'\nreturn x", "assert b, 'two'\nreturn x")
C("Assert/absent", "assert b\nreturn x", "return x")
C("Import", "import math\nreturn x", "import cmath\nreturn x")
C("alias.asname", "import math as m\nreturn x", "import math\nreturn x")
C("ImportFrom", "from math import pi\nreturn x", "from math import e\nreturn x")
C("Global", "global N1\nreturn x", "global N2\nreturn x")
C("Global/effect", "global N1\nN1 = x\nreturn x", "N1 = x\nreturn x")
C("Nonlocal", "z = x\ndef g() -> int:\n    nonlocal z\n    return 1\nreturn g()", "z = x\ndef g() -> int:\n    return 1\nreturn g()")
C("Expr.value", "ext(x)\nreturn x", "ext(y)\nreturn x")
C("Expr.value/const", "1\nreturn x", "2\nreturn x", note="a constant expression statement has no effect in Python either: informational")
C("Expr.value/ellipsis", "...\nreturn x", "return x", note="informational")
C("Expr.value/docstring-middle", "z = x\n'doc'\nreturn z", "z = x\nreturn z", note="informational")
C("Pass", "pass\nreturn x", "return x", note="pass has no effect: informational")
C("Break", "z = 0\nwhile True:\n    z += 1\n    if z > x:\n        break\nreturn z", "z = 0\nwhile True:\n    z += 1\n    if z > x:\n        continue\nreturn z")
C("Continue", "z = 0\nfor i in range(3):\n    if b:\n        continue\n    z += i\nreturn z", "z = 0\nfor i in range(3):\n    if b:\n        pass\n    z += i\nreturn z")

# ------------------------------------------------------------------ expressions
C("BoolOp.op", "z = b and x > 0\nreturn int(z)", "z = b or x > 0\nreturn int(z)")
C("BoolOp.values", "z = b and x > 0\nreturn int(z)", "z = b and x > 0 and y > 0\nreturn int(z)")
C("NamedExpr.value", "z = (w := x) + 1\nreturn z + w", "z = (w := y) + 1\nreturn z + w")
C("NamedExpr.target", "w = 0\nv = 0\nz = (w := x) + 1\nreturn z + w", "w = 0\nv = 0\nz = (v := x) + 1\nreturn z + w")
for opn, sym in [("Sub", "-"), ("Mult", "*"), ("MatMult", "@"), ("Div", "/"), ("Mod", "%"), ("Pow", "**"), ("LShift", "<<"),
                 ("RShift", ">>"), ("BitOr", "|"), ("BitXor", "^"), ("BitAnd", "&"), ("FloorDiv", "//")]:
    C(f"BinOp.op/{opn}", "z = x + y\nreturn int(z)", f"z = x {sym} y\nreturn int(z)")
C("BinOp.left", "z = x + y\nreturn z", "z = y + y\nreturn z")
C("BinOp.right", "z = x + y\nreturn z", "z = x + x\nreturn z")
for opn, sym in [("Invert", "~"), ("UAdd", "+")]:
    C(f"UnaryOp.op/{opn}", "z = -x\nreturn z", f"z = {sym}x\nreturn z")
C("UnaryOp.op/Not", "z = b\nreturn int(z)", "z = not b\nreturn int(z)")
C("UnaryOp.operand", "z = -x\nreturn z", "z = -y\nreturn z")
C("Lambda", "f = lambda a: a\nreturn x", "f = lambda a: a + 1\nreturn x")
C("IfExp.test", "z = x if b else y\nreturn z", "z = x if not b else y\nreturn z")
C("IfExp.body", "z = x if b else y\nreturn z", "z = 1 if b else y\nreturn z")
C("IfExp.orelse", "z = x if b else y\nreturn z", "z = x if b else 1\nreturn z")
C("Dict", "d = {1: x}\nreturn x", "d = {1: y}\nreturn x")
C("Set", "d = {1, x}\nreturn x", "d = {1, y}\nreturn x")
C("ListComp.elt", "l = [i for i in range(3)]\nreturn x", "l = [i + 1 for i in range(3)]\nreturn x")
C("SetComp", "l = {i for i in range(3)}\nreturn x", "l = {i + 1 for i in range(3)}\nreturn x")
C("DictComp", "l = {i: i for i in range(3)}\nreturn x", "l = {i: i + 1 for i in range(3)}\nreturn x")
C("GeneratorExp.elt", "a = array(i for i in range(3))\nreturn a[0]", "a = array(i + 1 for i in range(3))\nreturn a[0]")
C("GeneratorExp/bare", "g = (i for i in range(3))\nreturn x", "g = (i + 1 for i in range(3))\nreturn x")
C("comprehension.iter", "a = array(i for i in range(3))\nreturn a[0]", "a = array(i for i in range(4))\nreturn a[0]")
C("comprehension.target", "j = 5\na = array(i for i in range(3))\nreturn a[0]", "j = 5\na = array(i for j in range(3))\nreturn a[0]", note="B reads an undefined i")
C("comprehension.ifs", "a = array(i for i in range(3) if i > 0)\nreturn x", "a = array(i for i in range(3) if i > 1)\nreturn x")
C("comprehension.ifs/absent", "a = array(i for i in range(3) if i > 5)\nreturn x", "a = array(i for i in range(3))\nreturn x")
C("comprehension.ifs/list", "l = [i for i in range(3) if i > 0]\nreturn x", "l = [i for i in range(3) if i > 1]\nreturn x")
C("comprehension/two-generators", "a = array(i + j for i in range(2) for j in range(2))\nreturn x", "a = array(i + j for i in range(2) for j in range(3))\nreturn x")
C("comprehension.is_async", "async def g() -> int:\n    a = array(i async for i in range(3))\n    return 1\nreturn x", "async def g() -> int:\n    a = array(i for i in range(3))\n    return 1\nreturn x")
C("Yield.value", "z = yield x\nreturn x", "z = yield y\nreturn x")
C("Yield/stmt", "yield x\nreturn x", "return x")
C("YieldFrom", "yield from ext(x)\nreturn x", "yield from ext(y)\nreturn x")
for opn, sym in [("NotEq", "!="), ("Lt", "<"), ("LtE", "<="), ("Gt", ">"), ("GtE", ">="), ("Is", "is"), ("IsNot", "is not")]:
    C(f"Compare.ops/{opn}", "z = x == y\nreturn int(z)", f"z = x {sym} y\nreturn int(z)")
C("Compare.ops/In", "a = array(1, 2, 3)\nz = x == a[0]\nreturn int(z)", "a = array(1, 2, 3)\nz = x in a\nreturn int(z)")
C("Compare.ops/NotIn", "a = array(1, 2, 3)\nz = x == a[0]\nreturn int(z)", "a = array(1, 2, 3)\nz = x not in a\nreturn int(z)")
C("Compare.ops/Is-in-if", "z = 0\nif x == y:\n    z = 1\nreturn z", "z = 0\nif x is y:\n    z = 1\nreturn z")
C("Compare.comparators/chain", "z = x < y < 3\nreturn int(z)", "z = x < y < 4\nreturn int(z)")
C("Compare.left", "z = x < y\nreturn int(z)", "z = y < y\nreturn int(z)")
C("Call.args", "return sub(x, y)", "return sub(y, x)")
C("Call.func", "return ext(x)", "return int(x)")
C("Call.keywords/global-fn", "return sub(x, b=y)", "return sub(x, b=x)")
C("Call.keywords/all-kw", "return sub(a=x, b=y)", "return sub(a=y, b=x)")
C("Call.keywords/declared-fn", "return ext2(x, b=y)", "return ext2(x, b=x)")
C("Call.keywords/nested-fn", "def g(a: int, c: int) -> int:\n    return a - c\nreturn g(x, c=y)", "def g(a: int, c: int) -> int:\n    return a - c\nreturn g(x, c=x)")
C("Call.keywords/struct-ctor", "s = S(x, c=y)\nreturn s.a", "s = S(x, c=x)\nreturn s.a")
C("Call.keywords/method", "s = S(x, y)\nreturn x.__add__(other=y)", "s = S(x, y)\nreturn x.__add__(other=x)")
C("Call.keywords/custom-array", "a = array(1, 2, foo=3)\nreturn a[0]", "a = array(1, 2, foo=4)\nreturn a[0]")
C("Call.keywords/custom-array-absent", "a = array(1, 2, foo=3)\nreturn a[0]", "a = array(1, 2)\nreturn a[0]")
C("Call.keywords/range", "z = 0\nfor i in range(3, step=2):\n    z += i\nreturn z", "z = 0\nfor i in range(3):\n    z += i\nreturn z")
C("Call.keywords/result", "result('t', x, foo=1)\nreturn x", "result('t', x)\nreturn x")
C("Call.keywords/panic", "if b:\n    panic('m', foo=1)\nreturn x", "if b:\n    panic('m')\nreturn x")
C("Call.keywords/int-cast", "return int(x, base=2)", "return int(x)")
C("Call.keywords/len", "a = array(1, 2, 3)\nreturn len(a, foo=1)", "a = array(1, 2, 3)\nreturn len(a)")
C("Call.keywords/comptime", "return x + comptime(N1, foo=1)", "return x + comptime(N1, foo=2)")
C("Call.keywords/comptime-absent", "return x + comptime(N1, foo=1)", "return x + comptime(N1)")
C("Call.keywords/py", "return x + py(N1, foo=1)", "return x + py(N1)")
C("Call.keywords/comptime-dstar", "return x + comptime(N1, **{})", "return x + comptime(N1)")
C("Call.keywords/dstar", "return sub(x, **{'b': 1})", "return sub(x, **{'b': 2})")
C("Call.args/starred", "t = (x, y)\nreturn sub(*t)", "t = (y, x)\nreturn sub(*t)")
C("Call.args/comptime-starred", "return x + comptime(*[N1])", "return x + comptime(*[N2])")
C("Call.args/comptime", "return x + comptime(N1)", "return x + comptime(N2)")
C("Call.args/comptime-two", "t = comptime(N1, N2)\nreturn t[0]", "t = comptime(N2, N1)\nreturn t[0]")
C("Call.keywords/type-apply", "return sub(x, y, foo=1)", "return sub(x, y)")
C("keyword.arg", "return sub(x, b=y)", "return sub(x, a=y)")
C("JoinedStr", "s = f'a{x}'\nreturn x", "s = f'b{x}'\nreturn x")
C("FormattedValue.conversion", "s = f'{x!r}'\nreturn x", "s = f'{x!s}'\nreturn x")
C("FormattedValue.format_spec", "s = f'{x:>3}'\nreturn x", "s = f'{x:>4}'\nreturn x")
C("FormattedValue.value", "s = f'{x}'\nreturn x", "s = f'{y}'\nreturn x")
C("Constant.value", "return 1", "return 2")
C("Constant.value/str", "result('a', x)\nreturn x", "result('b', x)\nreturn x")
C("Constant.value/bytes", "z = b'a'\nreturn x", "z = b'b'\nreturn x")
C("Constant.value/complex", "z = 1j\nreturn x", "z = 2j\nreturn x")
C("Constant.value/none", "z = None\nreturn x", "z = 1\nreturn x")
C("Constant.value/ellipsis", "z = ...\nreturn x", "z = 1\nreturn x")
C("Constant.value/float", "z = 1.5\nreturn int(z)", "z = 2.5\nreturn int(z)")
C("Constant.value/bool", "z = True\nreturn int(z)", "z = False\nreturn int(z)")
C("Constant.kind", "result(u'a', x)\nreturn x", "result('a', x)\nreturn x", note="u-prefix: allowlisted (no meaning in Python 3)")
C("Attribute.attr", "s = S(x, y)\nreturn s.a", "s = S(x, y)\nreturn s.c")
C("Attribute.value", "s = S(x, y)\nt = S(y, x)\nreturn s.a", "s = S(x, y)\nt = S(y, x)\nreturn t.a")
C("Subscript.slice", "a = array(1, 2, 3)\nreturn a[0]", "a = array(1, 2, 3)\nreturn a[1]")
C("Subscript.value", "a = array(1, 2, 3)\nc = array(4, 5, 6)\nreturn a[0]", "a = array(1, 2, 3)\nc = array(4, 5, 6)\nreturn c[0]")
C("Subscript.slice/tuple-index", "t = (x, y)\nreturn t[0]", "t = (x, y)\nreturn t[1]")
C("Slice.lower", "a = array(1, 2, 3)\nc = a[0:2]\nreturn x", "a = array(1, 2, 3)\nc = a[1:2]\nreturn x")
C("Slice.upper", "a = array(1, 2, 3)\nc = a[0:2]\nreturn x", "a = array(1, 2, 3)\nc = a[0:3]\nreturn x")
C("Slice.step", "a = array(1, 2, 3)\nc = a[0:3:1]\nreturn x", "a = array(1, 2, 3)\nc = a[0:3:2]\nreturn x")
C("Slice.step/absent", "a = array(1, 2, 3)\nc = a[::2]\nreturn x", "a = array(1, 2, 3)\nc = a[:]\nreturn x")
C("Slice/in-target", "a = array(1, 2, 3)\na[0:2] = array(7, 8)\nreturn a[0]", "a = array(1, 2, 3)\na[1:3] = array(7, 8)\nreturn a[0]")
C("Slice/tuple", "t = (x, y, x)\nu = t[0:2]\nreturn x", "t = (x, y, x)\nu = t[1:2]\nreturn x")
C("Starred/in-tuple", "t = (x, y)\nu = (*t, 1)\nreturn u[0]", "t = (x, y)\nu = (t, 1)\nreturn x")
C("Starred/in-list", "t = (x, y)\nu = [*t, 1]\nreturn x", "t = (x, y)\nu = [x, 1]\nreturn x")
C("Starred/in-array", "t = (x, y)\nu = array(*t)\nreturn u[0]", "t = (x, y)\nu = array(x, y)\nreturn u[0]")
C("Starred/target", "a = array(1, 2, 3)\np, *r = a\nreturn p", "a = array(1, 2, 3)\np, r, s = a\nreturn p")
C("Name.id", "return x", "return y")
C("List.elts", "l = [x, y]\nreturn x", "l = [y, x]\nreturn x")
C("Tuple.elts", "t = (x, y)\nreturn t[0]", "t = (y, x)\nreturn t[0]")
C("type_param.bound", "def g[T: int](a: int) -> int:\n    return a\nreturn g(x)", "def g[T](a: int) -> int:\n    return a\nreturn g(x)")
C("ParamSpec", "def g[**P](a: int) -> int:\n    return a\nreturn g(x)", "def g(a: int) -> int:\n    return a\nreturn g(x)")
C("TypeVarTuple", "def g[*Ts](a: int) -> int:\n    return a\nreturn g(x)", "def g(a: int) -> int:\n    return a\nreturn g(x)")
# annotations given as strings / other expression kinds in type position
C("annotation/string", "z: 'int' = 1\nreturn z", "z: 'bool' = 1\nreturn z")
C("annotation/call", "z: int(3) = 1\nreturn z", "z: int = 1\nreturn z")
C("annotation/binop", "z: int | bool = 1\nreturn z", "z: int = 1\nreturn z")
C("annotation/subscript", "a: array[int, 3] = array(1, 2, 3)\nreturn a[0]", "a: array[int, 2] = array(1, 2, 3)\nreturn a[0]")
C("annotation/attribute", "z: math.int = 1\nreturn z", "z: int = 1\nreturn z")


# ------------------------------------------------------------------ positions in list-valued fields
# For every list-valued field that is accepted somewhere, pairs that vary the element at the
# first, a middle and the last position (and, for nested repetition -- generator k of n, guard j
# of m -- both indices).  A consumer that handles only one position (e.g. only the last
# generator's guards) shows up as a pair with identical HUGR.
LMAIN = """
@guppy
def main(x: int, y: int, b: bool) -> int:
{body}
"""

WMAIN = """
@guppy
def main(q: qubit, c: qubit, d: qubit, e: qubit, n: nat) -> None:
{body}
"""

HEADER_POS = """
@guppy.declare
def ext3(a: int, b: int, c: int) -> int: ...
"""


def _subst(xs, k, v):
    return [v if i == k else x for i, x in enumerate(xs)]


def positional_cases():
    E = (True,)      # needs experimental features (lists / modifiers)
    B = (False, True)
    # --- comprehension.ifs: generator k of n, guard j of m; guard removed and guard changed
    its = ["range(2)", "range(3)", "range(4)"]
    vs = ["i", "j", "k"]
    for n in (1, 2, 3):
        elt = " + ".join(vs[:n])
        for k in range(n):
            for m in (1, 2, 3):
                guards = [[] for _ in range(n)]
                # the other generators also carry one guard each, so that "only the last
                # generator" and "only the first guard" mistakes are both visible
                for g in range(n):
                    guards[g] = [f"{vs[g]} < 9"]
                guards[k] = [f"{vs[k]} > {c}" for c in range(m)]
                for j in range(m):
                    def comp(gs):
                        return "[" + elt + " " + " ".join(
                            f"for {vs[g]} in {its[g]}" + "".join(f" if {c}" for c in gs[g]) for g in range(n)) + "]"
                    a = comp(guards)
                    changed = [list(g) for g in guards]
                    changed[k][j] = f"{vs[k]} > {j + 5}"
                    removed = [list(g) for g in guards]
                    del removed[k][j]
                    C(f"pos:comprehension.ifs/gen{k}of{n}/guard{j}of{m}/changed", f"l = {a}\nreturn x", f"l = {comp(changed)}\nreturn x", exp=E)
                    C(f"pos:comprehension.ifs/gen{k}of{n}/guard{j}of{m}/removed", f"l = {a}\nreturn x", f"l = {comp(removed)}\nreturn x", exp=E)
    # --- ListComp.generators: iterable / target of generator k of n, generator removed
    for n in (2, 3):
        elt = " + ".join(vs[:n])
        gens = [f"for {vs[g]} in {its[g]}" for g in range(n)]
        a = "[" + elt + " " + " ".join(gens) + "]"
        for k in range(n):
            b_ = "[" + elt + " " + " ".join(_subst(gens, k, f"for {vs[k]} in range(7)")) + "]"
            C(f"pos:ListComp.generators/iter{k}of{n}", f"l = {a}\nreturn x", f"l = {b_}\nreturn x", exp=E)
        for k in range(n):
            rest = [g for i, g in enumerate(gens) if i != k]
            elt2 = " + ".join(v for i, v in enumerate(vs[:n]) if i != k)
            C(f"pos:ListComp.generators/removed{k}of{n}", f"l = [{elt2} {' '.join(gens)}]\nreturn x",
              f"l = [{elt2} {' '.join(rest)}]\nreturn x", exp=E)
    # --- Call.args / Tuple.elts / List.elts / array elements / comptime args / BoolOp.values / Compare
    args = ["x", "y", "1"]
    for k in range(3):
        C(f"pos:Call.args/{k}of3", f"return ext3({', '.join(args)})", f"return ext3({', '.join(_subst(args, k, '7'))})", exp=B)
        C(f"pos:Call.args/nested-fn/{k}of3", "def g(a: int, c: int, d: int) -> int:\n    return a - c * d\n" + f"return g({', '.join(args)})",
          "def g(a: int, c: int, d: int) -> int:\n    return a - c * d\n" + f"return g({', '.join(_subst(args, k, '7'))})", exp=B)
        C(f"pos:Call.args/struct/{k}of2" if k < 2 else "pos:Call.args/array-index", f"s = S({', '.join(args[:2])})\nreturn s.a" if k < 2 else "a = array(x, y, 1)\nreturn a[2]",
          f"s = S({', '.join(_subst(args[:2], k, '7'))})\nreturn s.a" if k < 2 else "a = array(x, y, 7)\nreturn a[2]", exp=B)
        C(f"pos:Call.args/array/{k}of3", f"a = array({', '.join(args)})\nreturn a[0]", f"a = array({', '.join(_subst(args, k, '7'))})\nreturn a[0]", exp=B)
        C(f"pos:Call.args/comptime/{k}of3", "t = comptime(N1, N2, N1)\nreturn t[0]",
          f"t = comptime({', '.join(_subst(['N1', 'N2', 'N1'], k, '7'))})\nreturn t[0]", exp=B)
        C(f"pos:Tuple.elts/{k}of3", f"t = ({', '.join(args)})\nreturn t[0]", f"t = ({', '.join(_subst(args, k, '7'))})\nreturn t[0]", exp=B)
        C(f"pos:Tuple.elts/return/{k}of3", f"def g() -> tuple[int, int, int]:\n    return {', '.join(args)}\nreturn g()[0]",
          f"def g() -> tuple[int, int, int]:\n    return {', '.join(_subst(args, k, '7'))}\nreturn g()[0]", exp=B)
        C(f"pos:List.elts/{k}of3", f"l = [{', '.join(args)}]\nreturn x", f"l = [{', '.join(_subst(args, k, '7'))}]\nreturn x", exp=E)
        tg = ["p", "q", "r"]
        C(f"pos:Tuple.elts/target/{k}of3", f"w = 0\np = 0\nq = 0\nr = 0\n{', '.join(tg)} = x, y, 1\nreturn p + 2 * q + 3 * r + 5 * w",
          f"w = 0\np = 0\nq = 0\nr = 0\n{', '.join(_subst(tg, k, 'w'))} = x, y, 1\nreturn p + 2 * q + 3 * r + 5 * w", exp=B)
        C(f"pos:List.elts/target/{k}of3", f"w = 0\np = 0\nq = 0\nr = 0\n[{', '.join(tg)}] = x, y, 1\nreturn p + 2 * q + 3 * r + 5 * w",
          f"w = 0\np = 0\nq = 0\nr = 0\n[{', '.join(_subst(tg, k, 'w'))}] = x, y, 1\nreturn p + 2 * q + 3 * r + 5 * w", exp=B)
        vals = ["b", "x > 0", "y > 0"]
        for op in ("and", "or"):
            C(f"pos:BoolOp.values/{op}/{k}of3", f"z = {f' {op} '.join(vals)}\nreturn int(z)",
              f"z = {f' {op} '.join(_subst(vals, k, 'x > 7'))}\nreturn int(z)", exp=B)
            C(f"pos:BoolOp.values/{op}-in-if/{k}of3", f"z = 0\nif {f' {op} '.join(vals)}:\n    z = 1\nreturn z",
              f"z = 0\nif {f' {op} '.join(_subst(vals, k, 'x > 7'))}:\n    z = 1\nreturn z", exp=B)
        operands = ["x", "y", "3", "x"]
        ops_ = ["<", "<=", "<"]
        def chain(os_, cs):
            return cs[0] + "".join(f" {o} {c}" for o, c in zip(os_, cs[1:]))
        C(f"pos:Compare.ops/{k}of3", f"z = {chain(ops_, operands)}\nreturn int(z)", f"z = {chain(_subst(ops_, k, '!='), operands)}\nreturn int(z)", exp=B)
        C(f"pos:Compare.comparators/{k}of3", f"z = {chain(ops_, operands)}\nreturn int(z)",
          f"z = {chain(ops_, _subst(operands, k + 1, '7'))}\nreturn int(z)", exp=B)
        C(f"pos:Compare.ops/in-while/{k}of3", f"z = 0\nwhile {chain(ops_, ['z', 'y', '30', 'x'])}:\n    z += 1\nreturn z",
          f"z = 0\nwhile {chain(_subst(ops_, k, '!='), ['z', 'y', '30', 'x'])}:\n    z += 1\nreturn z", exp=B)
    # --- statement lists: body / orelse of If, While, For, nested FunctionDef, main; elif chains
    st = ["z += 1", "z *= 3", "z -= y"]
    def blk(stmts, ind="    "):
        return "".join(f"{ind}{s_}\n" for s_ in stmts)
    for k in range(3):
        st2 = _subst(st, k, "z += 11")
        C(f"pos:If.body/{k}of3", f"z = x\nif b:\n{blk(st)}return z", f"z = x\nif b:\n{blk(st2)}return z", exp=B)
        C(f"pos:If.orelse/{k}of3", f"z = x\nif b:\n    pass\nelse:\n{blk(st)}return z", f"z = x\nif b:\n    pass\nelse:\n{blk(st2)}return z", exp=B)
        C(f"pos:While.body/{k}of3", f"z = x\nwhile z < 100:\n{blk(st)}return z", f"z = x\nwhile z < 100:\n{blk(st2)}return z", exp=B)
        C(f"pos:For.body/{k}of3", f"z = x\nfor i in range(3):\n{blk(st)}return z", f"z = x\nfor i in range(3):\n{blk(st2)}return z", exp=B)
        C(f"pos:FunctionDef.body/nested/{k}of3", f"def g(z: int, y: int) -> int:\n{blk(st)}    return z\nreturn g(x, y)",
          f"def g(z: int, y: int) -> int:\n{blk(st2)}    return z\nreturn g(x, y)", exp=B)
        C(f"pos:FunctionDef.body/main/{k}of3", f"z = x\n{blk(st, '')}return z", f"z = x\n{blk(st2, '')}return z", exp=B)
        C(f"pos:With.body/{k}of3", blk(["u1(q)", "u1(c)", "u1(q)"], ""), blk(_subst(["u1(q)", "u1(c)", "u1(q)"], k, "u1(d)"), ""), frame=WMAIN, exp=E)
        tests = ["x > 0", "x > 1", "x > 2"]
        def elif_(ts, vals_):
            return (f"z = 0\nif {ts[0]}:\n    z = {vals_[0]}\nelif {ts[1]}:\n    z = {vals_[1]}\nelif {ts[2]}:\n    z = {vals_[2]}\nelse:\n    z = {vals_[3]}\nreturn z")
        C(f"pos:If.orelse/elif-test/{k}of3", elif_(tests, "1234"), elif_(_subst(tests, k, "y > 5"), "1234"), exp=B)
        C(f"pos:If.orelse/elif-body/{k}of3", elif_(tests, "1234"), elif_(tests, _subst(list("1234"), k + 1, "9")), exp=B)
        # --- arguments.args (nested function): annotation and name at position k
        params = ["a: int", "c: int", "d: int"]
        C(f"pos:arguments.args/annotation/{k}of3", f"def g({', '.join(params)}) -> int:\n    return a\nreturn g(x, y, 1)",
          f"def g({', '.join(_subst(params, k, params[k].split(':')[0] + ': bool'))}) -> int:\n    return 0\nreturn g(x, y, 1)", exp=B)
        C(f"pos:arguments.args/name/{k}of3", f"def g({', '.join(params)}) -> int:\n    return a + 2 * c + 3 * d\nreturn g(x, y, 1)",
          f"def g({', '.join(_subst(params, k, 'w: int'))}) -> int:\n    return a + 2 * c + 3 * d\nreturn g(x, y, 1)", exp=B)
        # --- With.items: modifier at position k of 3
        items = ["control(c)", "control(d)", "control(e)"]
        C(f"pos:With.items/{k}of3", f"with {', '.join(items)}:\n    u1(q)", f"with {', '.join(_subst(items, k, 'power(n)'))}:\n    u1(q)", frame=WMAIN, exp=E)
        C(f"pos:With.items/removed/{k}of3", f"with {', '.join(items)}:\n    u1(q)", f"with {', '.join(x_ for i_, x_ in enumerate(items) if i_ != k)}:\n    u1(q)", frame=WMAIN, exp=E)
        cargs = ["c", "d", "e"]
        C(f"pos:Call.args/control/{k}of3", f"with control({', '.join(cargs)}):\n    u1(q)",
          f"with control({', '.join(x_ for i_, x_ in enumerate(cargs) if i_ != k)}):\n    u1(q)", frame=WMAIN, exp=E)
        # --- type arguments in annotations
        targs = ["int", "int", "int"]
        C(f"pos:Tuple.elts/annotation/{k}of3", f"t: tuple[{', '.join(targs)}] = (x, y, 1)\nreturn t[0]",
          f"t: tuple[{', '.join(_subst(targs, k, 'bool'))}] = (x, y, 1)\nreturn t[0]", exp=B)
    # rejected list-valued fields, one pair per position (must stay rejected at every position)
    for k in range(3):
        kw = ["a=x", "b=y", "c=1"]
        C(f"pos:Call.keywords/{k}of3", f"return ext3({', '.join(kw)})", f"return ext3({', '.join(_subst(kw, k, kw[k][:2] + '7'))})", exp=B)
        C(f"pos:Call.keywords/after-args/{k}of2" if k < 2 else "pos:Call.keywords/only-last", "return ext3(x, b=y, c=1)" if k < 2 else "return ext3(x, y, c=1)",
          ("return ext3(x, b=7, c=1)" if k == 0 else "return ext3(x, b=y, c=7)") if k < 2 else "return ext3(x, y, c=7)", exp=B)
        tg = ["p", "q", "r"]
        C(f"pos:Assign.targets/{k}of3", f"w = 0\n{' = '.join(tg)} = x\nreturn x", f"w = 0\n{' = '.join(_subst(tg, k, 'w'))} = x\nreturn x", exp=B)
        decs = ["@ext", "@sub", "@ext"]
        C(f"pos:FunctionDef.decorator_list/{k}of3", "\n".join(decs) + "\ndef g(a: int) -> int:\n    return a\nreturn g(x)",
          "\n".join(_subst(decs, k, "@ext2")) + "\ndef g(a: int) -> int:\n    return a\nreturn g(x)", exp=B)
        dfl = ["1", "2", "3"]
        C(f"pos:arguments.defaults/{k}of3", f"def g(a: int = {dfl[0]}, c: int = {dfl[1]}, d: int = {dfl[2]}) -> int:\n    return a\nreturn g(x, y, 1)",
          "def g(a: int = {}, c: int = {}, d: int = {}) -> int:\n    return a\nreturn g(x, y, 1)".format(*_subst(dfl, k, "7")), exp=B)
        C(f"pos:arguments.defaults/last-only/{k}", f"def g(a: int, c: int, d: int = 3) -> int:\n    return a\nreturn g(x, y, 1)",
          "def g(a: int, c: int, d: int = 7) -> int:\n    return a\nreturn g(x, y, 1)", exp=B) if k == 0 else None


positional_cases()


def jump_cases():
    """Jump statements (break / continue / return) inside every clause body that takes statements,
    at the first and the last position of the clause, inside nested loops: the jump must go where
    Python says (a `break` in a loop's `else` clause leaves the ENCLOSING loop), so replacing it by
    `pass` -- or by another jump -- must change the compiled program or the construct must be
    rejected."""
    B = (False,)   # control flow does not depend on the experimental-features switch

    def ind(text, n=1):
        return textwrap.indent(text, "    " * n)

    # clause templates: {J} is the clause body (already a block of lines); every template has
    # statements after the construct so that break / continue / falling through all differ
    inner = {
        "while-else": "k = 0\nwhile k < 2:\n    k += 1\n    z += 1\nelse:\n{J}\nz += 10",
        "for-else": "for j in range(2):\n    z += 1\nelse:\n{J}\nz += 10",
        "for-else-with-break": "for j in range(2):\n    if j > y:\n        break\n    z += 1\nelse:\n{J}\nz += 10",
        "if-body": "if i > y:\n{J}\nz += 10",
        "elif-body": "if i > y:\n    z += 2\nelif i > 0:\n{J}\nz += 10",
        "else-body": "if i > y:\n    z += 2\nelse:\n{J}\nz += 10",
        "for-body": "for j in range(2):\n{J}\n    z += 5\nz += 10",
        "while-body": "k = 0\nwhile k < 2:\n    k += 1\n{J}\n    z += 5\nz += 10",
        "if-in-for-body": "for j in range(2):\n    if j > y:\n{J2}\n    z += 5\nz += 10",
        "nested-loop-else-in-else": "for j in range(2):\n    z += 1\nelse:\n    for m in range(2):\n        z += 3\n    else:\n{J2}\n    z += 7\nz += 10",
    }
    outers = {
        "for": "z = x\nfor i in range(3):\n{S}\n    z += 1000\nreturn z",
        "while": "z = x\ni = 0\nwhile i < 3:\n    i += 1\n{S}\n    z += 1000\nreturn z",
        "for-in-for": "z = x\nfor o in range(2):\n    for i in range(3):\n{S2}\n        z += 1000\n    z += 5000\nreturn z",
    }
    jumps = ["break", "continue", "return z"]
    for oname, outer in outers.items():
        for cname, tmpl in inner.items():
            for pos in ("first", "last", "only"):
                def clause(j, depth):
                    body = {"first": [j, "z += 100"], "last": ["z += 100", j], "only": [j]}[pos]
                    return ind("\n".join(body), depth)

                def build_(j):
                    t = tmpl.replace("{J2}", clause(j, 2)).replace("{J}", clause(j, 1))
                    return outer.replace("{S2}", ind(t, 2)).replace("{S}", ind(t, 1))
                for j in jumps:
                    C(f"jump:{oname}/{cname}/{pos}/{j.split()[0]}-vs-pass", build_(j), build_("pass"), exp=B)
                C(f"jump:{oname}/{cname}/{pos}/break-vs-continue", build_("break"), build_("continue"), exp=B)
    # `return` in a loop else / clause without an enclosing loop, and inside a nested function
    for cname in ("while-else", "for-else", "for-else-with-break"):
        for pos in ("first", "last"):
            body = {"first": ["return z", "z += 100"], "last": ["z += 100", "return z"]}[pos]
            bodyp = {"first": ["pass", "z += 100"], "last": ["z += 100", "pass"]}[pos]
            t = inner[cname].replace("i > y", "x > y")
            C(f"jump:none/{cname}/{pos}/return-vs-pass", "z = x\n" + t.replace("{J}", ind("\n".join(body))) + "\nreturn z + 1",
              "z = x\n" + t.replace("{J}", ind("\n".join(bodyp))) + "\nreturn z + 1", exp=B)
            for j in jumps:
                fa = "def g(z: int, y: int) -> int:\n    for i in range(3):\n" + ind(inner[cname].replace("{J}", ind(j if pos == "last" else j + "\nz += 100")), 2) + "\n        z += 1000\n    return z\nreturn g(x, y)"
                fb = "def g(z: int, y: int) -> int:\n    for i in range(3):\n" + ind(inner[cname].replace("{J}", ind("pass" if pos == "last" else "pass\nz += 100")), 2) + "\n        z += 1000\n    return z\nreturn g(x, y)"
                C(f"jump:nested-fn/{cname}/{pos}/{j.split()[0]}-vs-pass", fa, fb, exp=B)
    # with-block bodies (modifiers): jumps are rejected there; must stay rejected or take effect
    for j in ("break", "continue", "return"):
        C(f"jump:for/with-body/{j}-vs-pass", f"for i in range(2):\n    with control(c):\n        u1(q)\n        {j}\n    u1(d)",
          "for i in range(2):\n    with control(c):\n        u1(q)\n        pass\n    u1(d)", frame=WMAIN, exp=(True,))


jump_cases()


def effect_cases():
    """Expression positions: for every expression form with sub-expressions, an effectful
    sub-expression (a call to a distinct declared marker function, `result`, a gate) against an
    effect-free one of the same type at each position, all OTHER positions staying effectful.
    Python evaluates every operand of these forms, so the compiled programs must differ (or the
    form must be rejected) -- also where the value of the position is discarded, e.g. the
    non-selected elements of `(a, b, c)[1]`."""
    F, E = (False,), (True,)
    I = [("mk0(x)", "x"), ("mk1(y)", "y"), ("mk2(1)", "1"), ("mk3(x)", "x")]
    Bo = [("mkb0(x)", "b"), ("mkb1(y)", "b"), ("mkb2(1)", "b")]
    N = ("mkn(x)", "None")
    T = []   # (name, body template, slots, exp, frame)

    def t(name, body, slots, exp=F, frame=MAIN):
        T.append((name, body, slots, exp, frame))

    for k in range(3):
        t(f"tuple-literal[{k}]", "return ({0}, {1}, {2})[%d]" % k, I[:3])
        t(f"tuple-literal[{k}]-assigned", "z = ({0}, {1}, {2})[%d]\nreturn z + 1" % k, I[:3])
        t(f"tuple-var[{k}]", "t = ({0}, {1}, {2})\nreturn t[%d]" % k, I[:3])
        t(f"array-literal[{k}]", "return array({0}, {1}, {2})[%d]" % k, I[:3])
        t(f"list-literal[{k}]", "return [{0}, {1}, {2}][%d]" % k, I[:3], E)
        t(f"tuple-literal[{k}]-stmt", "({0}, {1}, {2})[%d]\nreturn x" % k, I[:3])
        t(f"tuple-literal[{k}]-in-if", "z = 0\nif ({0}, {1}, {2})[%d] > 0:\n    z = 1\nreturn z" % k, I[:3])
        t(f"tuple-literal[{k}]-as-arg", "return ext(({0}, {1}, {2})[%d])" % k, I[:3])
    for i in range(2):
        for j in range(2):
            t(f"nested-tuple[{i}][{j}]", "return (({0}, {1}), ({2}, {3}))[%d][%d]" % (i, j), I)
            t(f"nested-tuple-mixed[{i}][{j}]", "t = ({0}, {1})\nreturn (t, ({2}, {3}))[%d][%d]" % (i, j), I)
    t("tuple-with-none[1]", "return ({0}, {1})[1]", [N, I[0]])
    t("tuple-with-none[0]", "({0}, {1})[0]\nreturn x", [N, I[0]])
    t("tuple-with-result[1]", "return ({0}, {1})[1]", [("result('seen', x)", "None"), I[0]])
    t("tuple-of-gates[1]", "z = ({0}, 7, {1})[1]", [("h(q)", "None"), ("qx(d)", "None")], F,
      "\n@guppy\ndef main(q: qubit, c: qubit, d: qubit, e: qubit, n: nat) -> None:\n{body}\n")
    t("tuple-of-gates[0]", "({0}, {1}, 7)[0]", [("h(q)", "None"), ("qx(d)", "None")], F,
      "\n@guppy\ndef main(q: qubit, c: qubit, d: qubit, e: qubit, n: nat) -> None:\n{body}\n")
    t("call-result[i]", "return mkt({0})[0] + mkarr({1})[{2}]", I[:3])
    t("subscript", "a = array(1, 2, 3)\nreturn {0}[{1}]", [("mkarr(x)", "a"), ("mk1(y)", "y")])
    t("attribute-of-call", "s = S(x, y)\nreturn {0}.a", [("mks(x)", "s")])
    t("struct-ctor", "return S({0}, {1}).c", I[:2])
    t("struct-ctor-var", "s = S({0}, {1})\nreturn s.a", I[:2])
    t("binop", "return {0} + {1} * {2}", I[:3])
    t("binop-discarded", "{0} + {1} * {2}\nreturn x", I[:3])
    t("unaryop", "return -{0}", I[:1])
    t("boolop-and", "z = {0} and {1} and {2}\nreturn int(z)", Bo)
    t("boolop-or", "z = {0} or {1} or {2}\nreturn int(z)", Bo)
    t("boolop-in-if", "z = 0\nif {0} and {1} or {2}:\n    z = 1\nreturn z", Bo)
    t("boolop-stmt", "{0} and {1}\nreturn x", Bo[:2])
    t("not", "z = not {0}\nreturn int(z)", Bo[:1])
    t("compare", "z = {0} < {1}\nreturn int(z)", I[:2])
    t("compare-chain", "z = {0} < {1} <= {2}\nreturn int(z)", I[:3])
    t("compare-chain-in-while", "z = 0\nwhile {0} < {1} < {2}:\n    z += 1\nreturn z", I[:3])
    t("ifexp", "return {1} if {0} else {2}", [Bo[0], I[1], I[2]])
    t("ifexp-stmt", "{1} if {0} else {2}\nreturn x", [Bo[0], I[1], I[2]])
    t("ifexp-in-test", "z = 0\nif ({1} if {0} else {2}):\n    z = 1\nreturn z", Bo)
    t("call-args", "return ext3({0}, {1}, {2})", I[:3])
    t("call-args-stmt", "ext3({0}, {1}, {2})\nreturn x", I[:3])
    t("call-args-nested-fn", "def g(a: int, c: int, d: int) -> int:\n    return a\nreturn g({0}, {1}, {2})", I[:3])
    t("call-args-nested-call", "return ext2(ext({0}), ext2({1}, {2}))", I[:3])
    t("method-call", "return {0}.__add__({1})", I[:2])
    t("array-ctor", "a = array({0}, {1}, {2})\nreturn a[0]", I[:3])
    t("array-ctor-discarded", "array({0}, {1}, {2})\nreturn x", I[:3])
    t("tuple-display-discarded", "({0}, {1}, {2})\nreturn x", I[:3])
    t("tuple-display-unused-var", "t = ({0}, {1}, {2})\nreturn x", I[:3])
    t("tuple-unpack", "p, q, r = {0}, {1}, {2}\nreturn q", I[:3])
    t("tuple-unpack-nested", "p, (q, r) = {0}, ({1}, {2})\nreturn p", I[:3])
    t("tuple-return", "def g() -> tuple[int, int, int]:\n    return {0}, {1}, {2}\nreturn g()[1]", I[:3], E)
    t("list-display", "l = [{0}, {1}, {2}]\nreturn x", I[:3], E)
    t("listcomp", "l = [{0} for i in range({1}) if {2}]\nreturn x", [("mk0(i)", "i"), ("mk1(y)", "y"), ("mkb0(i)", "i > 0")], E)
    t("listcomp-two-gens", "l = [{0} for i in range({1}) if {2} for j in range({3})]\nreturn x",
      [("mk0(i + j)", "i + j"), ("mk1(y)", "y"), ("mkb0(i)", "i > 0"), ("mk3(i)", "i")], E)
    t("array-comp", "a = array({0} for i in range(3))\nreturn a[0]", [("mk0(i)", "i")])
    t("walrus", "z = (w := {0}) + {1}\nreturn z + w", I[:2])
    t("walrus-in-if", "z = 0\nif (w := {0}) > {1}:\n    z = w\nreturn z", I[:2])
    t("augassign", "z = x\nz += {0}\nreturn z", I[:1])
    t("augassign-subscript", "a = array(1, 2, 3)\na[{0}] += {1}\nreturn a[0]", I[:2])
    t("assign-subscript", "a = array(1, 2, 3)\na[{0}] = {1}\nreturn a[0]", I[:2])
    t("annassign", "z: int = {0}\nreturn x", I[:1])
    t("expr-stmt", "{0}\nreturn x", I[:1])
    t("expr-stmt-none", "{0}\nreturn x", [N])
    t("return-value", "return {0}", I[:1])
    t("for-iter", "z = 0\nfor i in range({0}):\n    z += {1}\nreturn z", I[:2])
    t("while-test", "z = 0\nwhile z < {0}:\n    z += {1}\nreturn z", I[:2])
    t("comptime-mixed", "return ({0}, comptime(N1))[1] + {1}", I[:2])
    for name, body, slots, exp, frame in T:
        eff = [e for e, _ in slots]
        for i, (e_, pure) in enumerate(slots):
            vals = list(eff)
            vals[i] = pure
            a_, b_ = body.format(*eff), body.format(*vals)
            if frame is MAIN:
                C(f"effect:{name}/slot{i}", a_, b_, exp=exp)
            else:
                C(f"effect:{name}/slot{i}", textwrap.indent(a_, "    "), textwrap.indent(b_, "    "), frame=frame, exp=exp)


effect_cases()


def build(case):
    """-> (src_a, src_b)"""
    fr = case["frame"]
    if "{body}" in fr and (fr is MAIN or fr is QMAIN or fr is WMAIN or fr is LMAIN):
        return prog(case["a"], fr), prog(case["b"], fr)
    return HEADER + fr.replace("{body}", case["a"]), HEADER + fr.replace("{body}", case["b"])


def ast_diff(sa, sb):
    """First (kind, field) at which the two module ASTs differ, walking in parallel."""
    def go(x, y, kind, field):
        if isinstance(x, ast.AST) and isinstance(y, ast.AST):
            if type(x) is not type(y):
                return (kind, field, f"{type(x).__name__}->{type(y).__name__}")
            for f in x._fields:
                r = go(getattr(x, f, None), getattr(y, f, None), type(x).__name__, f)
                if r:
                    return r
            return None
        if isinstance(x, list) and isinstance(y, list):
            for p, q in zip(x, y):
                r = go(p, q, kind, field)
                if r:
                    return r
            if len(x) != len(y):
                return (kind, field, f"len {len(x)}->{len(y)}")
            return None
        if x != y or type(x) is not type(y):
            return (kind, field, f"{x!r}->{y!r}"[:60])
        return None
    return go(ast.parse(sa), ast.parse(sb), "Module", "body")


def node_kinds(src):
    return sorted({type(n).__name__ for n in ast.walk(ast.parse(src))})


# ------------------------------------------------------------------ matrix emission
# (run under the interpreter that runs guppylang: the driver's Python may be older than the
#  syntax used in some cases)
CONTEXTS = {
    "plain": None,
    "if": "if b:\n{body}\nreturn x",
    "else": "if b:\n    pass\nelse:\n{body}\nreturn x",
    "loop": "for _i in range(2):\n{body}\nreturn x",
    "nested": "def inner(x: int, y: int, b: bool) -> int:\n{body}\n    return x\nreturn inner(x, y, b)",
}


def wrap(body, context):
    if context == "plain":
        return body
    return CONTEXTS[context].replace("{body}", textwrap.indent(textwrap.dedent(body).strip("\n"), "    "))


def main_nodes(src):
    """All nodes inside `main` except the function node itself (its decorator is @guppy) and the
    arguments of comptime()/py() (evaluated by CPython)."""
    out = []

    def go(n):
        out.append(n)
        if isinstance(n, ast.Call) and isinstance(n.func, ast.Name) and n.func.id in ("comptime", "py"):
            return
        for c in ast.iter_child_nodes(n):
            go(c)
    for f in ast.parse(src).body:
        if isinstance(f, (ast.FunctionDef, ast.AsyncFunctionDef)) and f.name == "main":
            out.append(f.args)
            for part in [f.args, *f.body, *([f.returns] if f.returns else [])]:
                go(part)
            if isinstance(f, ast.AsyncFunctionDef):
                out.append(f)
    return out


def summary(src):
    """-> (kinds, present): node kinds in main; (kind, field) pairs with a non-empty value"""
    kinds, present = set(), set()
    for n in main_nodes(src):
        k = type(n).__name__
        kinds.add(k)
        for f in n._fields:
            if getattr(n, f, None) not in (None, [], 0):
                present.add(f"{k}.{f}")
    return sorted(kinds), sorted(present)


def emit(contexts, sample=None):
    """`sample` = (n, seed): only n seeded (case, context) combinations are built."""
    out = []
    combos = [(c, cx) for c in CASES for cx in contexts
              # jump cases bring their own enclosing loops
              if not (cx != "plain" and (c["frame"] is not MAIN or c["id"].startswith("jump:")))]
    if sample is not None:
        import random
        r = random.Random(f"{sample[1]}/C32-contexts")
        combos = [combos[j] for j in sorted(r.sample(range(len(combos)), min(sample[0], len(combos))))]
    for c, cx in combos:
        if True:
            cc = dict(c)
            cc["a"], cc["b"] = wrap(c["a"], cx), wrap(c["b"], cx)
            sa, sb = build(cc)
            try:
                d = ast_diff(sa, sb)
                ka, pa = summary(sa)
                kb, pb = summary(sb)
            except SyntaxError as e:
                out.append({"id": c["id"], "context": cx, "syntax_error": str(e)})
                continue
            out.append({"id": c["id"], "context": cx, "exp": c["exp"], "a": sa, "b": sb, "note": c["note"],
                        "diff": list(d) if d else None, "kinds_a": ka, "kinds_b": kb, "present_a": pa, "present_b": pb})
    return out


if __name__ == "__main__":
    import json
    import sys
    args = sys.argv[1:]
    smp = None
    if args and args[0] == "--sample":
        smp = (int(args[1]), args[2])
        args = args[3:]
    json.dump(emit(args or ["plain"], smp), sys.stdout)
