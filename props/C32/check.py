"""C32 — accepted syntax is never silently ignored.  Tie: T (generated field-use table) + X
(program-pair matrix through the real front end).

1. regenerate coq/C32/GenTable.v: CPython's grammar (from the `ast` module of the interpreter
   that runs guppylang) + the scopes / reads / guards / dispatch facts found in the front-end
   sources of the tree under test (props/C32/tr_visitors.py, fail-closed, run under /venv python);
2. re-check coq/C32/Props.v (`no_silent_drop` over the regenerated table);
3. translator validation: the table's kind-level verdicts, evaluated inside Coq, are compared
   with what the real front end does on the program matrix (a kind the table calls "rejected
   everywhere" must never occur in an accepted program; a field the table calls "rejected when
   present" must make its program be rejected);
4. the decisive test: every program pair of props/C32/cases.py (one per node kind x field /
   optional clause; experimental features off and on; thorough: also inside 4 enclosing
   contexts) goes through check()+compile(); a pair accepted twice with the same HUGR is a
   silently dropped field -> counterexample with the pair as replay;
5. if the proof broke: the unaccounted (scope, field) pairs computed in Coq are reported with
   the matrix verdicts for that field; without a concrete silent drop the check reports
   proof-broken / no-failing-input-found."""
import json
import subprocess

import vlib
from vlib import proof_coverage

LEVEL = "proof"
# pairs whose two programs mean the same in Python: no effect is required (see cases.py notes)
INFORMATIONAL = {"Pass", "Constant.kind", "Expr.value/const", "Expr.value/ellipsis", "Expr.value/docstring-middle"}

ALL_CONTEXTS = ["plain", "if", "else", "loop", "nested"]


def run_translator(ctx):
    import tr_visitors  # noqa: F401  (only for its path)
    script = ctx.dir / "tr_visitors.py"
    env = dict(__import__("os").environ)
    env["PYTHONPATH"] = str(vlib.VERIF / "tools")
    env["PYTHONHASHSEED"] = "0"
    p = subprocess.run([vlib.PY, str(script), "--json", str(ctx.repo / vlib.SRC_INT)], text=True,
                       stdout=subprocess.PIPE, stderr=subprocess.PIPE, env=env, timeout=300)
    if p.returncode == 3:
        raise vlib.TranslatorError(p.stderr.strip()[-600:])
    if p.returncode != 0:
        raise vlib.TranslatorError("translator crashed: " + p.stderr.strip()[-800:])
    return json.loads(p.stdout)


def generate(ctx):
    rep = run_translator(ctx)
    ctx.gen("GenTable.v", rep["coq"])
    ctx._c32 = rep
    return rep


def emit_matrix(ctx, contexts):
    """Build the program pairs under the interpreter that runs guppylang (cases.py uses syntax the
    driver's Python may not know).  -> list of entries (see cases.emit)."""
    p = subprocess.run([vlib.PY, str(ctx.dir / "cases.py"), *contexts], text=True, stdout=subprocess.PIPE,
                       stderr=subprocess.PIPE, timeout=300)
    if p.returncode != 0:
        raise RuntimeError("cases.py failed: " + p.stderr[-800:])
    return json.loads(p.stdout)


def expand(entries):
    payload, book = [], []
    for en in entries:
        if "syntax_error" in en:
            continue
        for e in en["exp"]:
            i = len(book)
            payload.append({"id": f"{i}A", "src": en["a"], "exp": e})
            payload.append({"id": f"{i}B", "src": en["b"], "exp": e})
            book.append({"entry": en, "exp": e})
    return payload, book


def coq_facts(ctx):
    body = "\n".join([
        "From Coq Require Import String List Bool.", "From V.C32 Require Import ModelDrop GenTable.",
        "Import ListNotations. Open Scope string_scope.",
        "Eval vm_compute in (map (fun d => (k_name d, (kind_rejected tbl (k_name d), has_scope tbl (k_name d)))) grammar).",
        "Eval vm_compute in (unaccounted tbl).",
        "Eval vm_compute in (unhandled_kinds tbl).",
        "Eval vm_compute in (reach_list tbl).",
        "Eval vm_compute in (check_scopes tbl, check_kinds tbl).",
        "Eval vm_compute in (unaccounted ltbl).",
    ])
    out = ctx.coq_eval("facts", body)
    vals = vlib.parse_coq_values(out)
    verdicts = {k: (r, h) for k, (r, h) in vals[0]}
    return {"verdicts": verdicts, "unaccounted": [list(x) for x in vals[1]], "unhandled": list(vals[2]),
            "reach": list(vals[3]), "checks": list(vals[4]), "lowering_unaccounted": [list(x) for x in vals[5]]}


def py_facts(rep, allow):
    """The same decision recomputed in Python from the translator's data (cross-check of the Coq text)."""
    scopes = rep["scopes"]
    by_kind = {}
    for s in scopes:
        by_kind.setdefault(s["kind"], []).append(s)
    un = []
    for s in scopes:
        for f, _, _ in rep["kinds"][s["kind"]]["fields"]:
            touched = f in s["reads"] or f in s["guards"]
            some = any(f in o["reads"] or f in o["guards"] for o in by_kind[s["kind"]])
            if not (s["raises"] or touched or (s["kind"], f) in allow or (s["pass"] and some)):
                un.append([s["name"], s["kind"], f])
    return un


def run(ctx):
    rep = generate(ctx)
    info = ctx.coq_props()
    notes = ctx.notes
    # ---------------------------------------------------------------- implementation side
    corpus = json.loads((ctx.dir / "corpus" / "regressions.json").read_text())
    contexts = ["plain"] if ctx.quick else ALL_CONTEXTS
    if ctx.quick:
        # the plain matrix + a seeded sample of (case, enclosing context) combinations
        entries = emit_matrix(ctx, ["plain"]) + emit_matrix(ctx, ["--sample", "30", str(ctx.seed)] + ALL_CONTEXTS[1:])
    else:
        entries = emit_matrix(ctx, ALL_CONTEXTS)
    skipped_syntax_entries = [e["id"] for e in entries if "syntax_error" in e]
    plain = [e for e in entries if e["context"] == "plain"]
    others = [e for e in entries if e["context"] != "plain" and "syntax_error" not in e]
    payload, book = expand(plain + others)
    # corpus first
    cpayload = []
    for j, c in enumerate(corpus):
        cpayload.append({"id": f"c{j}A", "src": c["a"], "exp": c["exp"]})
        cpayload.append({"id": f"c{j}B", "src": c["b"], "exp": c["exp"]})
    allp = cpayload + payload
    nproc = 4
    chunks = [allp[i::nproc] for i in range(nproc)]
    from concurrent.futures import ThreadPoolExecutor
    with ThreadPoolExecutor(max_workers=nproc) as ex:
        futs = [ex.submit(ctx.impl, "impl_drop.py", {"cases": ch, "base": k * 1000000}, None, "0", 3000)
                for k, ch in enumerate(chunks) if ch]
        raw = [r_ for f in futs for r_ in json.loads(f.result())]
    res = {r["id"]: r for r in raw}

    drops, crashes, verdict_hist, syntax_skipped = [], [], {}, 0

    def judge(tag, cid, context, exp, sa, sb, ra, rb, informational, note="", d=None):
        nonlocal syntax_skipped
        va, vb = ra["verdict"], rb["verdict"]
        verdict_hist[f"{va}/{vb}"] = verdict_hist.get(f"{va}/{vb}", 0) + 1
        if "syntax" in (va, vb):
            syntax_skipped += 1
            return
        for r_ in (ra, rb):
            if r_["verdict"] == "crash":
                crashes.append({"case": cid, "context": context, "exp": exp, "err": r_["err"]})
        if va == "accepted" and vb == "accepted" and ra["fp"] == rb["fp"] and not informational:
            d = d or ("?", "?", "?")
            drops.append({"case": cid, "context": context, "exp": exp, "field": f"{d[0]}.{d[1]}", "change": d[2],
                          "program_a": sa, "program_b": sb, "hugr_fingerprint": ra["fp"], "note": note})

    for j, c in enumerate(corpus):
        judge("corpus", c["id"], "corpus", c["exp"], c["a"], c["b"], res[f"c{j}A"], res[f"c{j}B"], False)
    for i, b in enumerate(book):
        en = b["entry"]
        judge("matrix", en["id"], en["context"], b["exp"], en["a"], en["b"], res[f"{i}A"], res[f"{i}B"],
              en["id"] in INFORMATIONAL, en.get("note", ""), en["diff"])

    seen = set()
    for d in drops:
        key = f"silent-drop:{d['case']}"
        if key in seen:
            continue
        seen.add(key)
        if len(seen) > 12 and ctx.is_known(key) is None:
            continue  # the first dozen distinct pairs are reported; the total is in the evidence
        ctx.report(key, "counterexample", "effect test: two programs that differ in one field are both accepted with identical HUGR", {
            "field_that_differs": d["field"], "change": d["change"], "context": d["context"], "experimental_features": d["exp"],
            "program_a": d["program_a"], "program_b": d["program_b"], "observed": "both accepted, identical compiled HUGR " + str(d["hugr_fingerprint"]),
            "expected": "a compile error for the construct, or different compiled programs (Python gives A and B different meanings)",
            "replay": "write each program to a file, then: PYTHONPATH=/verif/tools:/repo/guppylang/src:/repo/guppylang-internals/src /venv/bin/python -c "
                      "'import repo_shim, importlib.util as u; s=u.spec_from_file_location(\"p\", \"<file>\"); m=u.module_from_spec(s); s.loader.exec_module(m); m.main.check(); print(m.main.compile_function().modules[0].num_nodes())'"
                      " (props/C32/impl_drop.py prints the fingerprints)"})

    # ---------------------------------------------------------------- model side / translator validation
    facts, tv_disagree, tv_checked = None, [], 0
    try:
        facts = coq_facts(ctx)
    except Exception as e:  # GenTable.vo / ModelDrop.vo did not build
        notes.append(f"model evaluation failed: {str(e)[-300:]}")
    allow = set()
    model_text = (vlib.COQ / "C32" / "ModelDrop.v").read_text()
    front_part = model_text.split("Definition lowering_allowlist")[0]
    for m in __import__("re").finditer(r'\("(\w+)", "(\w+)", "', front_part):
        allow.add((m.group(1), m.group(2)))
    if facts is not None:
        # (a) the Coq text says what the translator's data says
        pun = sorted(map(tuple, py_facts(rep, allow)))
        cun = sorted(map(tuple, facts["unaccounted"]))
        if pun != cun:
            ctx.report("translator-mismatch:unaccounted", "correspondence", "GenTable.v vs translator data",
                       {"coq": cun[:10], "python": pun[:10]}, found_input=False)
        # (b) kind-level verdicts against the real front end
        dead = {k for k, (rej, has) in facts["verdicts"].items() if rej and not has}
        guard_only = set()
        by_kind = {}
        for s in rep["scopes"]:
            by_kind.setdefault(s["kind"], []).append(s)
        for k, ss in by_kind.items():
            for f, _, _ in rep["kinds"][k]["fields"]:
                if any(f in s["guards"] for s in ss) and not any(f in s["reads"] for s in ss):
                    guard_only.add((k, f))
        accepted_kinds = set()
        for i, b in enumerate(book):
            en = b["entry"]
            for side in ("a", "b"):
                r_ = res[f"{i}{side.upper()}"]
                if r_["verdict"] != "accepted":
                    continue
                ks = set(en[f"kinds_{side}"])
                accepted_kinds |= ks
                tv_checked += 1
                bad = sorted(ks & dead)
                if bad:
                    tv_disagree.append({"kinds": bad, "case": en["id"], "context": en["context"], "program": en[side]})
                # a field that is only ever guarded must be absent / empty in accepted programs
                for kf in en[f"present_{side}"]:
                    if tuple(kf.split(".")) in guard_only:
                        tv_disagree.append({"guarded_field_present": kf, "case": en["id"], "context": en["context"],
                                            "program": en[side]})
        for d in tv_disagree[:3]:
            ctx.report(f"table-vs-impl:{d.get('kinds') or d.get('guarded_field_present')}:{d['case']}", "correspondence",
                       "the generated table says this construct is always rejected, the real front end accepted a program containing it",
                       d)
        handled = set(rep["facts"]["stmt_handlers"]) | set(rep["facts"]["expr_handlers"])
        never_accepted = sorted(handled - accepted_kinds)
    else:
        never_accepted = []

    # ---------------------------------------------------------------- proof status
    if not info["ok"]:
        excerpt = vlib.CoqResult(False, info["log"]).error_excerpt()
        un = (facts["unaccounted"] + [["lowering"] + x for x in facts["lowering_unaccounted"]]) if facts else None
        unh = facts["unhandled"] if facts else None
        if drops:
            pass  # the concrete failing inputs were reported above
        elif un or unh:
            ctx.report("proof-broken:" + json.dumps([un, unh])[:300], "proof-broken",
                       "no_silent_drop does not hold for the regenerated table",
                       {"unaccounted_scope_fields": un, "kinds_without_verdict": unh, "coq_error": excerpt,
                        "matrix_programs_run": len(payload),
                        "meaning": "front-end code that handles this node kind neither uses nor rejects the field (per the static table); "
                                   "no program pair of the matrix exhibits a silent drop for it"}, found_input=False)
        else:
            ctx.report("proof-broken:" + str(info["failed"]), "proof-broken", str(info["failed"]),
                       {"coq_error": excerpt}, found_input=False)

    # ---------------------------------------------------------------- coverage of the matrix
    diffs = {}
    kinds_in_matrix = set()
    for en in plain:
        if "syntax_error" in en:
            continue
        kinds_in_matrix |= set(en["kinds_a"]) | set(en["kinds_b"])
        d = en["diff"]
        if d:
            diffs[f"{d[0]}.{d[1]}"] = diffs.get(f"{d[0]}.{d[1]}", 0) + 1
    gram_kinds = {k for k, v in rep["kinds"].items() if v["class"] in ("stmt", "expr", "product", "excepthandler", "type_param", "pattern")}
    missing_kinds = sorted(k for k in gram_kinds if k not in kinds_in_matrix and k not in ("Module", "Interactive", "Expression", "FunctionType", "TypeIgnore"))
    accepted_pairs = sum(v for k, v in verdict_hist.items() if k == "accepted/accepted")
    cov = proof_coverage(
        info, "make -f Makefile.C32 C32/Props.vo && coqc C32/Props.v (Print Assumptions)",
        ["Coq 8.16.1 kernel; vm_compute decides check_all on the generated table (bound = that table)",
         "props/C32/tr_visitors.py: 'field f of kind K is read' = attribute access / class-pattern keyword on a variable known to hold a K "
         "(visit_K parameter, annotated parameter, isinstance / case narrowing, grammar-typed child), helper calls followed; "
         "a field that is read but then ignored is invisible to the table and is caught only by the program matrix",
         "the allowlist of 14 (kind, field) pairs in coq/C32/ModelDrop.v, each with its reason",
         "tools/repo_shim.py; HUGR fingerprint = node list + op reprs + links with DefId counters normalised (props/C32/impl_drop.py)",
         "modelled: which front-end code looks at which grammar field and the generic-visit fallbacks; not modelled: what is done with the field",
         "lowering (compiler/expr_compiler.py, stmt_compiler.py): only the per-scope statement lowering_scopes_account (each visit_* of ExprCompiler/StmtCompiler "
         "touches every field of its checked node kind, 5-entry lowering allowlist); a lowering bug that reads a field but compiles the wrong part of it "
         "(e.g. guards of the last generator only) is caught by the positional program matrix only"],
        evaluations=len(payload) + len(cpayload), distinct_nontrivial=accepted_pairs,
        rule="evaluation = one program through check() (+ compile() when accepted); non-trivial = a pair in which both programs are accepted, "
             "so the HUGR comparison decides",
        traces_validated_against_impl=tv_checked, translator_disagreements=len(tv_disagree),
        grammar_kinds=len(rep["kinds"]), grammar_fields=sum(len(v["fields"]) for v in rep["kinds"].values()),
        scopes=len(rep["scopes"]), lowering_scopes=len(rep["lowering_scopes"]), reachable_kinds=len(facts["reach"]) if facts else None,
        pair_verdicts=verdict_hist, contexts=contexts, cases=len(plain), pairs_run=len(book), corpus_pairs=len(corpus),
        entries_with_python_syntax_error=skipped_syntax_entries,
        differing_field_histogram=dict(sorted(diffs.items())), grammar_kinds_not_in_matrix=missing_kinds,
        handled_kinds_never_accepted_in_matrix=never_accepted, python_syntax_errors_skipped=syntax_skipped,
        crashes_not_guppy_errors=crashes[:10], silent_drops=len(drops),
        samples=[{"case": book[j]["entry"]["id"], "context": book[j]["entry"]["context"], "exp": book[j]["exp"],
                  "A": res[f"{j}A"]["verdict"], "B": res[f"{j}B"]["verdict"],
                  "same_hugr": res[f"{j}A"]["fp"] == res[f"{j}B"]["fp"] and res[f"{j}A"]["fp"] is not None}
                 for j in (0, len(book) // 3, 2 * len(book) // 3, len(book) - 1)],
        notes=notes)
    return ctx.finish(LEVEL, cov, [
        "a construct 'takes effect' when changing it changes the compiled HUGR or the verdict; that the effect is the Python one is C03/C05's claim",
        "ast.parse is called without type_comments, so type_comment fields are always None",
        "crashes (non-Guppy exceptions) are not silent and are counted, not reported, here (C02's subject)"])
