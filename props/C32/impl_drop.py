"""C32 implementation side: run Guppy programs through /repo's front end (under repo_shim).

stdin : JSON {"cases": [{"id": str, "src": str, "exp": bool}, ...]}
stdout: JSON list (same order) of
    {"id", "verdict": "accepted" | "rejected" | "crash",
     "err": "<exception class>:<diagnostic class>:<title>" | null,
     "fp": sha1 of the location-free compiled HUGR (accepted programs only),
     "cfp": sha1 of a location-free dump of the checked CFGs (accepted programs only)}

`main` is the function under test in every program.  A program is *accepted* when
`main.check()` returns; then it is also compiled and the HUGR fingerprinted (node list with
parents, `repr` of every op -- which contains constants, op names, signatures -- and the sorted
link list; HUGR built by /repo carries no source positions, so two programs that differ only
in layout have the same fingerprint)."""
import ast
import hashlib
import importlib.util
import json
import os
import re
import sys

import repo_shim  # noqa: F401
import guppylang
from guppylang_internals import experimental as _exp
from guppylang_internals.error import GuppyError


_DEFID = re.compile(r"DefId\(id=\d+\)")  # process-global counter in private function names


def hugr_fp(pkg):
    parts = []
    for h in pkg.modules:
        for n in h:
            d = h[n]
            parts.append((n.idx, d.parent.idx if d.parent else -1, _DEFID.sub("DefId(id=#)", repr(d.op))))
        parts.append(sorted((a.node.idx, a.offset, b.node.idx, b.offset) for a, b in h.links()))
    return hashlib.sha1(repr(parts).encode()).hexdigest()[:16]


def _dump_node(n):
    """Location-free structural dump of a (checked) AST node, including guppy's own nodes."""
    if isinstance(n, ast.AST):
        fields = []
        for f in getattr(n, "_fields", ()):
            if f in ("ctx", "type_comment"):
                continue
            try:
                fields.append((f, _dump_node(getattr(n, f))))
            except AttributeError:
                pass
        extra = []
        ty = getattr(n, "type", None)
        if ty is not None:
            extra.append(("type", str(ty)))
        return (type(n).__name__, fields, extra)
    if isinstance(n, (list, tuple)):
        return [_dump_node(x) for x in n]
    if isinstance(n, (str, int, float, bool, bytes, complex)) or n is None or n is Ellipsis:
        return repr(n)
    return type(n).__name__ + ":" + str(n)[:200]


def cfg_fp(checked):
    out = []
    try:
        cfg = checked.cfg
        for bb in cfg.bbs:
            out.append((bb.idx, [_dump_node(s) for s in bb.statements],
                        _dump_node(bb.branch_pred) if bb.branch_pred is not None else None,
                        [s.idx for s in bb.successors]))
    except Exception as e:  # fingerprint is auxiliary; the HUGR fingerprint decides
        out.append("cfg-dump-failed:" + type(e).__name__)
    return hashlib.sha1(repr(out).encode()).hexdigest()[:16]


def run_case(case, idx, scratch):
    path = os.path.join(scratch, f"c32prog_{idx}.py")
    with open(path, "w") as f:
        f.write(case["src"])
    _exp.EXPERIMENTAL_FEATURES_ENABLED = bool(case.get("exp"))
    res = {"id": case["id"], "verdict": None, "err": None, "fp": None, "cfp": None}
    try:
        spec = importlib.util.spec_from_file_location(f"c32prog_{idx}", path)
        mod = importlib.util.module_from_spec(spec)
        sys.modules[spec.name] = mod
        spec.loader.exec_module(mod)
        fn = mod.main
        fn.check()
        res["verdict"] = "accepted"
    except GuppyError as e:
        d = getattr(e, "error", None)
        res["verdict"] = "rejected"
        res["err"] = f"{type(e).__name__}:{type(d).__name__}:{getattr(d, 'title', '')}"
        try:
            msg = getattr(d, "rendered_title", None) or ""
            sl = getattr(d, "rendered_span_label", None) or ""
            res["msg"] = f"{msg} | {sl}"[:300]
        except Exception:
            pass
        return res
    except SyntaxError as e:
        res["verdict"] = "syntax"
        res["err"] = f"SyntaxError:{e.msg}"
        return res
    except BaseException as e:  # noqa: BLE001
        res["verdict"] = "crash"
        res["err"] = f"{type(e).__name__}:{str(e)[:200]}"
        return res
    try:
        pkg = fn.compile_function() if hasattr(fn, "compile_function") else fn.compile()
        res["fp"] = hugr_fp(pkg)
    except GuppyError as e:
        d = getattr(e, "error", None)
        res["verdict"] = "rejected"
        res["err"] = f"compile:{type(e).__name__}:{type(d).__name__}:{getattr(d, 'title', '')}"
    except BaseException as e:  # noqa: BLE001
        res["verdict"] = "crash"
        res["err"] = f"compile:{type(e).__name__}:{str(e)[:200]}"
    return res


def main():
    payload = json.load(sys.stdin)
    scratch = os.getcwd()
    base = int(payload.get("base", 0))  # several harness processes share one scratch directory
    out = [run_case(c, base + i, scratch) for i, c in enumerate(payload["cases"])]
    json.dump(out, sys.stdout)


if __name__ == "__main__":
    main()
