"""C32 translator: /repo front-end sources -> field-use table (coq/C32/GenTable.v).

Reads with Python `ast` (never imports /repo):
  cfg/builder.py, checker/func_checker.py, checker/stmt_checker.py, checker/expr_checker.py,
  tys/parsing.py (only `parse_parameter`), nodes.py (names and bases of Guppy's own node classes)
and CPython's own grammar (the ASDL signatures in the `ast` classes' docstrings).

A *scope* is a region of front-end code in which a variable is known to hold a node of one
Python grammar kind K:
  * the body of `visit_K(self, node, ...)` of one of the visitor classes,
  * the body of a function whose parameter is annotated `ast.K` (or a Guppy subclass of it),
  * the body of `if isinstance(v, ast.K) ...:` / the rest of a function after
    `assert isinstance(v, ast.K)` / a `case ast.K(...)` arm, when v was not already known,
  * derived: `v.f` where the grammar says f holds one node of a product kind (arguments,
    withitem ...), or the elements of `for x in v.f` where f is a list of such nodes.
Helper calls that receive the node are followed (same scope).  Per scope the translator
records which fields are *read* (attribute access / class-pattern keyword), which are only
*guarded* (`if <v.f ...>: raise`), whether the body always raises, and whether the node
*escapes* whole (returned, appended, handed to code that is not a location-only helper, an error
constructor or a constructor of Guppy's own nodes): an escaping node is passed through to
later stages, a non-escaping one is consumed here and this scope alone must account for every
field.  A field copied under its own name into a constructor (`K2(..., f=v.f)`) is not a read.

Fail-closed: TranslatorError when a visitor class / generic_visit has an unexpected shape, a
`visit_X` exists for an X that is neither a grammar kind nor a Guppy node class, or one of
the expected functions is missing."""
import ast
import re
from pathlib import Path

from vlib import TranslatorError

FILES = {
    "builder": "cfg/builder.py",
    "func_checker": "checker/func_checker.py",
    "stmt_checker": "checker/stmt_checker.py",
    "expr_checker": "checker/expr_checker.py",
    "parsing": "tys/parsing.py",
}
VISITORS = ["CFGBuilder", "ExprBuilder", "BranchBuilder", "StmtChecker", "ExprSynthesizer", "ExprChecker"]
EXPECTED_FUNCS = ["check_signature", "check_nested_func_def", "parse_function_with_docstring",
                  "is_comptime_expression", "desugar_comprehension", "parse_unpack_pattern", "parse_parameter"]
# calls through which a node does not "escape": they use it for its location / type only
LOCATION_ONLY = {"with_loc", "set_location_from", "to_span", "Span", "isinstance", "get_type", "get_type_opt",
                 "GuppyError", "GuppyTypeError", "GuppyTypeInferenceError", "InternalGuppyError", "len", "type",
                 "return_nodes_in_ast", "loop_controls_in_loop", "breaks_in_loop", "find_nodes", "replace",
                 "check_lists_enabled", "check_modifiers_enabled", "check_function_tensors_enabled",
                 "check_capturing_closures_enabled", "cast", "unparse", "add_sub_diagnostic"}


# ------------------------------------------------------------------------------ grammar

def grammar():
    """CPython's abstract grammar from the ast module itself.
    -> kinds: {kind: (cls, [(field, type, quant)])}, members: {sumtype: [kinds]}"""
    kinds, members = {}, {}
    sig = re.compile(r"^(\w+)\((.*)\)$", re.S)

    def fields_of(c):
        doc = " ".join((c.__doc__ or "").split())
        m = sig.match(doc)
        if not m or m.group(1) != c.__name__:
            return None
        out = []
        for part in [p.strip() for p in m.group(2).split(",") if p.strip()]:
            ty, name = part.split()
            q = "1"
            if ty.endswith("*"):
                ty, q = ty[:-1], "*"
            elif ty.endswith("?"):
                ty, q = ty[:-1], "?"
            out.append((name, ty, q))
        if tuple(f for f, _, _ in out) != tuple(c._fields):
            raise TranslatorError(f"ast.{c.__name__}: docstring signature and _fields disagree")
        return out

    for base in ast.AST.__subclasses__():
        if base.__module__ != "ast":
            continue
        subs = [s for s in base.__subclasses__() if s.__module__ == "ast"]
        doc = (base.__doc__ or "")
        if subs and not sig.match(" ".join(doc.split())):
            # a sum type: stmt, expr, pattern, operator ...
            mem = []
            for s in subs:
                if (s.__doc__ or "").startswith("Deprecated"):
                    continue
                fs = fields_of(s)
                if fs is None:
                    if s._fields:
                        raise TranslatorError(f"ast.{s.__name__}: cannot read its signature")
                    fs = []
                kinds[s.__name__] = (base.__name__, fs)
                mem.append(s.__name__)
            members[base.__name__] = mem
        else:
            fs = fields_of(base)
            if fs is None:
                continue
            kinds[base.__name__] = ("product", fs)
            members[base.__name__] = [base.__name__]
    for need in ("stmt", "expr", "arguments", "comprehension", "withitem", "keyword", "type_param"):
        if need not in members:
            raise TranslatorError(f"grammar: {need} not found in the ast module")
    return kinds, members


# ------------------------------------------------------------------------------ analysis

class Scope:
    def __init__(self, name, kind):
        self.name, self.kind = name, kind
        self.reads, self.guards = set(), set()
        self.escapes = False
        self.raises = False
        self.parent = None     # derived scopes: the scope of the node this one was reached from
        self.derived = False   # derived / narrowing scopes are dropped when nothing is read in them


LOWERING_FILES = {"expr_compiler": "compiler/expr_compiler.py", "stmt_compiler": "compiler/stmt_compiler.py"}
LOWERING_VISITORS = ["ExprCompiler", "StmtCompiler"]
LOWERING_EXPECTED = ["_build_generators", "visit_DesugaredListComp", "visit_DesugaredArrayComp"]


def guppy_kinds(nodes_tree, py_kinds):
    """Guppy's own node classes that declare `_fields`: name -> ("guppy", [(field, type, quant)]).
    Field types come from the class-level annotations (`generators: list[DesugaredGenerator]`)."""
    out = {}
    for n in nodes_tree.body:
        if not isinstance(n, ast.ClassDef):
            continue
        fields, anns = None, {}
        for st in n.body:
            if isinstance(st, ast.Assign) and len(st.targets) == 1 and isinstance(st.targets[0], ast.Name) \
                    and st.targets[0].id == "_fields" and isinstance(st.value, ast.Tuple):
                fields = [e.value for e in st.value.elts if isinstance(e, ast.Constant)]
            elif isinstance(st, ast.AnnAssign) and isinstance(st.target, ast.Name):
                anns[st.target.id] = st.annotation
        if fields is None:
            continue
        fs = []
        for f in fields:
            a = anns.get(f)
            ty, q = "any", "1"
            if isinstance(a, ast.Subscript) and isinstance(a.value, ast.Name) and a.value.id == "list" and isinstance(a.slice, ast.Name):
                ty, q = a.slice.id, "*"
            elif isinstance(a, ast.Name):
                ty = a.id
            fs.append((f, ty, q))
        out[n.name] = ("guppy", fs)
    return out


class Analyzer:
    def __init__(self, repo_int: Path, lowering: bool = False):
        self.lowering = lowering
        self.kinds, self.members = grammar()
        self.trees = {}
        for key, rel in (LOWERING_FILES if lowering else FILES).items():
            p = repo_int / rel
            if not p.exists():
                raise TranslatorError(f"source file missing: {rel}")
            self.trees[key] = ast.parse(p.read_text())
        nodes_py = repo_int / "nodes.py"
        if not nodes_py.exists():
            raise TranslatorError("source file missing: nodes.py")
        # Guppy's own node classes: name -> python-grammar base kind (or None)
        self.guppy_nodes = {}
        for n in ast.walk(ast.parse(nodes_py.read_text())):
            if isinstance(n, ast.ClassDef):
                base = None
                for b in n.bases:
                    if isinstance(b, ast.Attribute) and isinstance(b.value, ast.Name) and b.value.id == "ast" and b.attr in self.kinds:
                        base = b.attr
                self.guppy_nodes[n.name] = base
        if lowering:
            gk = guppy_kinds(ast.parse(nodes_py.read_text()), self.kinds)
            for k, v in gk.items():
                self.kinds[k] = v
                self.members[k] = [k]
        # only these are the *same statement* carried on under a new class
        self.alias = {} if lowering else {
            "NestedFunctionDef": "FunctionDef", "CheckedNestedFunctionDef": "FunctionDef",
            "ModifiedBlock": "With", "CheckedModifiedBlock": "With"}
        for a, k in self.alias.items():
            if a in self.guppy_nodes and self.guppy_nodes[a] != k:
                raise TranslatorError(f"nodes.py: {a} no longer derives from ast.{k}")
        # function table
        self.funcs = {}      # qualified name -> (FunctionDef, class name | None, module key)
        self.by_name = {}    # bare name -> [qualified]
        self.classes = {}    # class name -> {method name: qualified}
        for key, tree in self.trees.items():
            self._collect(tree.body, key, None)
        for f in (LOWERING_EXPECTED if lowering else EXPECTED_FUNCS):
            if f not in self.by_name:
                raise TranslatorError(f"expected function `{f}` not found in the scanned sources")
        self.visitors = LOWERING_VISITORS if lowering else VISITORS
        for v in self.visitors:
            if v not in self.classes:
                raise TranslatorError(f"visitor class `{v}` not found")
        self.scopes = {}
        self.followed = set()   # (function, parameter) reached with a tracked node from another scope
        self.unknown_escapes = set()  # (function, variable): an untracked variable handed on whole
        self.memo = set()
        self.order = []

    def _collect(self, body, key, cls):
        for n in body:
            if isinstance(n, ast.FunctionDef):
                if key == "parsing" and n.name != "parse_parameter":
                    continue
                q = f"{cls}.{n.name}" if cls else n.name
                self.funcs[q] = (n, cls, key)
                self.by_name.setdefault(n.name, []).append(q)
                if cls:
                    self.classes.setdefault(cls, {})[n.name] = q
            elif isinstance(n, ast.ClassDef) and cls is None:
                self.classes.setdefault(n.name, {})
                self._collect(n.body, key, n.name)
            elif isinstance(n, ast.If) and cls is None:
                self._collect(n.body, key, None)
                self._collect(n.orelse, key, None)

    # --- helpers
    def scope(self, name, kind):
        if name not in self.scopes:
            self.scopes[name] = Scope(name, kind)
            self.order.append(name)
        return self.scopes[name]

    def ann_kinds(self, ann):
        """Grammar kinds named by an annotation: ast.K | ast.K2 | NestedFunctionDef | list[ast.K]"""
        if ann is None:
            return [], False
        if isinstance(ann, ast.Constant) and isinstance(ann.value, str):
            try:
                ann = ast.parse(ann.value, mode="eval").body
            except SyntaxError:
                return [], False
        if isinstance(ann, ast.Subscript) and isinstance(ann.value, ast.Name) and ann.value.id in ("list", "Sequence"):
            ks, _ = self.ann_kinds(ann.slice)
            return ks, True
        if isinstance(ann, ast.BinOp) and isinstance(ann.op, ast.BitOr):
            a, _ = self.ann_kinds(ann.left)
            b, _ = self.ann_kinds(ann.right)
            return a + b, False
        if isinstance(ann, ast.Attribute) and isinstance(ann.value, ast.Name) and ann.value.id == "ast":
            if ann.attr in self.kinds:
                return [ann.attr], False
            return [], False
        if isinstance(ann, ast.Name) and ann.id in self.alias:
            return [self.alias[ann.id]], False
        if isinstance(ann, ast.Name) and self.lowering and self.kinds.get(ann.id, ("",))[0] == "guppy":
            return [ann.id], False
        return [], False

    def class_kinds(self, e):
        """kinds named in the 2nd argument of isinstance / a class pattern"""
        ks, _ = self.ann_kinds(e)
        if isinstance(e, ast.Tuple):
            for x in e.elts:
                ks += self.ann_kinds(x)[0]
        return ks

    def field_value(self, sc, f):
        """abstract value of `v.f` for v in scope sc"""
        for name, ty, q in self.kinds[sc.kind][1]:
            if name == f:
                mem = self.members.get(ty)
                if mem is not None and len(mem) == 1 and self.kinds[mem[0]][0] in ("product", "excepthandler", "guppy"):
                    child = self.scope(f"{sc.name}/{f}", mem[0])
                    child.parent, child.derived = sc, True
                    return ("list", child) if q == "*" else ("node", child)
                return None
        return None

    def resolve(self, func, cls):
        """callee expression -> qualified function name or None"""
        if isinstance(func, ast.Name):
            c = self.by_name.get(func.id, [])
            c = [q for q in c if self.funcs[q][1] is None]
            return c[0] if len(c) == 1 else None
        if isinstance(func, ast.Attribute) and isinstance(func.value, ast.Name):
            if func.value.id in ("self", "cls") and cls:
                q = self.classes.get(cls, {}).get(func.attr)
                return q
            if func.value.id in self.classes:
                return self.classes[func.value.id].get(func.attr)
        return None

    @staticmethod
    def callee_name(func):
        if isinstance(func, ast.Name):
            return func.id
        if isinstance(func, ast.Attribute):
            return func.attr
        return ""

    def non_escaping_callee(self, func):
        n = self.callee_name(func)
        if n in LOCATION_ONLY or n.endswith("Error") or n in self.guppy_nodes:
            return True
        # nested diagnostics: SomeError.Hint(...)
        if isinstance(func, ast.Attribute) and isinstance(func.value, (ast.Name, ast.Attribute)):
            base = func.value
            bn = base.id if isinstance(base, ast.Name) else base.attr
            if bn.endswith("Error"):
                return True
        return False

    def location_only_callee(self, func):
        """callees whose arguments are used for source locations / messages only"""
        n = self.callee_name(func)
        if n in ("to_span", "Span", "set_location_from", "GuppyError", "GuppyTypeError", "GuppyTypeInferenceError",
                 "InternalGuppyError", "unparse") or n.endswith("Error"):
            return True
        if isinstance(func, ast.Attribute) and isinstance(func.value, (ast.Name, ast.Attribute)):
            base = func.value
            bn = base.id if isinstance(base, ast.Name) else base.attr
            if bn.endswith("Error"):
                return True
        return False

    # --- the abstract interpreter
    def run_function(self, q, bindings, tag):
        """Analyse function q with params bound to abstract values (dict name -> value)."""
        key = (q, tuple(sorted((k, v[0], v[1].name) for k, v in bindings.items() if v)))
        if key in self.memo:
            return
        self.memo.add(key)
        fn, cls, _ = self.funcs[q]
        env = dict(bindings)
        self.block(fn.body, env, cls, q)

    def always_raises(self, body):
        body = [s for s in body if not (isinstance(s, ast.Expr) and isinstance(s.value, ast.Constant))]
        return len(body) >= 1 and isinstance(body[0], ast.Raise) or (len(body) >= 1 and all(
            isinstance(s, (ast.Assign, ast.AnnAssign, ast.Expr)) for s in body[:-1]) and isinstance(body[-1], ast.Raise)
            and not any(isinstance(n, (ast.Return,)) for s in body for n in ast.walk(s)))

    def block(self, stmts, env, cls, q):
        for s in stmts:
            self.stmt(s, env, cls, q)

    def narrow(self, test, env, q, lineno, is_test_only=False):
        """isinstance(v, ast.K) conjuncts in an if-test: returns {var: value} to add in the body.
        `is_test_only`: narrowing inside a boolean expression (a predicate such as
        is_short_circuit_expr) inspects the node but does not consume it."""
        out = {}
        conj = test.values if isinstance(test, ast.BoolOp) and isinstance(test.op, ast.And) else [test]
        for c in conj:
            if isinstance(c, ast.Call) and isinstance(c.func, ast.Name) and c.func.id == "isinstance" and len(c.args) == 2 \
                    and isinstance(c.args[0], ast.Name):
                ks = self.class_kinds(c.args[1])
                v = c.args[0].id
                cur = env.get(v)
                if len(ks) == 1 and not cur:
                    nm = f"{q}:{v} narrowed to {ks[0]}"
                    fresh = nm not in self.scopes
                    sc = self.scope(nm, ks[0])
                    sc.derived = True
                    if fresh and is_test_only:
                        sc.escapes = True
                    elif not is_test_only:
                        sc.escapes = sc.escapes and not fresh and False
                    out[v] = ("node", sc)
        return out

    def stmt(self, s, env, cls, q):
        if isinstance(s, ast.Assign):
            val = self.expr(s.value, env, cls, q)
            for t in s.targets:
                if isinstance(t, ast.Name):
                    env[t.id] = val
                    if val and val[0] == "node" and isinstance(s.value, ast.Name):
                        pass  # plain alias
                elif isinstance(t, (ast.Tuple, ast.List)) and isinstance(s.value, ast.Tuple) and len(t.elts) == len(s.value.elts):
                    for a, b in zip(t.elts, s.value.elts):
                        if isinstance(a, ast.Name):
                            env[a.id] = self.expr(b, env, cls, q, record=False)
                else:
                    self.expr(t, env, cls, q)
                    if isinstance(s.value, ast.Name) and val and val[0] == "node":
                        val[1].escapes = True  # stored somewhere
        elif isinstance(s, ast.AnnAssign):
            val = self.expr(s.value, env, cls, q) if s.value is not None else None
            if isinstance(s.target, ast.Name):
                env[s.target.id] = val
        elif isinstance(s, ast.AugAssign):
            self.expr(s.value, env, cls, q)
        elif isinstance(s, ast.Return):
            if s.value is not None:
                self.expr(s.value, env, cls, q, escaping=True)
        elif isinstance(s, ast.Expr):
            self.expr(s.value, env, cls, q)
        elif isinstance(s, ast.Raise):
            if s.exc is not None:
                self.expr(s.exc, env, cls, q, record=False)  # error construction: locations only
        elif isinstance(s, ast.Assert):
            self.expr(s.test, env, cls, q)
            env.update(self.narrow(s.test, env, q, s.lineno))
        elif isinstance(s, ast.If):
            guard = (not s.orelse) and len(s.body) >= 1 and isinstance(s.body[-1], ast.Raise)
            # `if isinstance(v, A | B): raise` rejects those kinds outright
            if guard and isinstance(s.test, ast.Call) and isinstance(s.test.func, ast.Name) and s.test.func.id == "isinstance" \
                    and isinstance(s.test.args[0], ast.Name) and not env.get(s.test.args[0].id):
                for k in self.class_kinds(s.test.args[1]):
                    sc = self.scope(f"{q}:{s.test.args[0].id} narrowed to {k}", k)
                    sc.raises = True
            self.expr(s.test, env, cls, q, guard=guard, in_if_test=True)
            benv = dict(env)
            benv.update(self.narrow(s.test, env, q, s.lineno))
            self.block(s.body, benv, cls, q)
            oenv = dict(env)
            self.block(s.orelse, oenv, cls, q)
            for k in set(benv) | set(oenv):
                if k not in env:
                    env[k] = benv.get(k) if benv.get(k) == oenv.get(k) else None
        elif isinstance(s, ast.For):
            it = self.expr(s.iter, env, cls, q)
            self.bind_loop(s.target, s.iter, it, env, cls, q)
            self.block(s.body, env, cls, q)
            self.block(s.orelse, env, cls, q)
        elif isinstance(s, ast.While):
            self.expr(s.test, env, cls, q)
            self.block(s.body, env, cls, q)
        elif isinstance(s, ast.With):
            for i in s.items:
                self.expr(i.context_expr, env, cls, q)
            self.block(s.body, env, cls, q)
        elif isinstance(s, ast.Try):
            self.block(s.body, env, cls, q)
            for h in s.handlers:
                self.block(h.body, env, cls, q)
            self.block(s.orelse, env, cls, q)
            self.block(s.finalbody, env, cls, q)
        elif isinstance(s, ast.Match):
            self.match(s, env, cls, q)
        elif isinstance(s, (ast.Pass, ast.Import, ast.ImportFrom, ast.Global, ast.Nonlocal, ast.Break, ast.Continue,
                            ast.FunctionDef, ast.ClassDef, ast.Delete)):
            pass
        else:
            raise TranslatorError(f"{q}: statement form {type(s).__name__} not understood by the C32 translator")

    def bind_loop(self, target, iter_expr, it, env, cls, q):
        if it and it[0] == "list" and isinstance(target, ast.Name):
            env[target.id] = ("node", it[1])
        elif isinstance(iter_expr, ast.Call) and isinstance(iter_expr.func, ast.Name) and iter_expr.func.id == "enumerate" \
                and iter_expr.args and isinstance(target, ast.Tuple) and len(target.elts) == 2 and isinstance(target.elts[1], ast.Name):
            inner = self.expr(iter_expr.args[0], env, cls, q, record=False)
            env[target.elts[1].id] = ("node", inner[1]) if inner and inner[0] == "list" else None
        else:
            for n in ast.walk(target):
                if isinstance(n, ast.Name):
                    env[n.id] = None

    def match(self, s, env, cls, q):
        subj = s.subject
        self.expr(subj, env, cls, q)
        for case in s.cases:
            cenv = dict(env)
            pat = case.pattern
            if isinstance(pat, ast.MatchClass) and isinstance(subj, ast.Name):
                ks = self.class_kinds(pat.cls)
                cur = env.get(subj.id)
                if len(ks) == 1:
                    if cur and cur[0] == "node" and cur[1].kind == ks[0]:
                        sc = cur[1]
                    elif not cur:
                        sc = self.scope(f"{q}:{subj.id} narrowed to {ks[0]}", ks[0])
                        sc.derived = True
                        cenv[subj.id] = ("node", sc)
                    else:
                        sc = None
                    if sc is not None:
                        for a in pat.kwd_attrs:
                            if any(a == f for f, _, _ in self.kinds[sc.kind][1]):
                                sc.reads.add(a)
            if case.guard is not None:
                self.expr(case.guard, cenv, cls, q)
            self.block(case.body, cenv, cls, q)

    def expr(self, e, env, cls, q, guard=False, escaping=False, record=True, in_if_test=False):
        """Evaluate; returns abstract value.  `escaping`: a bare tracked name here escapes."""
        if e is None:
            return None
        if isinstance(e, ast.Name):
            v = env.get(e.id)
            if v and v[0] == "node" and escaping:
                v[1].escapes = True
            if not v and escaping:
                self.unknown_escapes.add((q, e.id))
            return v
        if isinstance(e, ast.Attribute):
            base = self.expr(e.value, env, cls, q, guard=guard, record=record)
            if base and base[0] == "node":
                sc = base[1]
                if any(e.attr == f for f, _, _ in self.kinds[sc.kind][1]):
                    if record:
                        (sc.guards if guard else sc.reads).add(e.attr)
                    return self.field_value(sc, e.attr)
            return None
        if isinstance(e, ast.Subscript):
            base = self.expr(e.value, env, cls, q, guard=guard, record=record)
            self.expr(e.slice, env, cls, q)
            if base and base[0] == "list" and not isinstance(e.slice, ast.Slice):
                return ("node", base[1])
            return base if base and base[0] == "list" else None
        if isinstance(e, ast.Call):
            return self.call(e, env, cls, q, guard, record)
        if isinstance(e, ast.Starred):
            return self.expr(e.value, env, cls, q, escaping=escaping)
        if isinstance(e, (ast.Lambda, ast.ListComp, ast.SetComp, ast.DictComp, ast.GeneratorExp)):
            # bind comprehension variables from tracked lists, then evaluate the parts
            cenv = dict(env)
            if not isinstance(e, ast.Lambda):
                for g in e.generators:
                    it = self.expr(g.iter, cenv, cls, q)
                    self.bind_loop(g.target, g.iter, it, cenv, cls, q)
                    for c in g.ifs:
                        self.expr(c, cenv, cls, q)
                for part in ([e.key, e.value] if isinstance(e, ast.DictComp) else [e.elt]):
                    self.expr(part, cenv, cls, q, escaping=True)
            else:
                self.expr(e.body, cenv, cls, q, escaping=True)
            return None
        if isinstance(e, ast.Compare):
            # `v.f is not None` / `len(v.f) > 0` style tests keep the guard flag
            self.expr(e.left, env, cls, q, guard=guard)
            for c in e.comparators:
                self.expr(c, env, cls, q, guard=guard)
            return None
        if isinstance(e, (ast.Tuple, ast.List, ast.Set)):
            for x in e.elts:
                self.expr(x, env, cls, q, escaping=True)
            return None
        if isinstance(e, ast.BoolOp):
            benv = dict(env)
            for x in e.values:
                self.expr(x, benv, cls, q, guard=guard)
                if isinstance(e.op, ast.And):
                    benv.update(self.narrow(x, benv, q, x.lineno, is_test_only=not in_if_test))
            return None
        if isinstance(e, ast.NamedExpr):
            v = self.expr(e.value, env, cls, q)
            if isinstance(e.target, ast.Name):
                env[e.target.id] = v
            return v
        for c in ast.iter_child_nodes(e):
            if isinstance(c, ast.expr):
                self.expr(c, env, cls, q, guard=guard, escaping=isinstance(e, (ast.Dict, ast.Await, ast.Yield, ast.YieldFrom, ast.IfExp)))
        return None

    def call(self, e, env, cls, q, guard, record=True):
        name = self.callee_name(e.func)
        # evaluate the callee expression itself (e.g. `node.values[0].f(...)`)
        if isinstance(e.func, ast.Attribute):
            recv = self.expr(e.func.value, env, cls, q)
            if recv and recv[0] == "node" and name in ("append", "extend", "insert"):
                pass
        target = self.resolve(e.func, cls)
        non_esc = self.non_escaping_callee(e.func)
        ctor = name[:1].isupper()
        vals = []
        norec = self.location_only_callee(e.func)
        for i, a in enumerate(e.args):
            rec = record and not norec and not (name == "with_loc" and i == 0)
            vals.append(self.expr(a, env, cls, q, guard=guard and name == "len", record=rec))
        kwvals = {}
        for k in e.keywords:
            copy = False
            if ctor and k.arg and isinstance(k.value, ast.Attribute) and k.value.attr == k.arg:
                base = self.expr(k.value.value, env, cls, q, record=False)
                ckind = self.alias.get(name, name)
                if base and base[0] == "node" and ckind == base[1].kind:
                    copy = True  # field copied under its own name into the same kind of node: not a use
            if not copy:
                kwvals[k.arg] = self.expr(k.value, env, cls, q, record=record and not norec)
        if name == "cast" and len(e.args) == 2:
            ks = self.class_kinds(e.args[0])
            if len(ks) == 1 and not vals[1]:
                sc = self.scope(f"{q}:cast({ks[0]})@{e.lineno}", ks[0])
                sc.derived = True
                return ("node", sc)
            return vals[1]
        if name == "enumerate" and vals:
            return None
        tracked = [(i, v) for i, v in enumerate(vals) if v] + [(k, v) for k, v in kwvals.items() if v]
        if target is not None and tracked:
            fn, tcls, _ = self.funcs[target]
            params = [a.arg for a in fn.args.args]
            if tcls and params and params[0] in ("self", "cls") and not any(
                    isinstance(d, ast.Name) and d.id == "staticmethod" for d in fn.decorator_list):
                params = params[1:]
            elif tcls and params and params[0] in ("self", "cls"):
                params = params[1:]
            b = {}
            for i, v in tracked:
                if isinstance(i, int):
                    if i < len(params):
                        b[params[i]] = v
                elif i in params:
                    b[i] = v
            for pn in b:
                self.followed.add((target, pn))
            self.run_function(target, b, q)
        elif tracked and not non_esc:
            for _, v in tracked:
                if v[0] == "node":
                    v[1].escapes = True
        if not non_esc and target is None:
            # an untracked variable handed on whole: narrowing scopes of that variable in this
            # function do not consume the node (it lives on after the narrowed region)
            for a in list(e.args) + [k.value for k in e.keywords]:
                if isinstance(a, ast.Name) and not env.get(a.id):
                    self.unknown_escapes.add((q, a.id))
        # a bare tracked node passed to append()/unknown method of an untracked receiver
        return None

    # --- entry points
    def run(self):
        for v in self.visitors:
            for m, q in sorted(self.classes[v].items()):
                fn = self.funcs[q][0]
                if not m.startswith("visit_"):
                    continue
                k = m[len("visit_"):]
                k = self.alias.get(k, k)
                if k not in self.kinds:
                    if m[len("visit_"):] in self.guppy_nodes or k == "stmts":
                        continue
                    raise TranslatorError(f"{q}: handles `{k}`, which is neither a Python grammar kind nor a class of nodes.py")
                params = [a.arg for a in fn.args.args]
                if len(params) < 2:
                    raise TranslatorError(f"{q}: unexpected signature")
                sc = self.scope(q, k)
                if self.always_raises(fn.body):
                    sc.raises = True
                self.run_function(q, {params[1]: ("node", sc)}, "visit")
        # functions with annotated node parameters, analysed on their own
        for q, (fn, cls, key) in sorted(self.funcs.items()):
            if q.split(".")[-1].startswith("visit_") and cls in self.visitors:
                continue
            b = {}
            for a in fn.args.args:
                ks, is_list = self.ann_kinds(a.annotation)
                if (q, a.arg) in self.followed:
                    continue  # already analysed as part of its callers' scopes
                if len(ks) == 1:
                    sc = self.scope(f"{q}({a.arg})", ks[0])
                    sc.derived = True
                    b[a.arg] = ("list", sc) if is_list else ("node", sc)
                elif len(ks) > 1 and not is_list:
                    # union annotation: one analysis per kind
                    for k in ks:
                        sc = self.scope(f"{q}({a.arg}:{k})", k)
                        self.run_function(q, {a.arg: ("node", sc)}, "param")
            self.run_function(q, b, "param")
        for (fq, var) in self.unknown_escapes:
            for n in self.order:
                if n.startswith(f"{fq}:{var} narrowed to "):
                    self.scopes[n].escapes = True
        # derived scopes follow their parent's fate; empty derived / narrowing scopes say nothing
        for n in self.order:
            sc = self.scopes[n]
            p = sc.parent
            while p is not None:
                if p.escapes:
                    sc.escapes = True
                p = p.parent
        self.order = [n for n in self.order
                      if not (self.scopes[n].derived and not self.scopes[n].reads and not self.scopes[n].guards and not self.scopes[n].raises)]
        return self

    def facts(self):
        """Kind-level dispatch facts, each checked against the expected source shape."""
        def generic_raises(clsname):
            q = self.classes[clsname].get("generic_visit")
            if q is None:
                raise TranslatorError(f"{clsname}.generic_visit not found")
            return self.always_raises(self.funcs[q][0].body)
        stmt_rejects = generic_raises("CFGBuilder")
        expr_rejects = generic_raises("ExprSynthesizer")
        # ExprChecker.generic_visit must delegate to the synthesiser, ExprBuilder's to NodeTransformer
        src = ast.unparse(self.funcs[self.classes["ExprChecker"]["generic_visit"]][0])
        if "_synthesize(" not in src:
            raise TranslatorError("ExprChecker.generic_visit no longer delegates to the synthesiser")
        src = ast.unparse(self.funcs[self.classes["ExprBuilder"]["generic_visit"]][0])
        if "super().generic_visit(node)" not in src or "is_short_circuit_expr(node)" not in src:
            raise TranslatorError("ExprBuilder.generic_visit has an unexpected shape")
        src = ast.unparse(self.funcs[self.classes["BranchBuilder"]["generic_visit"]][0])
        if "ExprBuilder.build(node" not in src:
            raise TranslatorError("BranchBuilder.generic_visit no longer builds the node with ExprBuilder")

        def handled(classes):
            out = []
            for c in classes:
                for m in self.classes[c]:
                    if m.startswith("visit_"):
                        k = self.alias.get(m[6:], m[6:])
                        if k in self.kinds and k not in out:
                            out.append(k)
            return sorted(out)
        return {"stmt_generic_rejects": stmt_rejects, "expr_generic_rejects": expr_rejects,
                "stmt_handlers": [k for k in handled(["CFGBuilder"]) if self.kinds[k][0] == "stmt"],
                "expr_handlers": [k for k in handled(["ExprBuilder", "BranchBuilder", "ExprSynthesizer", "ExprChecker"])
                                  if self.kinds[k][0] == "expr"]}


# ------------------------------------------------------------------------------ Coq output

def cs(s):
    return '"' + s.replace('"', "'") + '"'


def cl(xs):
    return "[" + "; ".join(xs) + "]"


_L = _LS = None  # last lowering analysis (set by lowering_table, read by report)


def lowering_table(repo_int: Path):
    global _L, _LS
    a = Analyzer(repo_int, lowering=True).run()
    scopes = [a.scopes[n] for n in a.order]
    _L, _LS = a, scopes
    used = sorted({s.kind for s in scopes})
    return a, scopes, used


def table(repo_int: Path):
    a = Analyzer(repo_int).run()
    f = a.facts()
    scopes = [a.scopes[n] for n in a.order]
    # scopes of kinds without fields carry no obligation; keep them (has_scope uses them)
    return a, f, scopes


def translate(repo_int: Path) -> str:
    a, f, scopes = table(repo_int)
    L = ["(* GENERATED by props/C32/tr_visitors.py from the front-end sources of the tree under test",
         "   and from CPython's `ast` module.  Do not edit. *)",
         "From Coq Require Import String List Bool.", "From V.C32 Require Import ModelDrop.",
         "Import ListNotations. Open Scope string_scope.", ""]
    L.append("Definition grammar : list kind_decl := [")
    rows = []
    for k, (cls, fs) in a.kinds.items():
        frows = cl([f"mkField {cs(n)} {cs(t)} {'true' if q == '*' else 'false'}" for n, t, q in fs])
        rows.append(f"  mkKind {cs(k)} {cs(cls)} {frows}")
    L.append(";\n".join(rows) + "].")
    L.append("")
    L.append("Definition members : list (string * list string) := [")
    L.append(";\n".join(f"  ({cs(t)}, {cl([cs(m) for m in ms])})" for t, ms in a.members.items()) + "].")
    L.append("")
    L.append("Definition scopes : list scope := [")
    rows = []
    for s in scopes:
        rows.append(f"  mkScope {cs(s.name)} {cs(s.kind)} {'true' if s.escapes else 'false'} {'true' if s.raises else 'false'} "
                    f"{cl([cs(x) for x in sorted(s.reads)])} {cl([cs(x) for x in sorted(s.guards)])}")
    L.append(";\n".join(rows) + "].")
    L.append("")
    L.append(f"Definition stmt_generic_rejects : bool := {'true' if f['stmt_generic_rejects'] else 'false'}.")
    L.append(f"Definition expr_generic_rejects : bool := {'true' if f['expr_generic_rejects'] else 'false'}.")
    L.append(f"Definition stmt_handlers : list string := {cl([cs(k) for k in f['stmt_handlers']])}.")
    L.append(f"Definition expr_handlers : list string := {cl([cs(k) for k in f['expr_handlers']])}.")
    L.append("")
    L.append("Definition tbl : table := mkTable grammar members scopes stmt_generic_rejects expr_generic_rejects stmt_handlers expr_handlers false.")
    # ---- lowering stage
    la, lscopes, used = lowering_table(repo_int)
    L.append("")
    L.append("Definition lgrammar : list kind_decl := [")
    rows = []
    for k in used:
        cls, fs = la.kinds[k]
        frows = cl([f"mkField {cs(n)} {cs(t)} {'true' if q == '*' else 'false'}" for n, t, q in fs])
        rows.append(f"  mkKind {cs(k)} {cs(cls)} {frows}")
    L.append(";\n".join(rows) + "].")
    L.append("")
    L.append("Definition lscopes : list scope := [")
    rows = []
    for s in lscopes:
        rows.append(f"  mkScope {cs(s.name)} {cs(s.kind)} {'true' if s.escapes else 'false'} {'true' if s.raises else 'false'} "
                    f"{cl([cs(x) for x in sorted(s.reads)])} {cl([cs(x) for x in sorted(s.guards)])}")
    L.append(";\n".join(rows) + "].")
    L.append("")
    L.append("Definition ltbl : table := mkTable lgrammar [] lscopes false false [] [] true.")
    return "\n".join(L) + "\n"


def report(repo_int: Path) -> dict:
    """Everything the check needs from one analysis, as JSON-able data."""
    a, f, scopes = table(repo_int)
    return {"coq": translate(repo_int),
            "kinds": {k: {"class": c, "fields": [[n, t, q] for n, t, q in fs]} for k, (c, fs) in a.kinds.items()},
            "members": a.members,
            "scopes": [{"name": s.name, "kind": s.kind, "pass": s.escapes, "raises": s.raises,
                        "reads": sorted(s.reads), "guards": sorted(s.guards)} for s in scopes],
            "facts": f,
            "lowering_scopes": [{"name": s.name, "kind": s.kind, "pass": s.escapes, "raises": s.raises,
                                 "reads": sorted(s.reads), "guards": sorted(s.guards),
                                 "fields": [n for n, _, _ in _L.kinds[s.kind][1]]}
                                for s in _LS]}


if __name__ == "__main__":
    # run under the interpreter that runs guppylang (its `ast` module is the grammar):
    #   /venv/bin/python tr_visitors.py --json <guppylang_internals dir>
    import json
    import sys
    if len(sys.argv) > 2 and sys.argv[1] == "--json":
        try:
            print(json.dumps(report(Path(sys.argv[2]))))
        except TranslatorError as e:
            print(str(e), file=sys.stderr)
            sys.exit(3)
        sys.exit(0)
    root = Path(sys.argv[1] if len(sys.argv) > 1 else "/repo") / "guppylang-internals/src/guppylang_internals"
    a, f, scopes = table(root)
    for s in scopes:
        fs = [n for n, _, _ in a.kinds[s.kind][1]]
        missing = [x for x in fs if x not in s.reads and x not in s.guards]
        print(f"{s.name:70s} {s.kind:14s} esc={int(s.escapes)} raise={int(s.raises)} reads={sorted(s.reads)} guards={sorted(s.guards)} missing={missing}")
    print(f)
