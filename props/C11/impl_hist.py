"""C11 implementation harness.  stdin: {"histories": [[[op, name], ...], ...]}.
Imports the pool ONCE, then runs every history in a forked child (= an interpreter in exactly
the state a fresh process has after importing the pool).  For every operation it records the
outcome (canonicalised HUGR digest or rendered error) and observables of the session state."""
import repo_shim  # noqa: F401
import hashlib
import json
import os
import re
import sys

import guppylang

guppylang.enable_experimental_features()
sys.path.insert(0, os.path.dirname(os.path.abspath(__file__)))
import pool_defs  # noqa: E402
from pool_defs import POOL  # noqa: E402
from guppylang_internals.engine import DEF_STORE, ENGINE  # noqa: E402
from guppylang_internals.error import GuppyError  # noqa: E402
from guppylang_internals.tracing.state import tracing_active  # noqa: E402

ID2NAME = {d.id: n for n, d in POOL.items()}
GEN = re.compile(r"^(.*)\.(\d+)$")


def canon_hugr(h):
    """Structural dump of a Hugr module; generated symbol names `base.N` are renamed by first
    occurrence.  Returns the list of lines."""
    names = {}

    def cn(name):
        m = GEN.match(name)
        if not m:
            return name
        if name not in names:
            names[name] = f"{m.group(1)}.#{len(names)}"
        return names[name]
    lines = []
    for n, d in h.nodes():
        op = d.op
        r = repr(op)
        fn = getattr(op, "f_name", None)
        if isinstance(fn, str):
            r = r.replace(repr(fn), repr(cn(fn)))
        r = re.sub(r" at 0x[0-9a-f]+", "", r)
        links = []
        for p, tgts in h.outgoing_links(n):
            links.append((p.offset, sorted((t.node.idx, t.offset) for t in tgts)))
        md = re.sub(r" at 0x[0-9a-f]+", "", repr(d.metadata)) if d.metadata else ""
        lines.append(f"{n.idx}|{d.parent.idx if d.parent else None}|{r}|{sorted(links)}|{md}")
    lines.append(f"entry={h.entrypoint.idx}")
    return lines


def render_error(e):
    if isinstance(e, GuppyError):
        from guppylang_internals.diagnostic import DiagnosticsRenderer
        try:
            r = DiagnosticsRenderer(DEF_STORE.sources)
            r.render_diagnostic(e.error)
            return type(e).__name__ + ":" + "\n".join(r.buffer)
        except Exception as e2:  # noqa: BLE001
            return type(e).__name__ + ":<unrenderable " + type(e2).__name__ + ">"
    return type(e).__name__ + ":" + re.sub(r" at 0x[0-9a-f]+", "", str(e))


def observe():
    return {"tracing": tracing_active(),
            "checked": sorted(ID2NAME[i] for i in ENGINE.checked if i in ID2NAME),
            "worklists_empty": not (ENGINE.to_check_worklist or ENGINE.types_to_check_worklist)}


def do_op(op, name, keep_lines):
    d = POOL[name]
    rec = {"op": op, "name": name}
    try:
        if op == "check":
            d.check()
            rec["status"] = "ok"
        elif op == "compile":
            pkg = d.compile_function() if hasattr(d, "compile_function") else d.compile()
            lines = canon_hugr(pkg.modules[0])
            rec["status"] = "ok"
            rec["hugr"] = hashlib.sha1("\n".join(lines).encode()).hexdigest()[:16]
            rec["nodes"] = len(lines) - 1
            rec["exts"] = [e.name for e in pkg.extensions]
            if keep_lines:
                rec["lines"] = lines
        elif op == "pycall":
            r = d(1)
            rec["status"] = "ok"
            rec["value"] = type(r).__name__
        else:
            raise ValueError(op)
    except BaseException as e:  # noqa: BLE001
        rec["status"] = "err"
        rec["err"] = render_error(e)
    rec["obs"] = observe()
    return rec


def run_history(hist, keep_lines):
    r, w = os.pipe()
    pid = os.fork()
    if pid == 0:
        os.close(r)
        try:
            out = [do_op(op, name, keep_lines) for op, name in hist]
            data = json.dumps(out)
        except BaseException as e:  # noqa: BLE001
            data = json.dumps({"harness_error": repr(e)})
        with os.fdopen(w, "w") as f:
            f.write(data)
        os._exit(0)
    os.close(w)
    with os.fdopen(r) as f:
        data = f.read()
    os.waitpid(pid, 0)
    return json.loads(data) if data else {"harness_error": "child died"}


def main():
    req = json.load(sys.stdin)
    keep = bool(req.get("keep_lines"))
    res = [run_history(h, keep) for h in req["histories"]]
    json.dump({"results": res, "pool": sorted(POOL), "meta": pool_defs.META}, sys.stdout)


if __name__ == "__main__":
    main()
