"""Pool of Guppy definitions for the C11 history-independence harness.

Every entry of POOL is a public `GuppyDefinition`; the harness applies check / compile /
pycall operations to them in arbitrary order in ONE interpreter.  The file must be a real
file (the decorator uses inspect.getsource)."""
from guppylang import guppy, qubit
from guppylang.std.builtins import array, comptime, owned
from guppylang.std.quantum import h, cx, measure

T = guppy.type_var("T")


@guppy
def plain(x: int) -> int:
    return x + 1


@guppy
def branchy(x: int, y: float) -> float:
    z = y
    i = 0
    while i < x:
        if i % 2 == 0:
            z = z + 1.0
        else:
            z = z * 2.0
        i += 1
    if z > 10.0:
        return z
    return z - y


@guppy
def noret(x: int) -> None:
    y = x + 2


@guppy
def bad_type(x: int) -> int:
    return x + 1.5


@guppy
def bad_linear(q: qubit @ owned) -> tuple[qubit, qubit]:
    return q, q


@guppy
def bad_name(x: int) -> int:
    return x + undefined_thing


@guppy
def ident(x: T) -> T:
    return x


@guppy
def pair(x: T) -> tuple[T, T]:
    def inner(y: int) -> int:
        return y + 1
    return x, x


@guppy
def use_generic(x: int, y: float) -> tuple[int, float]:
    a, b = pair(ident(x))
    c = ident(y)
    return a + b, c


@guppy.struct
class Pt:
    a: int
    b: float

    @guppy
    def norm(self: "Pt") -> float:
        return self.b + 1.0

    @guppy
    def scaled(self: "Pt", k: int) -> "Pt":
        return Pt(self.a * k, self.b)


@guppy.struct
class Box:
    p: Pt
    n: int


@guppy
def use_struct(x: int) -> float:
    p = Pt(x, 2.5)
    bx = Box(p.scaled(3), x)
    return bx.p.norm() + bx.p.b


@guppy
def closure_rec(x: int) -> int:
    def bar(y: int, z: int) -> int:
        if y > 0:
            return bar(z, y - 1)
        return x + z
    return bar(x, x + 1)


@guppy
def closure_rec_nested(x: int) -> int:
    def bar(y: int, z: int) -> int:
        if y > 0:
            return bar(z, y - 1)

        def baz() -> int:
            return x + y
        return baz() + z
    return bar(x, 2 * x)


@guppy
def closure_plain(x: int) -> int:
    w = x * 2

    def bar(y: int) -> int:
        return y + w
    return bar(bar(x))


@guppy
def generic_closure(x: T, n: int) -> T:
    def cnt(k: int) -> int:
        if k > 0:
            return cnt(k - 1)
        return n
    cnt(n)
    return x


@guppy
def use_generic_closure(n: int) -> tuple[int, float]:
    return generic_closure(n, n), generic_closure(1.5, n)


@guppy.comptime
def ct_sum(x: int) -> int:
    acc = x
    for i in range(4):
        acc = acc + i
    return plain(acc)


_CT_FAIL = {"on": True}


@guppy.comptime
def ct_raises(x: int) -> int:
    if _CT_FAIL["on"]:
        raise ValueError("boom")
    return x


@guppy.comptime
def ct_badret(x: int) -> int:
    return 1.5


@guppy
def caller(x: int) -> int:
    return plain(x) + closure_rec(x) + ct_sum(x)


@guppy
def caller_of_bad(x: int) -> int:
    return plain(x) + bad_type(x)


@guppy
def caller_of_ct_raises(x: int) -> int:
    return ct_raises(x) + 1


@guppy
def quantum(q: qubit, r: qubit) -> bool:
    h(q)
    cx(q, r)
    a = qubit()
    h(a)
    return measure(a)


@guppy
def arr(xs: array[int, 3] @ owned) -> int:
    s = 0
    for x in xs:
        s += x
    return s + comptime(7)


@guppy.overload(plain, branchy)
def ov(): ...


@guppy
def use_overload(x: int) -> float:
    return ov(x, 1.0) + ov(x)


@guppy
def main_entry() -> float:
    return use_struct(caller(3))


@guppy
def burn1(n: int) -> int:
    s = 0
    for i in range(n):
        s += i
    return s


@guppy
def nest(n: int, m: int) -> int:
    s = 0
    for i in range(n):
        for j in range(m):
            s += i * j
    return s


@guppy
def ctor_value(x: int) -> float:
    mk = Pt
    return mk(x, 1.5).norm()


# ---- name collisions between nested helpers and module-level definitions (C11-b), and a
# temporary + a >=5-character user variable live across one block boundary (C11-a)
@guppy
def helper(x: int, y: int) -> int:
    return x + y


@guppy
def uses_helper(x: int) -> int:
    return helper(x, 1)


@guppy
def uses_helper_twice(x: int) -> int:
    return helper(helper(x, 2), x)


@guppy
def shadow_rec(x: int) -> int:
    def helper(n: int) -> int:          # non-capturing, recursive, other signature
        if n > 0:
            return helper(n - 1)
        return 0
    return helper(x)


@guppy
def shadow_rec_same(x: int) -> int:
    def helper(n: int, m: int) -> int:  # non-capturing, recursive, same signature
        if n > 0:
            return helper(n - 1, m)
        return m
    return helper(x, x)


@guppy
def shadow_nonrec(x: int) -> int:
    def helper(n: int) -> int:          # non-capturing, not recursive
        return n + 1
    return helper(x)


@guppy
def shadow_capt(x: int) -> int:
    def helper(n: int) -> int:          # capturing, recursive
        if n > 0:
            return helper(n - 1)
        return x
    return helper(x)


@guppy
def shadow_capt_nonrec(x: int) -> int:
    def plain(n: int) -> int:           # capturing, not recursive, shadows `plain`
        return n + x
    return plain(x)


@guppy
def sum_total(n: int) -> int:
    total = 0
    for i in range(n):
        total += i
    return total


@guppy
def span_bounds(n: int, bounds: int) -> int:
    lower = 0
    for i in range(n):
        if i < bounds:
            lower += i
    return lower + bounds


# ---- std-library constructs lowered by persistent call-compiler objects (C11-r3a)
from guppylang.std.either import Either, left, right  # noqa: E402
from guppylang.std.err import Result, ok, err  # noqa: E402
from guppylang.std.option import Option, nothing, some  # noqa: E402
from guppylang.std.mem import mem_swap  # noqa: E402
from guppylang.std.angles import angle, pi  # noqa: E402
from guppylang.std.builtins import result, panic, barrier  # noqa: E402
from guppylang.std.quantum import rz, discard  # noqa: E402
from guppylang.std.quantum import cz, reset, t, toffoli  # noqa: E402


@guppy
def std_right_a() -> int:
    x: Either[float, int] = right(10)
    return x.unwrap_right()


@guppy
def std_right_b() -> int:
    y: Either[float, int] = right(32)
    return y.unwrap_right() + 1


@guppy
def std_left_right(b: bool) -> float:
    z: Either[float, int] = left(1.5)
    w: Either[float, int] = right(3)
    if b and w.is_right():
        return 1.0
    if z.is_left():
        return z.unwrap_left()
    return 0.0


@guppy
def std_err_a() -> bool:
    r: Result[int, bool] = err(True)
    return r.unwrap_err()


@guppy
def std_ok_err(b: bool) -> int:
    r: Result[int, float] = ok(4)
    e: Result[int, float] = err(2.5)
    if b and e.is_err():
        return 7
    if r.is_ok():
        return r.unwrap()
    return 0


@guppy
def std_option(b: bool) -> int:
    o: Option[int] = nothing()
    if b:
        o = some(5)
    if o.is_some():
        return o.unwrap()
    return 1


@guppy
def std_array(n: int) -> int:
    xs = array(n, n + 1, n + 2)
    xs[1] = xs[0] + xs[2]
    ys = array(i * 2 for i in range(4))
    return xs[1] + ys[3] + len(ys)


@guppy
def std_list(n: int) -> int:
    ls = [n, 2 * n]
    ls.append(3)
    return len(ls) + ls.pop()


@guppy
def std_angle(q: qubit) -> None:
    a = angle(0.25) + pi / 2
    rz(q, a)


@guppy
def std_result_panic(x: int) -> None:
    result("value", x)
    result("flag", x > 2)
    if x > 100:
        panic("too big", x)


@guppy
def std_barrier_swap(q: qubit, r: qubit) -> None:
    barrier(q, r)
    mem_swap(q, r)
    h(q)


@guppy
def std_qsystem(q: qubit, r: qubit) -> bool:
    # (guppylang.std.qsystem cannot be imported under the sandbox shim: plain quantum ops)
    cz(q, r)
    t(q)
    reset(r)
    a = qubit()
    toffoli(q, r, a)
    return measure(a)


POOL = {
    "plain": plain, "branchy": branchy, "noret": noret, "bad_type": bad_type,
    "bad_linear": bad_linear, "bad_name": bad_name, "ident": ident, "pair": pair,
    "use_generic": use_generic, "Pt": Pt, "Box": Box, "use_struct": use_struct,
    "closure_rec": closure_rec, "closure_rec_nested": closure_rec_nested,
    "closure_plain": closure_plain, "generic_closure": generic_closure,
    "use_generic_closure": use_generic_closure, "ct_sum": ct_sum, "ct_raises": ct_raises,
    "ct_badret": ct_badret, "caller": caller, "caller_of_bad": caller_of_bad,
    "caller_of_ct_raises": caller_of_ct_raises, "quantum": quantum, "arr": arr,
    "use_overload": use_overload, "main_entry": main_entry, "burn1": burn1, "nest": nest,
    "ctor_value": ctor_value, "helper": helper, "uses_helper": uses_helper,
    "uses_helper_twice": uses_helper_twice, "shadow_rec": shadow_rec,
    "shadow_rec_same": shadow_rec_same, "shadow_nonrec": shadow_nonrec,
    "shadow_capt": shadow_capt, "shadow_capt_nonrec": shadow_capt_nonrec,
    "sum_total": sum_total, "span_bounds": span_bounds,
    "std_right_a": std_right_a, "std_right_b": std_right_b, "std_left_right": std_left_right,
    "std_err_a": std_err_a, "std_ok_err": std_ok_err, "std_option": std_option,
    "std_array": std_array, "std_list": std_list, "std_angle": std_angle,
    "std_result_panic": std_result_panic, "std_barrier_swap": std_barrier_swap,
    "std_qsystem": std_qsystem,
}
STD = [n for n in POOL if n.startswith("std_")]

# Hand-written abstraction of the pool for the Engine model (validated against the observed
# ENGINE.checked sets on every run): direct dependencies among pool definitions, whether the
# definition's own check fails, whether it is traced (comptime) and whether its trace raises.
def _m(deps=(), check_ok=True, comptime=False, trace_ok=True, is_type=False, nested=()):
    return {"deps": list(deps), "check_ok": check_ok, "comptime": comptime, "trace_ok": trace_ok,
            "is_type": is_type, "nested": list(nested)}


META = {
    "plain": _m(), "branchy": _m(), "noret": _m(), "bad_type": _m(check_ok=False),
    "bad_linear": _m(check_ok=False), "bad_name": _m(check_ok=False), "ident": _m(), "pair": _m(),
    "use_generic": _m(["pair", "ident"]), "Pt": _m(is_type=True), "Box": _m(["Pt"], is_type=True),
    "use_struct": _m(["Pt", "Box"]), "closure_rec": _m(), "closure_rec_nested": _m(),
    "closure_plain": _m(), "generic_closure": _m(), "use_generic_closure": _m(["generic_closure"]),
    "ct_sum": _m(["plain"], comptime=True), "ct_raises": _m(comptime=True, trace_ok=False),
    "ct_badret": _m(comptime=True, trace_ok=False),
    "caller": _m(["plain", "closure_rec", "ct_sum"]), "caller_of_bad": _m(["plain", "bad_type"]),
    "caller_of_ct_raises": _m(["ct_raises"]), "quantum": _m(), "arr": _m(),
    "use_overload": _m(["plain", "branchy"]), "main_entry": _m(["use_struct", "caller"]),
    "burn1": _m(), "nest": _m(), "ctor_value": _m(["Pt"]),
    "helper": _m(), "uses_helper": _m(["helper"]), "uses_helper_twice": _m(["helper"]),
    "shadow_rec": _m(nested=["helper"]), "shadow_rec_same": _m(nested=["helper"]),
    "shadow_nonrec": _m(), "shadow_capt": _m(),
    "shadow_capt_nonrec": _m(), "sum_total": _m(), "span_bounds": _m(),
}
META.update({n: _m() for n in STD})
