"""C11 — compiling a definition does not depend on session history (level: other, partial).

1. regenerate coq/C11/GenInventory.v from the source tree (engine fields vs reset(), module-level
   mutable state, mutation sites on checked objects, the compile_cfg guard, try/finally in
   set_tracing_state, the name order of compare_var) — fail-closed translator tr_inventory.py;
2. re-check coq/C11/Props.v (theorems about the session state machine, parameterised by the
   generated facts; the inventory theorems compare the generated lists with the model's);
3. X / failing-input search: replay histories (corpus first, then seeded random ones) over the
   pool of real definitions in ONE interpreter each and compare every operation's outcome
   (canonicalised HUGR digest, rendered error, extensions) with the same operation in a fresh
   interpreter; a difference is a counterexample, minimised, with the history as replay;
4. model-vs-implementation: run the same histories through ModelEngine (vm_compute) on the
   hand-written abstraction of the pool and compare per-operation status class, tracing flag
   and, after successful operations, the set of checked definitions."""
import json
from collections import Counter
from concurrent.futures import ThreadPoolExecutor

import vlib
from vlib import proof_coverage

LEVEL = "other"
FUEL = 400


def generate(ctx):
    import tr_inventory
    ctx.gen("GenInventory.v", tr_inventory.translate(ctx.repo))


def run_impl(ctx, histories, keep_lines=False, workers=8):
    chunks = [histories[i::workers] for i in range(workers)]
    chunks = [c for c in chunks if c]

    def one(c):
        return json.loads(ctx.impl("impl_hist.py", {"histories": c, "keep_lines": keep_lines}))
    with ThreadPoolExecutor(max_workers=workers) as ex:
        outs = list(ex.map(one, chunks))
    res = [None] * len(histories)
    for w, o in enumerate(outs):
        for j, r in enumerate(o["results"]):
            res[w + j * len(chunks)] = r
    return res, outs[0]["pool"], outs[0]["meta"]


def sig(rec):
    """What must be independent of history for one operation."""
    return (rec["status"], rec.get("hugr"), rec.get("err"), tuple(rec.get("exts") or ()), rec.get("value"))


def gen_histories(r, pool, n, lo, hi):
    ops = ["compile"] * 11 + ["check"] * 6 + ["pycall"] * 3
    hs = []
    for _ in range(n):
        k = r.randint(lo, hi)
        focus = r.sample(pool, r.randint(2, 6))      # a few names repeated often
        hs.append([[r.choice(ops), r.choice(focus) if r.random() < 0.7 else r.choice(pool)] for _ in range(k)])
    return hs


def replay_cmd(ctx, hist):
    req = json.dumps({"histories": [hist]})
    return (f"cd /tmp && echo '{req}' | VERIF_REPO={ctx.repo} PYTHONHASHSEED=0 PYTHONPATH=/verif/tools "
            f"/venv/bin/python /verif/props/C11/impl_hist.py   # compare the last operation with: "
            f"{json.dumps({'histories': [[hist[-1]]]})}")


def minimise(ctx, hist, fresh_sig):
    """Greedy: drop earlier operations while the last operation still differs from fresh."""
    cur = list(hist)
    changed = True
    rounds = 0
    while changed and len(cur) > 1 and rounds < 6:
        changed = False
        rounds += 1
        cands = [cur[:i] + cur[i + 1:] for i in range(len(cur) - 1)]
        res, _, _ = run_impl(ctx, cands)
        for c, r in zip(cands, res):
            if isinstance(r, list) and sig(r[-1]) != fresh_sig:
                cur, changed = c, True
                break
    return cur


# ---------------------------------------------------------------- model side
def coq_model_file(pool, meta, histories):
    idx = {n: i for i, n in enumerate(pool)}
    b = lambda x: "true" if x else "false"
    defs = []
    for n in pool:
        m = meta[n]
        deps = "; ".join(str(idx[d]) for d in m["deps"])
        nested = "; ".join(str(idx[d]) for d in m.get("nested", []))
        defs.append(f"({idx[n]}, mkDef {b(m['is_type'])} [{deps}] [{nested}] {b(m['check_ok'])} {b(m['comptime'])} "
                    f"{b(m['trace_ok'])} 2 1 {1 if m['is_type'] else 0} {2 if m['is_type'] else 0}%nat 1%nat 0%nat false [] {idx[n]})")
    opc = {"check": "OCheck", "compile": "OCompile", "pycall": "OPyCall"}
    hs = []
    for h in histories:
        hs.append("[" + "; ".join(f"{opc[o]} {idx[n]}" for o, n in h) + "]")
    return "\n".join([
        "From Coq Require Import ZArith List Bool.",
        "From V.C11 Require Import ModelOrder GenInventory ModelEngine.",
        "Import ListNotations. Open Scope Z_scope.",
        f"Definition F := {FUEL}%nat.",
        "Definition pool : list (Z * Def) := [" + ";\n ".join(defs) + "].",
        "(* names are the pool indices: the module namespace binds every pool name to its definition *)",
        f"Definition s0 : Sess := mkSess pool {len(pool)} [] [] [] [] [] 0 0 0 false [] (map (fun p => (fst p, fst p)) pool).",
        "Definition code (r : res) : Z := match r with Ok => 0 | Err (KeyErr _) => 1 | Err (CheckErr _) => 2 | Err (TraceErr _) => 3 | Err OutOfFuel => 9 end.",
        "Definition status (s : Sess) (o : op) : Z := match o with",
        "  | OCheck id => code (snd (check F s id)) | OCompile id => code (snd (fst (compile F s id)))",
        "  | OPyCall _ => match pycall s with PyComptimeError => 4 | PyTracedGarbage => 5 end | ORegister _ _ => 0 end.",
        "Fixpoint trace (s : Sess) (h : list op) : list (Z * bool * list Z * bool) := match h with [] => []",
        "  | o :: r => let s' := exec_op F s o in",
        "     (status s o, tracing s', map fst (checked s'), match to_check s', types_to_check s' with [], [] => true | _, _ => false end) :: trace s' r end.",
        "Definition hs : list (list op) := [" + ";\n ".join(hs) + "].",
        "Eval vm_compute in (map (trace s0) hs).", ""])


def impl_class(rec, fresh_check_ok):
    if rec["op"] == "pycall":
        return 4 if (rec["status"] == "err" and "may only be called in a Guppy context" in (rec.get("err") or "")) else 5
    if rec["status"] == "ok":
        return 0
    if rec["op"] == "compile" and fresh_check_ok.get(rec["name"]):
        return 3
    return 2


def ast_assign_named(n, name):
    import ast as _ast
    ok = isinstance(n, _ast.Assign) and len(n.targets) == 1 and isinstance(n.targets[0], _ast.Name) and n.targets[0].id == name
    return _ast.Assign if ok else type(None)


def run(ctx):
    # A translator that fails closed breaks the tie, but the verdict should still come with a
    # concrete failing history when one exists: keep going with the replay search.
    tr_err = None
    try:
        generate(ctx)
    except vlib.TranslatorError as e:
        tr_err = str(e)
    import tr_inventory
    if tr_err is None:
        info = ctx.coq_props()
        inv = tr_inventory.inventory(ctx.repo)
    else:
        info = {"ok": False, "failed": "translator: " + tr_err, "log": "translator failed closed: " + tr_err,
                "obligations": 1, "discharged": 0, "axioms": [], "theorems": []}
        inv = {k: None for k in ("engine_fields", "reset_fields", "global_state", "mutation_sites", "guard_present",
                                 "has_finally", "order", "check_resets_first", "compile_checks_first",
                                 "session_write_sites", "nested_writes_namespace", "call_object_state")}
        inv["global_state"] = []
        inv["session_write_sites"] = []
    r = vlib.rng(ctx.seed, "C11")

    # ---- histories: fresh single-op references, corpus, random
    import sys as _sys
    _sys.path.insert(0, str(ctx.dir))
    import ast as _ast
    # pool names / META are data in pool_defs.py; read them without importing guppylang
    _src = _ast.parse((ctx.dir / "pool_defs.py").read_text())
    pool = sorted(k.value for n in _ast.walk(_src) if isinstance(n, ast_assign_named(n, "POOL")) for k in n.value.keys)
    import time as _t
    t_a = _t.time()
    # a fresh interpreter per (check|compile, name); the pycall references share one fresh
    # interpreter (a rejected call does not touch the engine)
    fresh_hist = [[[op, n]] for n in pool for op in ("check", "compile")] + [[["pycall", n] for n in pool]]
    corpus = []
    for f in sorted((ctx.dir / "corpus").glob("*.json")):
        corpus += json.loads(f.read_text())["histories"]
    n_rand = 30 if ctx.quick else 170
    rand = gen_histories(r, pool, n_rand, 3, 9 if ctx.quick else 14)
    # long histories advance the counters far (digit roll-overs at 10 / 100)
    rand += gen_histories(r, pool, 3 if ctx.quick else 15, 25, 40)
    # std-library constructs are lowered by call-compiler objects that live for the whole
    # session: compile A k times (k = 1..4), then B, and compare every compile with a fresh one
    std = [n for n in pool if n.startswith("std_")]
    family = []
    for i, a in enumerate(std):
        partners = [std[(i + 1) % len(std)]] if ctx.quick else [std[(i + j) % len(std)] for j in (1, 2, 5)]
        for k in ([4] if ctx.quick else [1, 2, 3, 4]):
            for b_ in partners:
                family.append([["compile", a]] * k + [["compile", b_]])
    histories = corpus + family + rand
    res_all, pool_impl, meta = run_impl(ctx, fresh_hist + histories)
    assert pool_impl == pool, (pool_impl, pool)
    fresh_res, res = res_all[:len(fresh_hist)], res_all[len(fresh_hist):]
    harness_fail = [i for i, x in enumerate(res_all) if not isinstance(x, list)]
    if harness_fail:
        ctx.report("harness", "correspondence", "impl_hist.py child failed",
                   {"first": res_all[harness_fail[0]], "count": len(harness_fail)}, found_input=False)
    ctx.notes.append(f"implementation replay: {len(res_all)} interpreters in {_t.time() - t_a:.1f}s")
    fresh = {}
    for h, x in zip(fresh_hist, fresh_res):
        if isinstance(x, list):
            for o, rec in zip(h, x):
                fresh[(o[0], o[1])] = rec
    fresh_check_ok = {n: fresh[("check", n)]["status"] == "ok" for n in pool if ("check", n) in fresh}

    # ---- (3) history vs fresh
    n_ops = n_diff = 0
    reported = set()
    kinds = Counter()
    for h, out in zip(histories, res):
        if not isinstance(out, list):
            continue
        for i, rec in enumerate(out):
            n_ops += 1
            ref = fresh.get((rec["op"], rec["name"]))
            if ref is None:
                continue
            kinds[(rec["op"], rec["status"])] += 1
            if sig(rec) != sig(ref):
                n_diff += 1
                key = f"history-dependence:{rec['op']}:{rec['name']}"
                if key in reported or len(reported) >= 4:
                    continue
                reported.add(key)
                small = h[:i + 1] if ctx.is_known(key) else minimise(ctx, h[:i + 1], sig(ref))
                detail = {"history": small, "operation": small[-1],
                          "expected_like_fresh_interpreter": {k: ref.get(k) for k in ("status", "hugr", "nodes", "err", "exts", "value")},
                          "observed_after_history": {k: rec.get(k) for k in ("status", "hugr", "nodes", "err", "exts", "value")},
                          "meaning": "the same operation gives a different canonicalised HUGR / error after this history than in a fresh interpreter",
                          "replay": replay_cmd(ctx, small)}
                try:
                    two, _, _ = run_impl(ctx, [small, [small[-1]]], keep_lines=True, workers=1)
                    a, b_ = two[0][-1].get("lines"), two[1][-1].get("lines")
                    if a and b_:
                        d = [j for j in range(min(len(a), len(b_))) if a[j] != b_[j]]
                        detail["first_differing_node"] = {"index": d[0] if d else None,
                                                          "after_history": a[d[0]][:400] if d else None,
                                                          "fresh": b_[d[0]][:400] if d else None,
                                                          "differing_nodes": len(d), "nodes": [len(a), len(b_)]}
                except Exception as e:  # noqa: BLE001
                    detail["diff_error"] = repr(e)
                ctx.report(key, "counterexample", "history dependence: " + " ".join(small[-1]), detail)

    # ---- (4) model vs implementation
    model_cases = model_diff = 0
    cone_checked = 0
    sample_model = []
    model_ok = tr_err is None and (vlib.COQ / "C11" / "ModelEngine.vo").exists()
    # definitions whose cone contains a comptime definition: the real engine discovers the
    # callees of a traced body lazily during compile, the model (abstraction) during check
    def cone(n, seen=None):
        seen = set() if seen is None else seen
        if n not in seen:
            seen.add(n)
            for d in meta[n]["deps"]:
                cone(d, seen)
        return seen
    lazy = {n for n in pool if any(meta[m]["comptime"] for m in cone(n))}
    if model_ok:
        mh = [h for h, out in zip(histories, res) if isinstance(out, list)]
        mo = [out for out in res if isinstance(out, list)]
        chunks = [(mh[i:i + 60], mo[i:i + 60]) for i in range(0, len(mh), 60)]
        try:
            outs = ctx.coq_eval_many({f"m{i}": coq_model_file(pool, meta, c[0]) for i, c in enumerate(chunks)})
            for i, (hs, os_) in enumerate(chunks):
                vals = vlib.parse_coq_values(outs[f"m{i}"])[0]
                for h, out, mv in zip(hs, os_, vals):
                    for j, (rec, m) in enumerate(zip(out, mv)):
                        model_cases += 1
                        mstat, mtr, mchk, mwl = m
                        istat = impl_class(rec, fresh_check_ok)
                        bad = []
                        if mstat != istat:
                            bad.append(("status_class", mstat, istat))
                        if bool(mtr) != rec["obs"]["tracing"]:
                            bad.append(("tracing", bool(mtr), rec["obs"]["tracing"]))
                        if istat == 0 and rec["op"] != "pycall" and not (rec["op"] == "check" and rec["name"] in lazy):
                            cone_checked += 1
                            if sorted(pool[k] for k in mchk) != rec["obs"]["checked"]:
                                bad.append(("checked_set", sorted(pool[k] for k in mchk), rec["obs"]["checked"]))
                            # (compile may leave lazily discovered comptime callees queued; only
                            #  check() guarantees empty worklists)
                            if rec["op"] == "check" and bool(mwl) != rec["obs"]["worklists_empty"]:
                                bad.append(("worklists_empty", bool(mwl), rec["obs"]["worklists_empty"]))
                        if len(sample_model) < 3 and j == len(out) - 1:
                            sample_model.append({"history": h, "model_last": m, "impl_last": [istat, rec["obs"]]})
                        if bad:
                            model_diff += 1
                            if model_diff <= 2:
                                ctx.report(f"model-mismatch:{rec['op']}:{rec['name']}:{bad[0][0]}", "correspondence",
                                           "ModelEngine vs engine.py on a history",
                                           {"history": h[:j + 1], "differences(model,impl)": bad,
                                            "meaning": "the session model (or its abstraction of the pool, pool_defs.META) no longer predicts the real engine's per-operation status / tracing flag / checked set",
                                            "replay": replay_cmd(ctx, h[:j + 1])}, found_input=True)
        except RuntimeError as e:
            ctx.notes.append(f"model evaluation failed: {e}")
            model_ok = False

    ctx.notes.append(f"total before decision: {_t.time() - t_a:.1f}s")
    # ---- decide on proofs
    if not info["ok"]:
        if not ctx.violations and not ctx.known_hits:
            ctx.report(("translator:" + tr_err) if tr_err else "proof-broken:" + str(info["failed"]), "proof-broken", str(info["failed"]),
                       {"coq_error": vlib.CoqResult(False, info["log"]).error_excerpt(),
                        "generated_facts": {k: inv[k] for k in ("guard_present", "has_finally", "order", "check_resets_first", "compile_checks_first", "reset_fields", "engine_fields", "nested_writes_namespace", "call_object_state")},
                        "unmodelled_write_sites": sorted(set(inv["session_write_sites"]) ^ set(MODELLED_AND_CONSTANT(r'"((?:internals|guppylang)/[^"]+(?:\(\)|=))"'))) if inv["session_write_sites"] else None,
                        "unmodelled_state": sorted(set(inv["global_state"]) ^ set(MODELLED_AND_CONSTANT())),
                        "searched": {"histories": len(histories), "operations": n_ops}},
                       found_input=False)
        else:
            ctx.notes.append(f"Props.v does not check ({info['failed']}); the replay search found the failing input(s) reported above")

    lens = Counter(min(len(h) // 5 * 5, 40) for h in histories)
    cov = proof_coverage(
        info, "make -f Makefile.C11 C11/Props.vo && coqc C11/Props.v (Print Assumptions)",
        ["Coq 8.16.1 kernel (vm_compute in Examples, inventory theorems and the refutation witness)",
         "coq/C11/ModelEngine.v: hand-written abstraction of engine.py/compile to session-state effects (NOT translated from the compiler); tied by inventories + per-operation comparison",
         "props/C11/tr_inventory.py: reading of engine.py, cfg_compiler.py, tracing/state.py and the module-level state scan",
         "tools/repo_shim.py; props/C11/pool_defs.py (pool + META abstraction)",
         "canonicalisation in impl_hist.canon_hugr: node-by-node dump of the Hugr module with `base.N` function names renumbered by first occurrence"],
        evaluations=n_ops, distinct_nontrivial=len({json.dumps(h) for h in histories if len(h) > 1}),
        rule="evaluations = operations replayed inside multi-operation histories and compared with the same operation in a fresh interpreter; non-trivial = distinct histories with at least two operations",
        histories=len(histories), corpus_histories=len(corpus), std_family_histories=len(family), fresh_references=len(fresh),
        operations_differing_from_fresh=n_diff,
        operation_outcomes={f"{k[0]}/{k[1]}": v for k, v in sorted(kinds.items())},
        history_length_histogram={str(k): v for k, v in sorted(lens.items())},
        pool=pool, model_vs_impl_operations=model_cases, model_vs_impl_disagreements=model_diff,
        successful_ops_with_checked_set_compared=cone_checked, model_evaluated=model_ok,
        inventory={"engine_fields": inv["engine_fields"], "reset_fields": inv["reset_fields"],
                   "global_state_entries": len(inv["global_state"] or []), "mutation_sites": inv["mutation_sites"],
                   "session_write_sites": len(inv["session_write_sites"]), "call_object_state": inv.get("call_object_state"), "nested_writes_namespace": inv["nested_writes_namespace"],
                   "translator_error": tr_err,
                   "guard_present": inv["guard_present"], "set_tracing_state_has_finally": inv["has_finally"],
                   "compare_var_order": inv["order"]},
        samples=[{"history": histories[j], "last_op": {k: res[j][-1].get(k) for k in ("op", "name", "status", "hugr", "nodes")}}
                 for j in (0, len(histories) // 2, len(histories) - 1) if isinstance(res[j], list)] + sample_model,
        notes=ctx.notes)
    return ctx.finish(LEVEL, cov, [
        "PARTIAL: the Engine model abstracts parsing/checking/lowering to their effect on session state; the theorems show that the modelled state is reset / rebuilt / idempotently mutated / only renumbers symbols, not that the real compiler has no other state",
        "unmodelled state is detected only by the generated inventories (module-/class-level containers, counters, ContextVars, caches; attribute stores and mutating calls on cfg/func/bb/pred/defn objects in compiler/ and tracing/) and sampled by the differential replay",
        "DEF_STORE.impls/frames/sources and ENGINE.additional_extensions are treated as registration-time data / configuration",
        "the forked child after importing the pool stands for a fresh interpreter"])


def MODELLED_AND_CONSTANT(pat=r'"((?:internals|guppylang)/[^"]+:(?:count|GeneratorExp|cache|Dict|List|DictComp|dict|global|DefinitionStore|CompilationEngine|ContextVar))"'):
    import re
    txt = (vlib.COQ / "C11" / "ModelInventory.v").read_text()
    return re.findall(pat, txt)
