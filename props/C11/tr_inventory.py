"""C11 translator: inventories of session state, read from the source with `ast` (fail-closed).

Emits coq/C11/GenInventory.v:
  engine_fields / reset_fields      fields of CompilationEngine vs fields assigned by reset()
  check_resets_first / compile_checks_first
  global_state                      module-/class-level mutable state in guppylang_internals + guppylang
                                    (counters, ContextVars, generators, containers, caches, singletons)
  mutation_sites                    in-place mutations of checked objects in compiler/ and tracing/
  cfg_field_readers                 reads of CheckedCFG.input_tys inside compiler/
  guard_present                     compile_cfg guards insert_return_vars
  set_tracing_state_has_finally     the context manager restores the state in a finally block
  compare_var_name_order            which order compare_var uses on names
"""
import ast
from pathlib import Path

import vlib
from vlib import TranslatorError

MUT_CALLS = {"count", "ContextVar", "dict", "list", "set", "defaultdict", "OrderedDict", "deque",
             "DefinitionStore", "CompilationEngine", "SourceMap", "WeakKeyDictionary", "WeakValueDictionary"}
CACHE_DECOS = {"cache", "lru_cache"}


def _callname(f):
    if isinstance(f, ast.Name):
        return f.id
    if isinstance(f, ast.Attribute):
        return f.attr
    return None


def _is_mutable_value(v):
    if isinstance(v, (ast.Dict, ast.List, ast.Set, ast.DictComp, ast.ListComp, ast.SetComp, ast.GeneratorExp)):
        return type(v).__name__
    if isinstance(v, ast.Call) and _callname(v.func) in MUT_CALLS:
        return _callname(v.func)
    return None


def _targets(st):
    if isinstance(st, ast.Assign):
        return [t for t in st.targets], st.value
    if isinstance(st, ast.AnnAssign) and st.value is not None:
        return [st.target], st.value
    return [], None


def scan_globals(root: Path, rel_prefix: str):
    out = []
    for p in sorted(root.rglob("*.py")):
        rel = rel_prefix + "/" + p.relative_to(root).as_posix()
        tree = ast.parse(p.read_text())

        def body_scan(body, owner):
            for st in body:
                tg, val = _targets(st)
                kind = _is_mutable_value(val) if val is not None else None
                if kind:
                    for t in tg:
                        if isinstance(t, ast.Name):
                            if t.id == "__all__":
                                continue
                            out.append(f"{rel}:{owner}{t.id}:{kind}")
                if isinstance(st, (ast.FunctionDef, ast.AsyncFunctionDef)):
                    for d in st.decorator_list:
                        n = _callname(d.func) if isinstance(d, ast.Call) else _callname(d)
                        if n in CACHE_DECOS:
                            out.append(f"{rel}:{owner}{st.name}:{n}")
                    for sub in ast.walk(st):
                        if isinstance(sub, ast.Global):
                            for nm in sub.names:
                                e = f"{rel}:{nm}:global"
                                if e not in out:
                                    out.append(e)
                if isinstance(st, ast.ClassDef):
                    body_scan(st.body, owner + st.name + ".")
                if isinstance(st, (ast.If, ast.Try)):
                    body_scan(getattr(st, "body", []), owner)
                    body_scan(getattr(st, "orelse", []), owner)
        body_scan(tree.body, "")
    return out


def engine(path: Path):
    tree = ast.parse(path.read_text())
    cls = [n for n in tree.body if isinstance(n, ast.ClassDef) and n.name == "CompilationEngine"]
    if len(cls) != 1:
        raise TranslatorError("engine.py: class CompilationEngine not found exactly once")
    cls = cls[0]
    fields, reset_fields = [], None
    check_first = compile_first = None

    def add(f):
        if f not in fields:
            fields.append(f)
    for st in cls.body:
        if isinstance(st, ast.AnnAssign) and isinstance(st.target, ast.Name):
            add(st.target.id)
    for fn in cls.body:
        if not isinstance(fn, ast.FunctionDef):
            continue
        assigned = []
        for sub in ast.walk(fn):
            tg = []
            if isinstance(sub, ast.Assign):
                tg = sub.targets
            elif isinstance(sub, (ast.AnnAssign, ast.AugAssign)):
                tg = [sub.target]
            for t in tg:
                if isinstance(t, ast.Attribute) and isinstance(t.value, ast.Name) and t.value.id == "self":
                    add(t.attr)
                    assigned.append(t.attr)
        body = [s for s in fn.body if not (isinstance(s, ast.Expr) and isinstance(s.value, ast.Constant))
                and not isinstance(s, (ast.Import, ast.ImportFrom))]

        def is_self_call(s, name):
            return (isinstance(s, ast.Expr) and isinstance(s.value, ast.Call)
                    and isinstance(s.value.func, ast.Attribute) and s.value.func.attr == name
                    and isinstance(s.value.func.value, ast.Name) and s.value.func.value.id == "self")
        if fn.name == "reset":
            if not all(isinstance(s, ast.Assign) for s in body):
                raise TranslatorError("engine.py: reset() is no longer a list of plain assignments")
            for s in body:
                if not isinstance(s.value, (ast.Dict, ast.List, ast.Set)) or (getattr(s.value, "keys", None) or getattr(s.value, "elts", None)):
                    raise TranslatorError("engine.py: reset() assigns something other than an empty container")
            reset_fields = assigned
        if fn.name == "check":
            check_first = bool(body) and is_self_call(body[0], "reset")
        if fn.name == "compile":
            compile_first = bool(body) and is_self_call(body[0], "check")
    if reset_fields is None or check_first is None or compile_first is None:
        raise TranslatorError("engine.py: reset/check/compile not found")
    return fields, reset_fields, check_first, compile_first


MUT_METHODS = {"append", "extend", "insert", "pop", "remove", "clear", "update", "add", "setdefault", "popitem", "discard"}
CHECKED_ROOTS = {"cfg", "func", "bb", "pred", "defn", "func_def", "checked"}


def _root(e):
    while isinstance(e, (ast.Attribute, ast.Subscript)):
        e = e.value
    return e.id if isinstance(e, ast.Name) else None


def scan_mutations(root: Path, rel_prefix: str, subdirs):
    """Attribute stores `x.a.b = ...` and mutating method calls `x.a.m(...)` whose receiver is
    an attribute path of length >= 1 rooted at a name other than self/ctx-local builders."""
    out, readers = [], []
    for sd in subdirs:
        for p in sorted((root / sd).rglob("*.py")):
            rel = rel_prefix + "/" + p.relative_to(root).as_posix()
            tree = ast.parse(p.read_text())
            for fn in ast.walk(tree):
                if not isinstance(fn, (ast.FunctionDef, ast.AsyncFunctionDef)):
                    continue
                for sub in ast.walk(fn):
                    tg = []
                    if isinstance(sub, ast.Assign):
                        tg = sub.targets
                    elif isinstance(sub, (ast.AugAssign, ast.AnnAssign)):
                        tg = [sub.target]
                    for t in tg:
                        if isinstance(t, ast.Attribute) and _root(t) in CHECKED_ROOTS:
                            out.append(f"{rel}:{fn.name}:{ast.unparse(t)}=")
                    if (isinstance(sub, ast.Call) and isinstance(sub.func, ast.Attribute)
                            and sub.func.attr in MUT_METHODS and isinstance(sub.func.value, ast.Attribute)
                            and _root(sub.func.value) in CHECKED_ROOTS):
                        out.append(f"{rel}:{fn.name}:{ast.unparse(sub.func)}()")
                    if sd == "compiler" and isinstance(sub, ast.Attribute) and sub.attr == "input_tys" and isinstance(sub.ctx, ast.Load):
                        # a read unless it is the receiver of .append
                        readers.append((rel, fn.name, sub))
    return sorted(set(out)), readers


NS_ATTRS = {"f_locals", "f_globals", "f_builtins", "__dict__", "__globals__"}
SESSION_ROOTS = {"ENGINE", "DEF_STORE"}


def _chain_attrs(e):
    out = []
    while isinstance(e, (ast.Attribute, ast.Subscript, ast.Call)):
        if isinstance(e, ast.Attribute):
            out.append(e.attr)
            e = e.value
        elif isinstance(e, ast.Subscript):
            e = e.value
        else:
            e = e.func
    return out, (e.id if isinstance(e, ast.Name) else None)


def scan_session_writes(root: Path, rel_prefix: str):
    """Every place that writes session-global state from outside its owner: stores into a frame
    namespace (`x.f_locals[...] = ...`, `f.__globals__.update(...)`), stores / mutating calls on
    attributes of the ENGINE and DEF_STORE singletons, and calls of DEF_STORE.register_*."""
    out = []
    for p in sorted(root.rglob("*.py")):
        rel = rel_prefix + "/" + p.relative_to(root).as_posix()
        tree = ast.parse(p.read_text())
        for fn in ast.walk(tree):
            if not isinstance(fn, (ast.FunctionDef, ast.AsyncFunctionDef)):
                continue
            for sub in ast.walk(fn):
                tg = []
                if isinstance(sub, ast.Assign):
                    tg = sub.targets
                elif isinstance(sub, (ast.AugAssign, ast.AnnAssign)):
                    tg = [sub.target]
                elif isinstance(sub, ast.Delete):
                    tg = sub.targets
                for t in tg:
                    if isinstance(t, (ast.Subscript, ast.Attribute)):
                        attrs, rt = _chain_attrs(t)
                        inner = attrs[1:] if isinstance(t, ast.Attribute) else attrs
                        if (set(inner) & NS_ATTRS) or rt in SESSION_ROOTS:
                            out.append(f"{rel}:{fn.name}:{ast.unparse(t)}=")
                if isinstance(sub, ast.Call) and isinstance(sub.func, ast.Attribute):
                    attrs, rt = _chain_attrs(sub.func.value)
                    m = sub.func.attr
                    if m in MUT_METHODS and ((set(attrs) & NS_ATTRS) or (rt in SESSION_ROOTS and attrs)):
                        out.append(f"{rel}:{fn.name}:{ast.unparse(sub.func)}()")
                    if rt in SESSION_ROOTS and not attrs and m.startswith("register"):
                        out.append(f"{rel}:{fn.name}:{rt}.{m}()")
    return sorted(set(out))


def nested_def_scoping(path: Path):
    """check_nested_func_def: does it write the nested definition into the frame namespace
    (`globals.f_locals[name] = ...`: the binding outlives the check) or into a copy?"""
    tree = ast.parse(path.read_text())
    fn = [n for n in tree.body if isinstance(n, ast.FunctionDef) and n.name == "check_nested_func_def"]
    if len(fn) != 1:
        raise TranslatorError("func_checker.py: check_nested_func_def missing")
    leaks = copies = 0
    for sub in ast.walk(fn[0]):
        if isinstance(sub, ast.Assign):
            for t in sub.targets:
                src = ast.unparse(t)
                if isinstance(t, ast.Subscript) and ".f_locals" in src:
                    leaks += 1
                if src == "globals.f_locals" and isinstance(sub.value, ast.Dict):
                    copies += 1
                if src == "globals" and ast.unparse(sub.value) == "copy.copy(globals)":
                    copies += 1
        if isinstance(sub, ast.Call) and isinstance(sub.func, ast.Attribute) and sub.func.attr in MUT_METHODS \
                and ".f_locals" in ast.unparse(sub.func.value) + ".":
            leaks += 1
    if leaks:
        return True
    if copies == 2:
        return False
    raise TranslatorError("func_checker.py: check_nested_func_def binds the nested name in an unknown way")


def scan_call_objects(int_root: Path):
    """State on the persistent call-compiler / call-checker objects of the std library.  These
    objects are created once at import (`@custom_function(SomeCompiler(...))`) and live for the
    whole session; the modelled protocol is: `__init__` stores construction parameters, the base
    class `_setup` overwrites every per-call attribute before check/compile runs, and nothing else
    is stored.  Reported: attribute writes on self/cls outside __init__ and the base `_setup`s,
    `_setup` overrides, class-level assignments, caching decorators, and in-place mutation of
    objects reached through `self.*` (directly or through a local bound to `self.<attr>`)."""
    files = sorted((int_root / "std/_internal/compiler").rglob("*.py")) + [
        int_root / "std/_internal/checker.py", int_root / "definition/custom.py"]
    out = []
    for p in files:
        if not p.exists():
            raise TranslatorError(f"missing {p}")
        rel = "internals/" + p.relative_to(int_root).as_posix()
        tree = ast.parse(p.read_text())
        for cls in [n for n in ast.walk(tree) if isinstance(n, ast.ClassDef)]:
            base_setup = rel.endswith("definition/custom.py") and cls.name in (
                "CustomCallChecker", "CustomInoutCallCompiler", "CustomCallCompiler")
            for st in cls.body:
                tg, val = _targets(st)
                for t in tg:
                    # (string constants of diagnostics classes are not state)
                    if isinstance(t, ast.Name) and not (isinstance(val, ast.Constant) and isinstance(val.value, str)):
                        out.append(f"{rel}:{cls.name}.{t.id}:class-attr")
                if not isinstance(st, (ast.FunctionDef, ast.AsyncFunctionDef)):
                    continue
                for d in st.decorator_list:
                    n = _callname(d.func) if isinstance(d, ast.Call) else _callname(d)
                    if n in CACHE_DECOS or n == "cached_property":
                        out.append(f"{rel}:{cls.name}.{st.name}:{n}")
                if st.name == "_setup" and not base_setup:
                    out.append(f"{rel}:{cls.name}._setup:override")
                aliases = {}
                for sub in ast.walk(st):
                    tgs = []
                    if isinstance(sub, ast.Assign):
                        tgs = sub.targets
                        if (len(sub.targets) == 1 and isinstance(sub.targets[0], ast.Name)
                                and isinstance(sub.value, ast.Attribute) and _root(sub.value) in ("self", "cls")):
                            aliases[sub.targets[0].id] = ast.unparse(sub.value)
                    elif isinstance(sub, (ast.AugAssign, ast.AnnAssign)):
                        tgs = [sub.target]
                    for t in tgs:
                        if not isinstance(t, (ast.Attribute, ast.Subscript)):
                            continue
                        rt = _root(t)
                        direct = isinstance(t, ast.Attribute) and isinstance(t.value, ast.Name)
                        if rt in ("self", "cls"):
                            if direct and (st.name == "__init__" or (st.name == "_setup" and base_setup)):
                                continue
                            out.append(f"{rel}:{cls.name}.{st.name}:{ast.unparse(t)}=")
                        elif rt in aliases:
                            out.append(f"{rel}:{cls.name}.{st.name}:{ast.unparse(t)}= [{rt} = {aliases[rt]}]")
                    if (isinstance(sub, ast.Call) and isinstance(sub.func, ast.Attribute) and sub.func.attr in MUT_METHODS):
                        rt = _root(sub.func.value)
                        if rt in ("self", "cls") and isinstance(sub.func.value, (ast.Attribute, ast.Subscript)):
                            out.append(f"{rel}:{cls.name}.{st.name}:{ast.unparse(sub.func)}()")
                        elif rt in aliases and isinstance(sub.func.value, ast.Name):
                            out.append(f"{rel}:{cls.name}.{st.name}:{ast.unparse(sub.func)}() [{rt} = {aliases[rt]}]")
        # module-level caches in these files
        for st in tree.body:
            if isinstance(st, (ast.FunctionDef, ast.AsyncFunctionDef)):
                for d in st.decorator_list:
                    n = _callname(d.func) if isinstance(d, ast.Call) else _callname(d)
                    if n in CACHE_DECOS:
                        out.append(f"{rel}:{st.name}:{n}")
    return sorted(set(out))


def cfg_compiler(path: Path):
    tree = ast.parse(path.read_text())
    fns = {n.name: n for n in tree.body if isinstance(n, ast.FunctionDef)}
    for need in ("compile_cfg", "compare_var", "sort_vars", "insert_return_vars"):
        if need not in fns:
            raise TranslatorError(f"cfg_compiler.py: {need} missing")
    # guard: an `if all(not is_return_var(...) ...): insert_return_vars(cfg)` and no unguarded call
    guarded = unguarded = 0
    for st in fns["compile_cfg"].body:
        if isinstance(st, ast.If):
            calls = [c for c in ast.walk(st) if isinstance(c, ast.Call) and _callname(c.func) == "insert_return_vars"]
            test_src = ast.unparse(st.test)
            if calls and "is_return_var" in test_src and test_src.startswith("all(") and "not is_return_var" in test_src and not st.orelse:
                guarded += len(calls)
            else:
                unguarded += len(calls)
        else:
            unguarded += len([c for c in ast.walk(st) if isinstance(c, ast.Call) and _callname(c.func) == "insert_return_vars"])
    if guarded + unguarded == 0:
        raise TranslatorError("cfg_compiler.py: compile_cfg no longer calls insert_return_vars")
    guard = guarded == 1 and unguarded == 0
    # compare_var: which name order
    src = ast.unparse(fns["compare_var"])
    body = [s for s in fns["compare_var"].body if not (isinstance(s, ast.Expr) and isinstance(s.value, ast.Constant))]
    norm = " ".join(ast.unparse(s) for s in body)
    ORIG = "return -1 if (not p1.ty.droppable, str(p1)) < (not p2.ty.droppable, str(p2)) else 1"
    NAT = ("k1 = (not p1.ty.droppable, _name_sort_key(str(p1)), str(p1)) "
           "k2 = (not p2.ty.droppable, _name_sort_key(str(p2)), str(p2)) return -1 if k1 < k2 else 1")
    if norm == ORIG:
        order = "cmp_name_str"
    elif norm == NAT:
        key = fns.get("_name_sort_key")
        KEY = "return [(int(run), '') if run.isdigit() else (-1, run) for run in re.split('([0-9]+)', name) if run]"
        kbody = [s for s in (key.body if key else []) if not (isinstance(s, ast.Expr) and isinstance(s.value, ast.Constant))]
        if " ".join(ast.unparse(s) for s in kbody) != KEY:
            raise TranslatorError("cfg_compiler.py: _name_sort_key has an unknown body")
        order = "cmp_name_nat"
    else:
        raise TranslatorError("cfg_compiler.py: compare_var has an unknown shape: " + norm[:200])
    sv = [s for s in fns["sort_vars"].body if not (isinstance(s, ast.Expr) and isinstance(s.value, ast.Constant))]
    if " ".join(ast.unparse(s) for s in sv) != "return sorted(row, key=functools.cmp_to_key(compare_var))":
        raise TranslatorError("cfg_compiler.py: sort_vars has an unknown shape")
    return guard, order


def tracing_state(path: Path):
    tree = ast.parse(path.read_text())
    fn = [n for n in tree.body if isinstance(n, ast.FunctionDef) and n.name == "set_tracing_state"]
    if len(fn) != 1:
        raise TranslatorError("tracing/state.py: set_tracing_state missing")
    body = [s for s in fn[0].body if not (isinstance(s, ast.Expr) and isinstance(s.value, ast.Constant))]
    srcs = [ast.unparse(s) for s in body]
    if srcs == ["token = _STATE.set(state)", "yield", "_STATE.reset(token)"]:
        return False
    if (len(body) == 2 and srcs[0] == "token = _STATE.set(state)" and isinstance(body[1], ast.Try)
            and [ast.unparse(s) for s in body[1].body] == ["yield"] and not body[1].handlers and not body[1].orelse
            and [ast.unparse(s) for s in body[1].finalbody] == ["_STATE.reset(token)"]):
        return True
    raise TranslatorError("tracing/state.py: set_tracing_state has an unknown shape")


def coq_list(xs):
    return "[" + "; ".join('"' + x.replace('"', "'") + '"' for x in xs) + "]"


def inventory(repo: Path):
    int_root = repo / vlib.SRC_INT
    pub_root = repo / vlib.SRC_PUB
    for r in (int_root, pub_root):
        if not r.exists():
            raise TranslatorError(f"missing source root {r}")
    fields, reset_fields, check_first, compile_first = engine(int_root / "engine.py")
    glob = scan_globals(int_root, "internals") + scan_globals(pub_root, "guppylang")
    muts, readers = scan_mutations(int_root, "internals", ["compiler", "tracing"])
    rd = []
    for rel, fn, node in readers:
        rd.append(f"{rel}:{fn}")
    guard, order = cfg_compiler(int_root / "compiler/cfg_compiler.py")
    fin = tracing_state(int_root / "tracing/state.py")
    writes = scan_session_writes(int_root, "internals") + scan_session_writes(pub_root, "guppylang")
    nested_leak = nested_def_scoping(int_root / "checker/func_checker.py")
    call_objs = scan_call_objects(int_root)
    return dict(engine_fields=fields, reset_fields=reset_fields, check_resets_first=check_first,
                compile_checks_first=compile_first, global_state=glob, mutation_sites=muts,
                input_tys_mentions=sorted(rd), guard_present=guard, has_finally=fin, order=order,
                session_write_sites=writes, nested_writes_namespace=nested_leak,
                call_object_state=call_objs)


def translate(repo: Path) -> str:
    inv = inventory(repo)
    b = lambda x: "true" if x else "false"
    return "\n".join([
        "(* GENERATED by props/C11/tr_inventory.py from the source tree — do not edit *)",
        "From Coq Require Import ZArith List Bool String.",
        "From V.C11 Require Import ModelOrder.",
        "Import ListNotations. Open Scope string_scope.",
        f"Definition engine_fields : list string := {coq_list(inv['engine_fields'])}.",
        f"Definition reset_fields : list string := {coq_list(inv['reset_fields'])}.",
        f"Definition check_resets_first : bool := {b(inv['check_resets_first'])}.",
        f"Definition compile_checks_first : bool := {b(inv['compile_checks_first'])}.",
        f"Definition global_state : list string := {coq_list(inv['global_state'])}.",
        f"Definition mutation_sites : list string := {coq_list(inv['mutation_sites'])}.",
        f"Definition input_tys_mentions : list string := {coq_list(inv['input_tys_mentions'])}.",
        f"Definition session_write_sites : list string := {coq_list(inv['session_write_sites'])}.",
        f"Definition call_object_state : list string := {coq_list(inv['call_object_state'])}.",
        f"Definition nested_writes_namespace : bool := {b(inv['nested_writes_namespace'])}.",
        f"Definition guard_present : bool := {b(inv['guard_present'])}.",
        f"Definition set_tracing_state_has_finally : bool := {b(inv['has_finally'])}.",
        f"Definition compare_var_name_order : name -> name -> comparison := {inv['order']}.",
        ""])


if __name__ == "__main__":
    import json, sys
    print(json.dumps(inventory(Path(sys.argv[1] if len(sys.argv) > 1 else "/repo")), indent=1))
