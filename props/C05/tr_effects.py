"""C05 part 3 translator: compiler/core.py -> coq/C05/GenEffects.v  (fail closed).

Reads with `ast`:
  * EXTENSION_OPS_WITH_SIDE_EFFECTS — a list display whose elements are one of
        *(op_def.qualified_name() for op_def in <EXT>.operations.values())
        <EXT>.get_op("<name>").qualified_name()
        "<literal qualified name>"
    where <EXT> is a module-level name bound to `tket_exts.<f>()` or is `PRELUDE`.
    The *contents* of an extension (its name, its operation names) are data that lives outside
    /repo (the installed tket_exts / hugr packages); they are passed in by the caller.
  * may_have_side_effect — a single `match op:` whose cases are
        ops.ExtOp() as x        : return x.op_def().qualified_name() in EXTENSION_OPS_WITH_SIDE_EFFECTS
        ops.Custom(op_name=a, extension=b): q = f"{b}.{a}" if b else a; return q in EXTENSION_OPS_WITH_SIDE_EFFECTS
        ops.A() | ops.B() | ... : return True / False
        _                       : return True / False
Everything else raises TranslatorError."""
import ast

import tr_common
from vlib import TranslatorError

LIST = "EXTENSION_OPS_WITH_SIDE_EFFECTS"
CUSTOM_Q = '(if String.eqb e "" then n else e ++ "." ++ n)'


def _ext_bindings(mod):
    """module-level  NAME = tket_exts.f()  ->  {NAME: f}"""
    out = {}
    for n in mod.body:
        if isinstance(n, ast.Assign) and len(n.targets) == 1 and isinstance(n.targets[0], ast.Name):
            v = n.value
            if (isinstance(v, ast.Call) and not v.args and isinstance(v.func, ast.Attribute)
                    and isinstance(v.func.value, ast.Name) and v.func.value.id == "tket_exts"):
                out[n.targets[0].id] = v.func.attr
    return out


def _is_qualified_name_call(e):
    return (isinstance(e, ast.Call) and not e.args and isinstance(e.func, ast.Attribute)
            and e.func.attr == "qualified_name")


def effect_list(mod, ext_ops):
    """ext_ops: {"<tket_exts function name>" | "PRELUDE": (extension name, [op names])}"""
    binds = _ext_bindings(mod)
    val = tr_common.find_assign(mod, LIST)
    if not isinstance(val, ast.List):
        raise TranslatorError(f"{LIST} is not a list display")

    def ext_of(name_node):
        if not isinstance(name_node, ast.Name):
            raise TranslatorError(f"{LIST}: extension is not a plain name: {ast.unparse(name_node)}")
        key = "PRELUDE" if name_node.id == "PRELUDE" else binds.get(name_node.id)
        if key is None or key not in ext_ops:
            raise TranslatorError(f"{LIST}: unknown extension object {name_node.id}")
        return ext_ops[key]

    names, shapes = [], []
    for el in val.elts:
        if isinstance(el, ast.Constant) and isinstance(el.value, str):
            names.append(el.value)
            shapes.append("literal")
        elif isinstance(el, ast.Starred) and isinstance(el.value, ast.GeneratorExp):
            g = el.value
            if not (len(g.generators) == 1 and not g.generators[0].ifs and _is_qualified_name_call(g.elt)
                    and isinstance(g.generators[0].target, ast.Name) and isinstance(g.elt.func.value, ast.Name)
                    and g.elt.func.value.id == g.generators[0].target.id):
                raise TranslatorError(f"{LIST}: unknown generator shape {ast.unparse(el)}")
            it = g.generators[0].iter
            if not (isinstance(it, ast.Call) and not it.args and isinstance(it.func, ast.Attribute) and it.func.attr == "values"
                    and isinstance(it.func.value, ast.Attribute) and it.func.value.attr == "operations"):
                raise TranslatorError(f"{LIST}: unknown iterable {ast.unparse(it)}")
            ext, ops_ = ext_of(it.func.value.value)
            names += [f"{ext}.{o}" for o in ops_]
            shapes.append(f"all:{ext}")
        elif _is_qualified_name_call(el):
            inner = el.func.value
            if not (isinstance(inner, ast.Call) and isinstance(inner.func, ast.Attribute) and inner.func.attr == "get_op"
                    and len(inner.args) == 1 and isinstance(inner.args[0], ast.Constant) and isinstance(inner.args[0].value, str)):
                raise TranslatorError(f"{LIST}: unknown element {ast.unparse(el)}")
            ext, ops_ = ext_of(inner.func.value)
            o = inner.args[0].value
            if o not in ops_:
                raise TranslatorError(f"{LIST}: extension {ext} has no operation {o} (core.py would raise at import)")
            names.append(f"{ext}.{o}")
            shapes.append("get_op")
        else:
            raise TranslatorError(f"{LIST}: unknown element {ast.unparse(el)}")
    return names, shapes


def _ops_class(p):
    """MatchClass ops.X() without sub-patterns -> X"""
    if (isinstance(p, ast.MatchClass) and isinstance(p.cls, ast.Attribute) and isinstance(p.cls.value, ast.Name)
            and p.cls.value.id == "ops"):
        return p.cls.attr
    return None


def _const_return(body):
    body = [s for s in body if not (isinstance(s, ast.Expr) and isinstance(s.value, ast.Constant))]
    if len(body) == 1 and isinstance(body[0], ast.Return) and isinstance(body[0].value, ast.Constant) \
            and isinstance(body[0].value.value, bool):
        return body[0].value.value
    return None


def _is_membership(e, var):
    return (isinstance(e, ast.Compare) and len(e.ops) == 1 and isinstance(e.ops[0], ast.In)
            and isinstance(e.comparators[0], ast.Name) and e.comparators[0].id == LIST and var(e.left))


def predicate(mod):
    """-> dict(ext=..., custom=..., classes={X: bool}, default=bool); ext/custom in {'member', True, False}"""
    fn = tr_common.find_func(mod, "may_have_side_effect")
    body = tr_common.strip_doc(fn.body)
    if not (len(body) == 1 and isinstance(body[0], ast.Match) and isinstance(body[0].subject, ast.Name)
            and body[0].subject.id == fn.args.args[0].arg):
        raise TranslatorError("may_have_side_effect: body is not a single `match op:`")
    res = {"ext": None, "custom": None, "classes": {}, "default": None}
    for case in body[0].cases:
        if case.guard is not None:
            raise TranslatorError("may_have_side_effect: guarded case")
        pat = case.pattern
        if res["default"] is not None:
            raise TranslatorError("may_have_side_effect: case after the wildcard")
        # ops.ExtOp() as x
        if isinstance(pat, ast.MatchAs) and pat.pattern is not None and _ops_class(pat.pattern) == "ExtOp" \
                and not pat.pattern.patterns and not pat.pattern.kwd_patterns:
            x = pat.name
            r = _const_return(case.body)
            if r is None:
                st = case.body
                ok = (len(st) == 1 and isinstance(st[0], ast.Return) and _is_membership(
                    st[0].value, lambda l: _is_qualified_name_call(l) and isinstance(l.func.value, ast.Call)
                    and not l.func.value.args and isinstance(l.func.value.func, ast.Attribute)
                    and l.func.value.func.attr == "op_def" and isinstance(l.func.value.func.value, ast.Name)
                    and l.func.value.func.value.id == x))
                if not ok:
                    raise TranslatorError("may_have_side_effect: unknown ExtOp case body")
                r = "member"
            if res["ext"] is None:
                res["ext"] = r
            continue
        if _ops_class(pat) == "ExtOp" and not pat.patterns and not pat.kwd_patterns and _const_return(case.body) is not None:
            if res["ext"] is None:
                res["ext"] = _const_return(case.body)
            continue
        # ops.Custom(op_name=a, extension=b)
        if _ops_class(pat) == "Custom":
            r = _const_return(case.body)
            if r is None:
                kw = dict(zip(pat.kwd_attrs, pat.kwd_patterns))
                if pat.patterns or set(kw) != {"op_name", "extension"} or not all(
                        isinstance(v, ast.MatchAs) and v.pattern is None and v.name for v in kw.values()):
                    raise TranslatorError("may_have_side_effect: unknown Custom pattern")
                a, b = kw["op_name"].name, kw["extension"].name
                st = case.body
                want = f"f'{{{b}}}.{{{a}}}' if {b} else {a}"
                ok = (len(st) == 2 and isinstance(st[0], ast.Assign) and len(st[0].targets) == 1
                      and isinstance(st[0].targets[0], ast.Name)
                      and ast.unparse(st[0].value) == want
                      and isinstance(st[1], ast.Return)
                      and _is_membership(st[1].value, lambda l: isinstance(l, ast.Name) and l.id == st[0].targets[0].id))
                if not ok:
                    raise TranslatorError("may_have_side_effect: unknown Custom case body: " + "; ".join(ast.unparse(s) for s in st))
                r = "member"
            if res["custom"] is None:
                res["custom"] = r
            continue
        # ops.A() | ops.B()   or a single ops.A()
        alts = pat.patterns if isinstance(pat, ast.MatchOr) else [pat]
        names = [_ops_class(a) for a in alts]
        if all(n is not None for n in names) and all(not a.patterns and not a.kwd_patterns for a in alts):
            r = _const_return(case.body)
            if r is None:
                raise TranslatorError("may_have_side_effect: class case does not return a constant")
            for n in names:
                if n == "ExtOp" and res["ext"] is None:
                    res["ext"] = r
                elif n == "Custom" and res["custom"] is None:
                    res["custom"] = r
                else:
                    res["classes"].setdefault(n, r)
            continue
        if isinstance(pat, ast.MatchAs) and pat.pattern is None:
            r = _const_return(case.body)
            if r is None:
                raise TranslatorError("may_have_side_effect: wildcard case does not return a constant")
            res["default"] = r
            continue
        raise TranslatorError(f"may_have_side_effect: unknown case pattern {ast.unparse(pat)}")
    if res["default"] is None:
        raise TranslatorError("may_have_side_effect: no wildcard case (falls through to None)")
    return res


def coq_str(s):
    return '"' + s.replace('"', '""') + '"'


def coq_bool(b):
    return "true" if b else "false"


def coq_op(name):
    """log op name -> Coq term of type op"""
    if name.startswith("Ext:"):
        return f"OExt {coq_str(name[4:])}"
    if name.startswith("Custom:"):
        q = name[7:]
        ext, _, n = q.rpartition(".")
        return f"OCustom {coq_str(ext)} {coq_str(n)}"
    if name == "Call":
        return "OCall"
    if name == "CallIndirect":
        return "OCallIndirect"
    return f"OOther {coq_str(name)}"


def translate(core_path, ext_ops, rows):
    """rows: [(std function / probe name, op log name, qubits in, qubits out)]"""
    mod = tr_common.parse_file(core_path)
    names, shapes = effect_list(mod, ext_ops)
    pr = predicate(mod)

    def branch(v, q):
        return f"mem_str {q} effect_names" if v == "member" else coq_bool(v if v is not None else pr["default"])
    cls = pr["classes"]
    other_true = sorted(k for k, v in cls.items() if v and k not in ("Call", "CallIndirect"))
    other_false = sorted(k for k, v in cls.items() if not v and k not in ("Call", "CallIndirect"))
    lines = [
        "(** GENERATED by props/C05/tr_effects.py from guppylang_internals/compiler/core.py — do not edit. *)",
        "From Coq Require Import List Bool String.",
        "From V.C05 Require Import ModelEffects.",
        "Import ListNotations.",
        "Open Scope string_scope.",
        "",
        f"(* element shapes of the list display: {', '.join(shapes)} *)",
        "Definition effect_names : list string := [" + "; ".join(coq_str(n) for n in names) + "].",
        "",
        "Definition other_true : list string := [" + "; ".join(coq_str(n) for n in other_true) + "].",
        "Definition other_false : list string := [" + "; ".join(coq_str(n) for n in other_false) + "].",
        "",
        "Definition may_have_side_effect (o : op) : bool :=",
        "  match o with",
        f"  | OExt q => {branch(pr['ext'], 'q')}",
        "  | OCustom e n => " + branch(pr["custom"], CUSTOM_Q),
        f"  | OCall => {coq_bool(cls.get('Call', pr['default']))}",
        f"  | OCallIndirect => {coq_bool(cls.get('CallIndirect', pr['default']))}",
        f"  | OOther c => if mem_str c other_true then true else if mem_str c other_false then false else {coq_bool(pr['default'])}",
        "  end.",
        "",
        "(* operations emitted by the standard library, read back from real compilations *)",
        "Definition std_rows : list row := [",
        ";\n".join(f"  mkRow {coq_str(fn)} ({coq_op(op)}) {max(qi, 0)} {max(qo, 0)}" for fn, op, qi, qo in rows),
        "].",
        "",
    ]
    return "\n".join(lines), {"effect_names": names, "predicate": {k: (v if not isinstance(v, dict) else dict(v)) for k, v in pr.items()}}
