"""C05: contents of the HUGR extensions core.py refers to (data that lives outside /repo).
stdout: JSON {"<tket_exts function name>" | "PRELUDE": [extension name, [operation names]]}"""
import json
import sys

import repo_shim  # noqa: F401
import tket_exts
import guppylang_internals.compiler.core as core

out = {}
for name in dir(tket_exts):
    f = getattr(tket_exts, name)
    if callable(f) and not name.startswith("_"):
        try:
            e = f()
            out[name] = [e.name, sorted(e.operations.keys())]
        except Exception:
            pass
out["PRELUDE"] = [core.PRELUDE.name, sorted(core.PRELUDE.operations.keys())]
# what the running interpreter computed for the list (used only to validate the translator)
out["__runtime_list__"] = list(core.EXTENSION_OPS_WITH_SIDE_EFFECTS)
json.dump(out, sys.stdout)
