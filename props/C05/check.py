"""C05 — side effects happen once each, in Python's evaluation order (decided on the compiler side).

1. T  (part 3): regenerate coq/C05/GenEffects.v from compiler/core.py (the list
   EXTENSION_OPS_WITH_SIDE_EFFECTS and the predicate may_have_side_effect) and from the table of
   operations the std library emits (read back from real compilations of one probe program per
   std function); validate the translator against the running predicate on every op ever logged.
2. re-check coq/C05/Props.v (order_edges_total over the model of track_hugr_side_effects,
   effect_classification over the generated table, the trace theorems built on coq/C03).
3. X  (part 2): compile generated programs with the repo-under-test's compiler, log every
   Hugr.add_node, run the Coq model on the same insertion sequence (vm_compute) and compare the
   order edges with the ones read back from the real HUGR; evaluate the theorem's hypotheses
   (wf / disciplined / context-local) on every real log; compare the real edges of every region
   with the chain the SPECIFICATION asks for; for straight-line programs compare the chain of the
   block with Python's evaluation order computed from the source text.
4. X  (part 1): C03's CFG tie is reused for call traces: the real CFGBuilder's CFG, run by CfgSem
   in Coq, must produce the same sequence of call events as PySem on the source for programs of
   the order_safe fragment; the known refutations are replayed."""
import json
import sys
from collections import Counter

import vlib
from vlib import proof_coverage

LEVEL = "proof"
N_QUICK = {"mixed": 30, "straight": 16, "effects": 24}
N_THOROUGH = {"mixed": 200, "straight": 80, "effects": 160}
TRACE_QUICK, TRACE_THOROUGH = 40, 200
MAX_REPORTS = 3
C03 = vlib.VERIF / "props" / "C03"

KINDS = {"Module": "KModule", "FuncDefn": "KFuncDefn", "Conditional": "KCond", "CFG": "KCond",
         "Input": "KInput", "Output": "KOutput",
         "DFG": "KDf", "DataflowBlock": "KDf", "Case": "KDf", "TailLoop": "KDf"}

PROBE_HDR = '''from guppylang import guppy
from guppylang.std.builtins import result, panic, exit, array, owned, nat
from guppylang.std.quantum import qubit, measure, h, discard, project_z, reset, maybe_qubit
from guppylang.std.option import Option
from guppylang.std.debug import state_result

'''
PROBES = {
    "result(int)": "@guppy\ndef main(a: int) -> None:\n    result('a', a)\n",
    "result(bool)": "@guppy\ndef main(a: bool) -> None:\n    result('a', a)\n",
    "result(float)": "@guppy\ndef main(a: float) -> None:\n    result('a', a)\n",
    "result(nat)": "@guppy\ndef main(a: nat) -> None:\n    result('a', a)\n",
    "result(array[int])": "@guppy\ndef main(a: array[int, 3]) -> None:\n    result('a', a)\n",
    "result(array[bool])": "@guppy\ndef main(a: array[bool, 3]) -> None:\n    result('a', a)\n",
    "result(array[float])": "@guppy\ndef main(a: array[float, 3]) -> None:\n    result('a', a)\n",
    "panic": "@guppy\ndef main(a: int) -> None:\n    panic('x')\n",
    "exit": "@guppy\ndef main(a: int) -> None:\n    exit('x', 3)\n",
    "state_result": "@guppy\ndef main(q: qubit) -> None:\n    state_result('s', q)\n",
    "qubit()": "@guppy\ndef main() -> qubit:\n    return qubit()\n",
    "discard": "@guppy\ndef main(q: qubit @owned) -> None:\n    discard(q)\n",
    "measure": "@guppy\ndef main(q: qubit @owned) -> bool:\n    return measure(q)\n",
    "maybe_qubit": "@guppy\ndef main() -> Option[qubit]:\n    return maybe_qubit()\n",
    "project_z": "@guppy\ndef main(q: qubit) -> bool:\n    return project_z(q)\n",
    "reset": "@guppy\ndef main(q: qubit) -> None:\n    reset(q)\n",
    "call": "@guppy\ndef g(a: int) -> int:\n    return a\n\n\n@guppy\ndef main(a: int) -> int:\n    return g(a)\n",
    "call-indirect": "@guppy\ndef g(a: int) -> int:\n    return a\n\n\n@guppy\ndef main(a: int) -> int:\n    f = g\n    return f(a)\n",
}
REPLAY_HUGR = ("cd /verif && echo '{\"programs\": [{\"name\": \"p\", \"src\": <program text as JSON string>}]}' | "
               "PYTHONHASHSEED=0 VERIF_REPO=${VERIF_REPO:-/repo} "
               "PYTHONPATH=/verif/tools:$VERIF_REPO/guppylang/src:$VERIF_REPO/guppylang-internals/src "
               "/venv/bin/python props/C05/impl_hugr.py   # prints the add_node log and the order edges "
               "(final.order) of the real HUGR; follow the edges from each region's Input node")
REPLAY_CFG = ("cd /verif && echo '[{\"src\": <program text as JSON string>, \"returns_none\": true}]' | "
              "VERIF_REPO=${VERIF_REPO:-/repo} PYTHONPATH=/verif/tools:$VERIF_REPO/guppylang/src:$VERIF_REPO/guppylang-internals/src "
              "/venv/bin/python props/C03/impl_cfg.py   # prints the real CFGBuilder's CFG; count / order the calls per path")


# ------------------------------------------------------------------------------ implementation side
def compile_programs(ctx, progs):
    out = []
    for i in range(0, len(progs), 150):
        out += json.loads(ctx.impl("impl_hugr.py", {"programs": progs[i:i + 150]}, timeout=3000))
    return out


def probe_rows(ctx):
    progs = [{"name": f"probe{i}", "src": PROBE_HDR + src} for i, src in enumerate(PROBES.values())]
    recs = compile_programs(ctx, progs)
    rows, bad = [], []
    for (fn, _), rec in zip(PROBES.items(), recs):
        if not rec["ok"]:
            bad.append((fn, rec["error"]))
            continue
        a, b = rec["contexts"][0]
        seen = set()
        for idx, op, par, cl, qi, qo in rec["log"][a:b]:
            if op.startswith(("Ext:", "Custom:")) or op in ("Call", "CallIndirect"):
                if (op, qi, qo) not in seen:
                    seen.add((op, qi, qo))
                    rows.append((fn, op, qi, qo))
    return rows, bad, recs


def generate(ctx):
    import tr_effects
    exts = json.loads(ctx.impl("impl_exts.py"))
    runtime_list = exts.pop("__runtime_list__")
    rows, bad, recs = probe_rows(ctx)
    if bad:
        raise vlib.TranslatorError(f"std probe programs no longer compile: {bad[:3]}")
    text, meta = tr_effects.translate(ctx.int_src("compiler/core.py"), {k: (v[0], v[1]) for k, v in exts.items()}, rows)
    ctx.gen("GenEffects.v", text)
    ctx.cov_gen = {"effect_names": meta["effect_names"], "runtime_list": runtime_list, "rows": rows,
                   "probe_recs": recs, "predicate": meta["predicate"]}
    return ctx.cov_gen


# ------------------------------------------------------------------------------ Coq side
def segs_of(rec):
    """insertion log + context extents -> segments; also checks that node indices are fresh and
    handed out in insertion order (an assumption of the model)"""
    log = rec["log"]
    for k, e in enumerate(log):
        if e[0] != k + 1:
            return None, f"node index {e[0]} at log position {k}: indices are not handed out in insertion order"
    segs, pos = [], 0
    for a, b in rec["contexts"]:
        if a > pos:
            segs.append(("SPlain", log[pos:a]))
        if b > a:
            segs.append(("SCtx", log[a:b]))
        pos = max(pos, b)
    if pos < len(log):
        segs.append(("SPlain", log[pos:]))
    return segs, None


def coq_segs(segs):
    def ins(e):
        return f"mkIns {e[2]} {KINDS.get(e[1], 'KOp')} {'true' if e[3] else 'false'}"
    return "[" + "; ".join(f"{k} [{'; '.join(ins(e) for e in l)}]" for k, l in segs) + "]"


COQ_HDR = ("From Coq Require Import List Bool Arith NArith String.\nFrom V.C05 Require Import ModelOrderEdges ModelRun ModelEffects GenEffects.\n"
           "Import ListNotations.\n"
           "(* results are printed as binary numbers: printing unary nat literals is slow *)\n"
           "Definition en (l : list (nat*nat)) := map (fun ab => (N.of_nat (fst ab), N.of_nat (snd ab))) l.\n"
           "Definition rT := (bool * (list (N*N) * list (N * (list (N*N) * list (N*N))) * (bool * bool * bool * bool * bool)))%type.\n"
           "Definition enc (r : option report) : rT := match r with\n"
           " | None => (false, (@nil (N*N), @nil (N * (list (N*N) * list (N*N))), (false, false, false, false, false)))\n"
           " | Some x => (true, (en (rp_edges x), map (fun r => (N.of_nat (fst r), (en (fst (snd r)), en (snd (snd r))))) (rp_regions x),\n"
           "                     (rp_wf x, rp_disc x, rp_local x, rp_plain x, rp_concl x))) end.\n")


def run_model(ctx, seg_list, tag, per=6):
    chunks = [seg_list[i:i + per] for i in range(0, len(seg_list), per)]
    files = {}
    for k, c in enumerate(chunks):
        files[f"{tag}{k}"] = COQ_HDR + "Definition cases : list rT := [\n" + ";\n".join(f"enc (run_report {coq_segs(s)})" for s in c) + "].\nEval vm_compute in cases.\n"
    # small files + a generous per-file timeout: on an oversubscribed machine a coqc that needs one CPU
    # minute can take a quarter of an hour of wall time
    outs = ctx.coq_eval_many(files, timeout=2400)
    res = []
    for k in range(len(chunks)):
        res += vlib.parse_coq_values(outs[f"{tag}{k}"])[0]
    assert len(res) == len(seg_list), (len(res), len(seg_list))
    return res


def validate_predicate(ctx, recs):
    """translator validation: generated may_have_side_effect == the running predicate on every
    distinct operation logged in this run"""
    import tr_effects
    seen = {}
    for rec in recs:
        if rec.get("ok"):
            for e in rec["log"]:
                seen.setdefault(e[1], set()).add(e[3])
    names = sorted(seen)
    body = (COQ_HDR + "Definition cases := [\n" + ";\n".join(f"may_have_side_effect ({tr_effects.coq_op(n)})" for n in names)
            + "].\nEval vm_compute in cases.\n")
    vals = vlib.parse_coq_values(ctx.coq_eval("pred", body))[0]
    bad = [(n, sorted(seen[n]), v) for n, v in zip(names, vals) if seen[n] != {1 if v else 0}]
    return names, bad


# ------------------------------------------------------------------------------ source-level order
def block_chain_labels(rec):
    """labels of the order-edge chain of main's entry block"""
    nodes = {int(k): v for k, v in rec["final"]["nodes"].items()}
    order = {}
    for a, b in rec["final"]["order"]:
        order.setdefault(a, []).append(b)
    fd = min(n for n, v in nodes.items() if v[0] == "FuncDefn")
    cfg = [c for c in nodes[fd][2] if nodes[c][0] == "CFG"]
    if len(cfg) != 1:
        return None
    blocks = [c for c in nodes[cfg[0]][2] if nodes[c][0] == "DataflowBlock"]
    if len(blocks) != 1:
        return None

    def has_panic(n):
        return nodes[n][0] == "Ext:prelude.panic" or any(has_panic(c) for c in nodes[n][2])

    def label(n):
        op, _, _, extra = nodes[n]
        if op == "Call":
            return f"call:{extra}"
        if op.startswith("Ext:tket.result."):
            return f"result:{extra}"
        if op in ("Conditional", "CFG", "DFG", "TailLoop"):
            return "bounds" if op == "Conditional" and has_panic(n) else op
        return op.split(".")[-1]
    cur, chain, steps = nodes[blocks[0]][2][0], [], 0
    if cur not in order:
        return []                     # no order edge leaves Input: a block without side effects
    while cur in order and steps < 10000:
        nxt = order[cur]
        if len(nxt) != 1:
            return chain + [f"FORK{nxt}"]
        cur = nxt[0]
        steps += 1
        if nodes[cur][0] == "Output":
            return chain
        lab = label(cur)
        # operators implemented as Guppy functions (float // and %, int ** and /, ...) show up as calls of
        # dunder methods after both operands; the source-order oracle has no types, so they are not compared
        if not (lab.startswith("call:__") and lab.endswith("__")):
            chain.append(lab)
    return chain + ["NO-OUTPUT"]


# ------------------------------------------------------------------------------ part 1: traces
def trace_part(ctx, cov):
    sys.path.insert(0, str(C03))
    import pyast
    import tie
    fixed = []
    for w in json.loads((ctx.dir / "witnesses.json").read_text()):
        fixed.append({"body": pyast.parse_program(w["src"]), "src": w["src"], "returns_none": True,
                      "profile": "witness", "name": w["name"]})
    n = TRACE_QUICK if ctx.quick else TRACE_THOROUGH
    gen, _ = tie.make_programs(ctx.seed, "C05/" + ctx.tier, n, "safe")
    gen2, _ = tie.make_programs(ctx.seed, "C05/" + ctx.tier, n // 2, "frag")
    progs = fixed + gen + gen2
    impl = []
    for i in range(0, len(progs), 2000):
        impl += json.loads(ctx.impl(C03 / "impl_cfg.py", [{"src": p["src"], "returns_none": p["returns_none"]} for p in progs[i:i + 2000]]))
    sem = tie.run_sem(ctx, progs, impl, "tr")
    stat = Counter()
    reports = 0
    samples = []
    for i, rs in sem.items():
        p = progs[i]
        diff = None
        for st, (py, cf) in zip(tie.STORES, rs):
            if py[0] != 0:
                stat["python-raises-or-timeout"] += 1
                continue
            dpy = tie.decode_run(py)
            dcf = tie.decode_run(cf) if cf[0] == 0 else {"calls": None, "outcome": tie.decode_run(cf)}
            if dpy["calls"] == dcf["calls"]:
                stat["same-call-trace"] += 1
                if dpy["calls"]:
                    stat["same-call-trace-with-calls"] += 1
                if len(samples) < 3 and dpy["calls"] and p["profile"] != "witness":
                    samples.append({"program": p["src"], "arguments": st, "calls": dpy["calls"]})
            else:
                stat["different-call-trace"] += 1
                diff = diff or {"arguments_v0_v3": st, "python_calls": dpy["calls"], "cfg_calls": dcf["calls"]}
        if diff is None:
            if p["profile"] == "witness":
                ctx.notes.append(f"witness {p['name']}: the real CFG now produces Python's call trace (repaired?)")
            continue
        if p["profile"] == "witness":
            ctx.report("finding:" + p["src"], "counterexample", "trace_equal refuted: " + p["name"],
                       {"program": p["src"], **diff, "real_cfg": impl[i]["dump"], "replay": REPLAY_CFG})
        elif reports < MAX_REPORTS:
            reports += 1
            ctx.report("trace:" + p["src"], "counterexample",
                       "the real CFG of a program of the order_safe fragment does not produce Python's sequence of calls",
                       {"program": p["src"], **diff, "real_cfg": impl[i]["dump"], "replay": REPLAY_CFG})
    cov["trace"] = {"programs": len(progs), "built_by_real_builder": sum(1 for im in impl if im["ok"]),
                    "runs": dict(stat), "samples": samples}
    return stat


# ------------------------------------------------------------------------------ main
def load_corpus(ctx):
    out = []
    for f in sorted((ctx.dir / "corpus").glob("*.json")):
        for c in json.loads(f.read_text()):
            out.append({"name": f"c{len(out)}", "src": c["src"], "profile": c.get("profile", "mixed"), "origin": f.name})
    return out


def run(ctx):
    import gen_prog
    cov_extra = {}
    gen = generate(ctx)
    info = ctx.coq_props()
    model_ok = all((vlib.COQ / "C05" / f"{m}.vo").exists() for m in ("ModelOrderEdges", "ModelRun", "GenEffects"))

    # ---- programs
    progs = load_corpus(ctx)
    n_fixed = len(progs)
    for prof, n in (N_QUICK if ctx.quick else N_THOROUGH).items():
        r = vlib.rng(ctx.seed, f"C05/{ctx.tier}/{prof}")
        for k in range(n):
            progs.append({"name": f"{prof}{k}", "src": gen_prog.generate(r, prof), "profile": prof})
    # constructs the clean tree rejects but a feature patch might accept: if accepted, Python's order applies
    for k, sp in enumerate(gen_prog.syntax_programs()):
        progs.append({"name": f"syntax{k}", "src": sp["src"], "profile": "syntax", "family": sp["family"], "body": sp["body"]})
    recs = compile_programs(ctx, progs)
    stat = Counter()
    syntax_stat = {}
    reports = Counter()
    suppressed = Counter()

    def report(kind_key, key, kind, name, detail, found=True):
        if ctx.is_known(key):                       # known findings never use up the report budget
            ctx.report(key, kind, name, detail, found)
        elif reports[kind_key] < MAX_REPORTS:
            reports[kind_key] += 1
            ctx.report(key, kind, name, detail, found)
        else:
            suppressed[kind_key] += 1

    # ---- part 3: translator validation + failing-input search for the classification
    if gen["effect_names"] != gen["runtime_list"]:
        report("tr", "translator:effect-list", "correspondence", "GenEffects.effect_names vs core.EXTENSION_OPS_WITH_SIDE_EFFECTS at run time",
               {"generated": gen["effect_names"], "runtime": gen["runtime_list"]}, False)
    names, bad = ([], [])
    if model_ok:
        try:
            names, bad = validate_predicate(ctx, recs + gen["probe_recs"])
        except RuntimeError as e:
            ctx.notes.append(f"predicate validation failed: {e}")
    for n, real, model in bad[:MAX_REPORTS]:
        report("tr", f"translator:predicate:{n}", "correspondence", "GenEffects.may_have_side_effect vs core.may_have_side_effect",
               {"op": n, "real_flags": real, "generated": model}, False)
    # rows the property wants ordered but the running predicate leaves unordered (independent of Coq)
    import re
    for (fn, src), rec in zip(PROBES.items(), gen["probe_recs"]):
        a, b = rec["contexts"][0]
        for idx, op, par, cl, qi, qo in rec["log"][a:b]:
            q = op.split(":", 1)[-1]
            want = (op in ("Call", "CallIndirect") or q.startswith("tket.result.") or q in ("tket.debug.StateResult", "prelude.panic", "prelude.exit")
                    or (re.match(r"tket\.(quantum|qsystem)\.", q) is not None and qi != qo))
            if want and not cl:
                edges_into = [e for e in rec["final"]["order"] if e[1] == idx]
                report("cls", f"unclassified:{fn}:{q}", "counterexample", "effect_classification: an operation the property lists is not classified side-effecting",
                       {"std_function": fn, "program": PROBE_HDR + src, "operation": q, "qubits_in": qi, "qubits_out": qo,
                        "may_have_side_effect": False, "order_edges_into_the_node": edges_into,
                        "expected": "the node is part of the order-edge chain of its block", "replay": REPLAY_HUGR})

    # ---- part 2: model vs real order edges, spec vs real order edges, hypotheses on real logs
    work = []
    for p, rec in zip(progs, recs):
        if p["profile"] == "syntax":
            fam = syntax_stat.setdefault(p["family"], {"accepted": 0, "rejected": 0})
            fam["accepted" if rec["ok"] else "rejected"] += 1
            if not rec["ok"]:
                continue
        if not rec["ok"]:
            stat["rejected:" + rec["error"].split(":")[0]] += 1
            if p["profile"] in ("straight", "effects") or p.get("origin"):
                stat["rejected-detail:" + rec["error"][:80]] += 1
            continue
        segs, err = segs_of(rec)
        if err:
            report("idx", "node-index:" + p["src"], "correspondence", "model assumption: fresh node indices in insertion order", {"program": p["src"], "error": err}, False)
            continue
        work.append((p, rec, segs))
    results = []
    if model_ok and work:
        try:
            results = run_model(ctx, [w[2] for w in work], "m")
        except RuntimeError as e:
            ctx.notes.append(f"model evaluation failed: {str(e)[-800:]}")
            report("model", "model-eval", "correspondence", "ModelRun.run_report could not be evaluated", {"error": str(e)[-1500:]}, False)
    n_regions = n_eff_regions = 0
    n_effects_compared = [0]
    chain_lengths = Counter()
    samples = []
    for (p, rec, segs), res in zip(work, results):
        ok, (m_edges, regions, (wf, disc, local, plain, concl)) = res
        real = sorted(tuple(e) for e in rec["final"]["order"])
        nodes = {int(k): v for k, v in rec["final"]["nodes"].items()}
        key = p["src"]
        if not ok:
            stat["model-aborts"] += 1
            report("abort", "model-abort:" + key, "correspondence", "the model hits an assertion of track_hugr_side_effects but the real compilation succeeded",
                   {"program": key, "replay": REPLAY_HUGR}, False)
            continue
        model = sorted(tuple(e) for e in m_edges)
        # specification vs the real HUGR, region by region (the failing-input search)
        spec_bad = None
        for reg, (found, expected) in regions:
            n_regions += 1
            real_reg = sorted(e for e in real if nodes[e[1]][1] == reg)
            if expected:
                n_eff_regions += 1
                chain_lengths[min(len(expected) - 1, 8)] += 1
            if real_reg != sorted(tuple(e) for e in expected) and spec_bad is None:
                spec_bad = {"region": reg, "region_op": nodes[reg][0],
                            "real_order_edges": real_reg, "expected_chain_edges": [list(e) for e in expected],
                            "children": [[c, nodes[c][0]] for c in nodes[reg][2]]}
        if spec_bad is not None:
            stat["SPEC-DIFFERS"] += 1
            report("spec", "order-edges:" + key, "counterexample",
                   "order_edges_total: the order edges of a region are not the chain Input -> effects in insertion order -> Output",
                   {"program": key, **spec_bad, "replay": REPLAY_HUGR})
        elif model != real:
            stat["MODEL-DIFFERS"] += 1
            report("tie", "tie:" + key, "correspondence", "ModelOrderEdges.track vs track_hugr_side_effects",
                   {"program": key, "only_real": [e for e in real if e not in model][:10], "only_model": [e for e in model if e not in real][:10],
                    "replay": REPLAY_HUGR}, False)
        else:
            stat["agree"] += 1
        if not (wf and disc and local):
            stat["HYPOTHESIS-FAILS"] += 1
            report("hyp", "hypothesis:" + key, "correspondence", "a hypothesis of order_edges_total does not hold on a real insertion log",
                   {"program": key, "wf": wf, "disciplined": disc, "context_local": local, "replay": REPLAY_HUGR}, False)
        if not plain:
            stat["EFFECT-OUTSIDE-CONTEXT"] += 1
            report("plain", "untracked:" + key, "counterexample", "a classified operation was added while Hugr.add_node was not patched (no order edges)",
                   {"program": key, "replay": REPLAY_HUGR})
        if not concl:
            stat["THEOREM-INSTANCE-FAILS"] += 1
            report("concl", "theorem-instance:" + key, "proof-broken", "order_edges_total evaluated on the model run of a real log is false",
                   {"program": key}, False)
        # accepted program with syntax the clean tree rejects: helper calls must be in Python's order
        if p["profile"] == "syntax":
            helpers = {"call:" + h for h in gen_prog.SX_HELPERS}
            skip = gen_prog.nested_body_calls(p["body"])
            want = [l for l in gen_prog.python_order_by_execution(p["body"]) if l not in skip]
            chain = block_chain_labels(rec)
            if chain is None:
                stat["syntax-accepted-not-single-block"] += 1
                ctx.notes.append(f"syntax family {p['family']}: accepted but main is not a single block; order not compared: {p['body']!r}")
            else:
                got = [l for l in chain if l in helpers and l not in skip]
                if got == want:
                    stat["syntax-accepted-order-agrees"] += 1
                else:
                    stat["SYNTAX-ORDER-DIFFERS"] += 1
                    report("syntax", "effects:" + key, "counterexample",
                           "a newly accepted construct (" + p["family"] + ") does not evaluate its side effects in Python's order",
                           {"program": key, "main_body": p["body"], "family": p["family"],
                            "python_order_by_execution_under_cpython": want, "hugr_chain": got, "full_hugr_chain": chain,
                            "replay": REPLAY_HUGR})
        # source order for straight-line programs
        if p["profile"] in ("straight", "effects"):
            try:
                want = gen_prog.expected_effects(p["src"])
            except gen_prog.Unsupported as e:
                stat["straight-unsupported"] += 1
                want = None
            got = block_chain_labels(rec)
            if want is not None and got is not None:
                if want == got:
                    stat["source-order-agrees"] += 1
                    n_effects_compared[0] += len(want)
                    if len(samples) < 3 and len(want) > 3:
                        samples.append({"program": p["src"].split("def main")[1], "chain": got})
                else:
                    stat["SOURCE-ORDER-DIFFERS"] += 1
                    report("src", "effects:" + key, "counterexample",
                           "the order-edge chain of the block does not list the side effects in Python's evaluation order, each once",
                           {"program": key, "python_evaluation_order": want, "hugr_chain": got,
                            "first_difference": next(({"position": i, "python": a, "hugr": b} for i, (a, b) in enumerate(zip(want, got)) if a != b),
                                                     {"position": min(len(want), len(got)), "python": "<end>" if len(want) <= len(got) else want[len(got)],
                                                      "hugr": "<end>" if len(got) <= len(want) else got[len(want)]}),
                            "replay": REPLAY_HUGR})
            elif got is None:
                stat["straight-not-single-block"] += 1

    # ---- part 1
    tstat = Counter()
    if (vlib.COQ / "C03" / "CfgSem.vo").exists():
        try:
            tstat = trace_part(ctx, cov_extra)
        except RuntimeError as e:
            ctx.notes.append(f"trace part failed: {str(e)[-600:]}")
            report("trace", "trace-eval", "correspondence", "trace comparison could not be evaluated", {"error": str(e)[-1500:]}, False)

    if not info["ok"]:
        if not ctx.violations:
            ctx.report("proof-broken:" + str(info["failed"]), "proof-broken", str(info["failed"]),
                       {"coq_error": vlib.CoqResult(False, info["log"]).error_excerpt(),
                        "searched": {"programs": len(progs), "probes": len(PROBES)}}, found_input=False)
        else:
            ctx.notes.append("Props.v no longer checks: " + vlib.CoqResult(False, info["log"]).error_excerpt()[-600:])

    nontrivial = sum(1 for (p, rec, segs), res in zip(work, results) if res[0] and sum(1 for _, (f, e) in res[1][1] if e) >= 2)
    cov = proof_coverage(
        info, "make -f Makefile.C05 C05/Props.vo && coqc C05/Props.v (Print Assumptions)",
        ["Coq 8.16.1 kernel incl. vm_compute (finite table check, computed witnesses)",
         "ModelOrderEdges.v: hand-written model of track_hugr_side_effects/handle_side_effect (tie X: edge-for-edge equality with the real HUGR on every compiled program)",
         "GenEffects.v: regenerated from core.py by props/C05/tr_effects.py; extension contents (tket_exts, hugr prelude) are data outside /repo; std op table read back from real compilations",
         "ModelEffects.must_be_ordered: the property's list of side effects (calls, result reports, panic/exit, operations changing the number of live qubits)",
         "coq/C03 (PySem, CfgSem, Builder and its theorems) for the trace part; gap: ExprCompiler/StmtCompiler emit nodes in the evaluation order of the simple statement (checked by the source-order comparison on straight-line programs, not proved)",
         "harness: props/C05/impl_hugr.py (add_node logger below the tracking patch), tools/repo_shim.py"],
        evaluations=len(work) + tstat.get("same-call-trace", 0) + tstat.get("different-call-trace", 0),
        distinct_nontrivial=nontrivial,
        rule="one evaluation = one program compiled by the real compiler and replayed through the Coq model (or one CFG run compared on call traces); non-trivial = at least two regions with a non-empty order-edge chain",
        traces_validated_against_impl=stat["agree"], order_edges=dict(stat),
        syntax_families_accepted_vs_rejected=syntax_stat, violations_beyond_report_cap=dict(suppressed), source_order_effects_compared=n_effects_compared[0], regions_checked=n_regions, regions_with_effects=n_eff_regions, chain_length_histogram={str(k): v for k, v in sorted(chain_lengths.items())},
        classification={"effect_names": gen["effect_names"], "std_rows": len(gen["rows"]), "ops_validated": len(names),
                        "predicate_shape": gen["predicate"]},
        samples=samples, fixed_programs=n_fixed, notes=ctx.notes, **cov_extra)
    return ctx.finish(LEVEL, cov, [
        "node indices are handed out in insertion order and never reused (checked on every log)",
        "each region receives side effects within one tracking context (checked on every log: context_local)",
        "building discipline: the side effects added below one child of a region are contiguous (checked on every log: disciplined)",
        "operations that hand every qubit back (gates, reset, non-destructive measurement) are ordered by the qubit wire, not by order edges",
        "calls are uninterpreted effectful functions (coq/C03/PySem.v); panics are not distinguished from other calls in the trace semantics"])
