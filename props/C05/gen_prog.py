"""C05 program generator: Guppy programs whose expressions interleave result reports, calls to
user functions, qubit allocation / measurement, panics, array and tuple construction, subscripts
with operators, conditional expressions, short-circuit operators, comparisons and loops.

Profiles
  mixed     anything above (control flow, lifted sub-expressions): exercises order edges in
            nested regions (blocks, conditionals, loops of comprehensions)
  straight  a single basic block of lift-free statements: the expected sequence of side effects
            (Python's evaluation order) is computed by `expected_effects` from the Python AST
            alone and compared with the HUGR's order-edge chain of the block."""
import ast

HEADER = '''from guppylang import guppy
from guppylang.std.builtins import result, panic, exit, array, owned, nat
from guppylang.std.quantum import qubit, measure, h, x, discard, project_z, reset, maybe_qubit
from guppylang.std.option import Option


@guppy
def g1(v: int) -> int:
    result("g1", v)
    return v + 1


@guppy
def g2(v: int) -> int:
    return v * 2


@guppy
def g3(v: int, w: int) -> int:
    result("g3", v)
    return v - w


@guppy
def gb(v: int) -> bool:
    result("gb", v)
    return v > 0

'''


class Gen:
    def __init__(self, rnd, profile):
        self.r, self.profile = rnd, profile
        self.tag = 0
        self.ints = ["a", "b"]
        self.arrs = []
        self.nq = 0
        self.lift = profile == "mixed"

    def fresh_tag(self):
        self.tag += 1
        return f"t{self.tag}"

    # ---- expressions -------------------------------------------------------------
    def int_expr(self, d):
        r = self.r
        if d <= 0:
            return r.choice(self.ints + [str(r.randint(0, 9))])
        k = r.random()
        if k < 0.22:
            return f"g1({self.int_expr(d - 1)})"
        if k < 0.32:
            return f"g2({self.int_expr(d - 1)})"
        if k < 0.42:
            return f"g3({self.int_expr(d - 1)}, {self.int_expr(d - 1)})"
        if k < 0.62:
            return f"({self.int_expr(d - 1)} {r.choice(['+', '-', '*'])} {self.int_expr(d - 1)})"
        if k < 0.67:
            return f"(-{self.int_expr(d - 1)})"
        if k < 0.75 and self.arrs:
            return f"{r.choice(self.arrs)}[{self.int_expr(d - 1)} % 3]"
        if k < 0.80:
            return f"({self.int_expr(d - 1)}, {self.int_expr(d - 1)})[{r.choice([0, 1])}]"
        if k < 0.90 and self.lift:
            return f"({self.int_expr(d - 1)} if {self.cond(d - 1)} else {self.int_expr(d - 1)})"
        return r.choice(self.ints + [str(r.randint(0, 9))])

    def cond(self, d):
        r = self.r
        k = r.random()
        if d <= 0 or k < 0.3:
            return r.choice(["c", f"{self.int_expr(max(d, 0))} {r.choice(['<', '==', '>='])} {self.int_expr(max(d - 1, 0))}"])
        if k < 0.45:
            return f"gb({self.int_expr(d - 1)})"
        if k < 0.60:
            return f"({self.cond(d - 1)} {r.choice(['and', 'or'])} {self.cond(d - 1)})"
        if k < 0.70:
            return f"(not {self.cond(d - 1)})"
        if k < 0.80:
            return f"({self.int_expr(d - 1)} < {r.choice(self.ints)} <= {self.int_expr(d - 1)})"
        return f"{self.int_expr(d - 1)} != {self.int_expr(d - 1)}"

    # ---- statements ---------------------------------------------------------------
    def simple(self, d):
        r = self.r
        k = r.random()
        if k < 0.30:
            return [f'result("{self.fresh_tag()}", {self.int_expr(d)})']
        if k < 0.45:
            v = f"x{len(self.ints)}"
            s = [f"{v} = {self.int_expr(d)}"]
            self.ints.append(v)
            return s
        if k < 0.52 and len(self.ints) > 2:
            return [f"{r.choice(self.ints[2:])} += {self.int_expr(d)}"]
        if k < 0.62:
            v = f"xs{len(self.arrs)}"
            s = [f"{v} = array({self.int_expr(d)}, {self.int_expr(d - 1)}, {self.int_expr(d - 1)})"]
            self.arrs.append(v)
            return s
        if k < 0.68 and self.arrs:
            return [f"{r.choice(self.arrs)}[{self.int_expr(d - 1)} % 3] = {self.int_expr(d - 1)}"]
        if k < 0.72 and self.arrs:
            # the index of an augmented subscript assignment is kept call-free: with a call in it the
            # compiler evaluates the index twice (known finding, exact program in corpus/effects.json)
            return [f"{r.choice(self.arrs)}[{r.choice(self.ints)} % 3] += {self.int_expr(d - 1)}"]
        if k < 0.84:
            self.nq += 1
            q = f"q{self.nq}"
            tag = self.fresh_tag()
            kind = r.random()
            if kind < 0.5:
                return [f"{q} = qubit()", f"h({q})", f'result("{tag}", measure({q}))']
            if kind < 0.75:
                return [f"{q} = qubit()", f'result("{tag}", project_z({q}))', f"discard({q})"]
            return [f"{q} = qubit()", f"x({q})", f"reset({q})", f"discard({q})"]
        if k < 0.90:
            v = f"x{len(self.ints)}"
            s = [f"{v}, _u{len(self.ints)} = ({self.int_expr(d)}, {self.int_expr(d - 1)})"]
            self.ints.append(v)
            return s
        if k < 0.95 and self.lift:
            v = f"ys{self.tag}"
            return [f"{v} = array(g1(_i + {self.int_expr(0)}) for _i in range(3))", f'result("{self.fresh_tag()}", {v}[0])']
        return [f'result("{self.fresh_tag()}", {self.int_expr(d)})']

    def block(self, n, d, depth, ind):
        out = []
        for _ in range(n):
            k = self.r.random()
            if self.profile == "mixed" and depth > 0 and k < 0.30:
                keep = (list(self.ints), list(self.arrs))
                out.append(ind + f"if {self.cond(d)}:")
                out += self.block(self.r.randint(1, 2), d, depth - 1, ind + "    ")
                self.ints, self.arrs = list(keep[0]), list(keep[1])
                if self.r.random() < 0.6:
                    out.append(ind + "else:")
                    if self.r.random() < 0.3:
                        out.append(ind + f'    panic("p{self.fresh_tag()}")')
                    else:
                        out += self.block(self.r.randint(1, 2), d, depth - 1, ind + "    ")
                    self.ints, self.arrs = list(keep[0]), list(keep[1])
            elif self.profile == "mixed" and depth > 0 and k < 0.40:
                keep = (list(self.ints), list(self.arrs))
                i = f"i{self.fresh_tag()}"
                out.append(ind + f"{i} = 0")
                out.append(ind + f"while {i} < {self.r.randint(1, 3)}:")
                self.ints.append(i)
                out += self.block(self.r.randint(1, 2), d, depth - 1, ind + "    ")
                out.append(ind + f"    {i} += 1")
                self.ints, self.arrs = list(keep[0]), list(keep[1])
            elif self.profile == "mixed" and depth > 0 and k < 0.48:
                keep = (list(self.ints), list(self.arrs))
                j = f"j{self.fresh_tag()}"
                out.append(ind + f"for {j} in range({self.r.randint(1, 3)}):")
                self.ints.append(j)
                out += self.block(self.r.randint(1, 2), d, depth - 1, ind + "    ")
                self.ints, self.arrs = list(keep[0]), list(keep[1])
            else:
                out += [ind + s for s in self.simple(d)]
        return out

    def program(self):
        n = self.r.randint(2, 6)
        d = self.r.randint(1, 3)
        body = self.block(n, d, 2 if self.profile == "mixed" else 0, "    ")
        body.append(f"    return {self.int_expr(1)}")
        return HEADER + "@guppy\ndef main(a: int, b: int, c: bool) -> int:\n" + "\n".join(body) + "\n"


def generate(rnd, profile):
    return Gen(rnd, profile).program()


# --- Python's evaluation order of the side effects of a straight-line `main` ----------------
EFFECT_FUNCS = {"g1": "call:g1", "g2": "call:g2", "g3": "call:g3", "gb": "call:gb", "qubit": "QAlloc",
                "measure": "MeasureFree", "discard": "QFree", "panic": "panic", "exit": "exit",
                "maybe_qubit": "TryQAlloc"}
PURE_FUNCS = {"h", "x", "project_z", "reset", "array", "range"}


class Unsupported(Exception):
    pass


def expected_effects(src):
    """Effects of `main` in Python's evaluation order (language reference 6.16: operands left to
    right, arguments before the call, right-hand side before the assignment targets, the
    subscript of an augmented assignment evaluated once).  Array subscripts are bounds-checked:
    a load or store through `xs[i]` contributes `bounds`."""
    fn = [n for n in ast.parse(src).body if isinstance(n, ast.FunctionDef) and n.name == "main"][0]
    out = []

    def ev(e):
        if isinstance(e, (ast.Constant, ast.Name)):
            return
        if isinstance(e, ast.BinOp):
            ev(e.left); ev(e.right); return
        if isinstance(e, ast.UnaryOp):
            ev(e.operand); return
        if isinstance(e, ast.Compare) and len(e.ops) == 1:
            ev(e.left); ev(e.comparators[0]); return
        if isinstance(e, ast.Tuple):
            for x_ in e.elts:
                ev(x_)
            return
        if isinstance(e, ast.Subscript):
            ev(e.value); ev(e.slice)
            if not isinstance(e.value, ast.Tuple):
                out.append("bounds")
            return
        if isinstance(e, ast.Call) and isinstance(e.func, ast.Attribute) and e.func.attr == "unwrap" and not e.args:
            ev(e.func.value); out.append("bounds"); return        # Option.unwrap panics on nothing
        if isinstance(e, ast.Call) and isinstance(e.func, ast.Name):
            f = e.func.id
            if f == "result":
                ev(e.args[1]); out.append("result:" + e.args[0].value); return
            for a_ in e.args:
                ev(a_)
            if f in EFFECT_FUNCS:
                out.append(EFFECT_FUNCS[f])
            elif f not in PURE_FUNCS:
                raise Unsupported(f)
            return
        raise Unsupported(ast.dump(e)[:60])

    def target(t):
        if isinstance(t, ast.Name):
            return
        if isinstance(t, ast.Tuple):
            for x_ in t.elts:
                target(x_)
            return
        if isinstance(t, ast.Subscript):
            ev(t.value); ev(t.slice); out.append("bounds"); return
        raise Unsupported(ast.dump(t)[:60])

    for s in fn.body:
        if isinstance(s, ast.Expr):
            ev(s.value)
        elif isinstance(s, ast.Assign):
            ev(s.value)
            for t in s.targets:
                target(t)
        elif isinstance(s, ast.AugAssign):
            if isinstance(s.target, ast.Subscript):
                ev(s.target.value); ev(s.target.slice); out.append("bounds")   # load
                ev(s.value)
                out.append("bounds")                                           # store, same index
            else:
                ev(s.value)
        elif isinstance(s, ast.Return):
            if s.value is not None:
                ev(s.value)
        else:
            raise Unsupported(type(s).__name__)
    return out
