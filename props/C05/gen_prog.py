"""C05 program generator: Guppy programs whose expressions interleave result reports, calls to
user functions, qubit allocation / measurement, panics, array and tuple construction, subscripts
with operators, conditional expressions, short-circuit operators, comparisons and loops.

Profiles
  mixed     anything above (control flow, lifted sub-expressions): exercises order edges in
            nested regions (blocks, conditionals, loops of comprehensions)
  straight  a single basic block of lift-free statements: the expected sequence of side effects
            (Python's evaluation order) is computed by `expected_effects` from the Python AST
            alone and compared with the HUGR's order-edge chain of the block."""
import ast

HEADER = '''from guppylang import guppy
from guppylang.std.builtins import result, panic, exit, array, owned, nat
from guppylang.std.quantum import qubit, measure, h, x, discard, project_z, reset, maybe_qubit
from guppylang.std.option import Option


@guppy
def g1(v: int) -> int:
    result("g1", v)
    return v + 1


@guppy
def g2(v: int) -> int:
    return v * 2


@guppy
def g3(v: int, w: int) -> int:
    result("g3", v)
    return v - w


@guppy
def gb(v: int) -> bool:
    result("gb", v)
    return v > 0

'''


class Gen:
    def __init__(self, rnd, profile):
        self.r, self.profile = rnd, profile
        self.tag = 0
        self.ints = ["a", "b"]
        self.arrs = []
        self.nq = 0
        self.lift = profile == "mixed"

    def fresh_tag(self):
        self.tag += 1
        return f"t{self.tag}"

    # ---- expressions -------------------------------------------------------------
    def int_expr(self, d):
        r = self.r
        if d <= 0:
            return r.choice(self.ints + [str(r.randint(0, 9))])
        k = r.random()
        if k < 0.22:
            return f"g1({self.int_expr(d - 1)})"
        if k < 0.32:
            return f"g2({self.int_expr(d - 1)})"
        if k < 0.42:
            return f"g3({self.int_expr(d - 1)}, {self.int_expr(d - 1)})"
        if k < 0.62:
            return f"({self.int_expr(d - 1)} {r.choice(['+', '-', '*'])} {self.int_expr(d - 1)})"
        if k < 0.67:
            return f"(-{self.int_expr(d - 1)})"
        if k < 0.75 and self.arrs:
            return f"{r.choice(self.arrs)}[{self.int_expr(d - 1)} % 3]"
        if k < 0.80:
            return f"({self.int_expr(d - 1)}, {self.int_expr(d - 1)})[{r.choice([0, 1])}]"
        if k < 0.90 and self.lift:
            return f"({self.int_expr(d - 1)} if {self.cond(d - 1)} else {self.int_expr(d - 1)})"
        return r.choice(self.ints + [str(r.randint(0, 9))])

    def cond(self, d):
        r = self.r
        k = r.random()
        if d <= 0 or k < 0.3:
            return r.choice(["c", f"{self.int_expr(max(d, 0))} {r.choice(['<', '==', '>='])} {self.int_expr(max(d - 1, 0))}"])
        if k < 0.45:
            return f"gb({self.int_expr(d - 1)})"
        if k < 0.60:
            return f"({self.cond(d - 1)} {r.choice(['and', 'or'])} {self.cond(d - 1)})"
        if k < 0.70:
            return f"(not {self.cond(d - 1)})"
        if k < 0.80:
            return f"({self.int_expr(d - 1)} < {r.choice(self.ints)} <= {self.int_expr(d - 1)})"
        return f"{self.int_expr(d - 1)} != {self.int_expr(d - 1)}"

    # ---- statements ---------------------------------------------------------------
    def simple(self, d):
        r = self.r
        k = r.random()
        if k < 0.30:
            return [f'result("{self.fresh_tag()}", {self.int_expr(d)})']
        if k < 0.45:
            v = f"x{len(self.ints)}"
            s = [f"{v} = {self.int_expr(d)}"]
            self.ints.append(v)
            return s
        if k < 0.52 and len(self.ints) > 2:
            return [f"{r.choice(self.ints[2:])} += {self.int_expr(d)}"]
        if k < 0.62:
            v = f"xs{len(self.arrs)}"
            s = [f"{v} = array({self.int_expr(d)}, {self.int_expr(d - 1)}, {self.int_expr(d - 1)})"]
            self.arrs.append(v)
            return s
        if k < 0.68 and self.arrs:
            return [f"{r.choice(self.arrs)}[{self.int_expr(d - 1)} % 3] = {self.int_expr(d - 1)}"]
        if k < 0.72 and self.arrs:
            # the index of an augmented subscript assignment is kept call-free: with a call in it the
            # compiler evaluates the index twice (known finding, exact program in corpus/effects.json)
            return [f"{r.choice(self.arrs)}[{r.choice(self.ints)} % 3] += {self.int_expr(d - 1)}"]
        if k < 0.84:
            self.nq += 1
            q = f"q{self.nq}"
            tag = self.fresh_tag()
            kind = r.random()
            if kind < 0.5:
                return [f"{q} = qubit()", f"h({q})", f'result("{tag}", measure({q}))']
            if kind < 0.75:
                return [f"{q} = qubit()", f'result("{tag}", project_z({q}))', f"discard({q})"]
            return [f"{q} = qubit()", f"x({q})", f"reset({q})", f"discard({q})"]
        if k < 0.90:
            v = f"x{len(self.ints)}"
            s = [f"{v}, _u{len(self.ints)} = ({self.int_expr(d)}, {self.int_expr(d - 1)})"]
            self.ints.append(v)
            return s
        if k < 0.95 and self.lift:
            v = f"ys{self.tag}"
            return [f"{v} = array(g1(_i + {self.int_expr(0)}) for _i in range(3))", f'result("{self.fresh_tag()}", {v}[0])']
        return [f'result("{self.fresh_tag()}", {self.int_expr(d)})']

    def block(self, n, d, depth, ind):
        out = []
        for _ in range(n):
            k = self.r.random()
            if self.profile == "mixed" and depth > 0 and k < 0.30:
                keep = (list(self.ints), list(self.arrs))
                out.append(ind + f"if {self.cond(d)}:")
                out += self.block(self.r.randint(1, 2), d, depth - 1, ind + "    ")
                self.ints, self.arrs = list(keep[0]), list(keep[1])
                if self.r.random() < 0.6:
                    out.append(ind + "else:")
                    if self.r.random() < 0.3:
                        out.append(ind + f'    panic("p{self.fresh_tag()}")')
                    else:
                        out += self.block(self.r.randint(1, 2), d, depth - 1, ind + "    ")
                    self.ints, self.arrs = list(keep[0]), list(keep[1])
            elif self.profile == "mixed" and depth > 0 and k < 0.40:
                keep = (list(self.ints), list(self.arrs))
                i = f"i{self.fresh_tag()}"
                out.append(ind + f"{i} = 0")
                out.append(ind + f"while {i} < {self.r.randint(1, 3)}:")
                self.ints.append(i)
                out += self.block(self.r.randint(1, 2), d, depth - 1, ind + "    ")
                out.append(ind + f"    {i} += 1")
                self.ints, self.arrs = list(keep[0]), list(keep[1])
            elif self.profile == "mixed" and depth > 0 and k < 0.48:
                keep = (list(self.ints), list(self.arrs))
                j = f"j{self.fresh_tag()}"
                out.append(ind + f"for {j} in range({self.r.randint(1, 3)}):")
                self.ints.append(j)
                out += self.block(self.r.randint(1, 2), d, depth - 1, ind + "    ")
                self.ints, self.arrs = list(keep[0]), list(keep[1])
            else:
                out += [ind + s for s in self.simple(d)]
        return out

    def program(self):
        n = self.r.randint(2, 6)
        d = self.r.randint(1, 3)
        body = self.block(n, d, 2 if self.profile == "mixed" else 0, "    ")
        body.append(f"    return {self.int_expr(1)}")
        return HEADER + "@guppy\ndef main(a: int, b: int, c: bool) -> int:\n" + "\n".join(body) + "\n"


def generate(rnd, profile):
    return Gen(rnd, profile).program()


# --- profile "effects": straight-line programs in which (almost) every sub-expression has an effect ----
N_C, N_D, N_M, N_P, N_AR, N_MK = 12, 4, 3, 4, 2, 2
N_FL, N_NT = 4, 4


def _fx_header():
    out = ['from collections.abc import Callable', 'from guppylang import guppy',
           'from guppylang.std.builtins import result, array, owned, nat', '', '',
           '@guppy', 'def add(x: int, y: int) -> int:', '    return x + y', '', '',
           '@guppy', 'def sub(x: int, y: int) -> int:', '    return x - y', '', '']
    for k in range(1, N_C + 1):
        out += ['@guppy', f'def c{k}(v: int) -> int:', f'    result("c{k}", v)', f'    return v + {k}', '', '']
    for k in range(1, N_D + 1):
        out += ['@guppy', f'def d{k}(v: int, w: int) -> int:', f'    result("d{k}", v)', f'    return v * {k} - w', '', '']
    for k in range(1, N_FL + 1):
        out += ['@guppy', f'def fl{k}(v: int) -> float:', f'    result("fl{k}", v)', f'    return {k}.5', '', '']
    for k in range(1, N_NT + 1):
        out += ['@guppy', f'def nt{k}(v: int) -> nat:', f'    result("nt{k}", v)', f'    return nat({k})', '', '']
    for k in range(1, N_M + 1):
        out += ['@guppy', f'def m{k}() -> Callable[[int, int], int]:', f'    result("m{k}", 0)',
                f'    return {"add" if k % 2 else "sub"}', '', '']
    for k in range(1, N_P + 1):
        out += ['@guppy', f'def p{k}() -> int:', f'    result("p{k}", 0)', f'    return {k % 2}', '', '']
    for k in range(1, N_AR + 1):
        out += ['@guppy', f'def ar{k}(v: int) -> array[int, 3]:', f'    result("ar{k}", v)', '    return array(v, v + 1, v + 2)', '', '']
    out += ['@guppy.struct', 'class S:', '    x: int', '    y: int', '',
            '    @guppy', '    def get(self: "S", k: int) -> int:', '        result("get", k)', '        return self.x + k', '',
            '    @guppy', '    def get2(self: "S", k: int, j: int) -> int:', '        result("get2", k)', '        return self.y + k - j', '', '']
    for k in range(1, N_MK + 1):
        out += ['@guppy', f'def mk{k}(v: int) -> S:', f'    result("mk{k}", v)', f'    return S(v, v + {k})', '', '']
    return "\n".join(out) + "\n"


FX_HEADER = _fx_header()


class GenFx:
    """Every call site gets a fresh helper (c1.., d1.., m1.., p1.., ar1.., mk1..) while the pools last, so
    a misordering is visible in the labels.  Kept out on purpose (known deviations, exact programs in the
    corpus): a subscript whose container AND index both have effects, nested subscripts with two effectful
    indices, augmented assignment to a subscript with an effectful index, lifted sub-expressions."""

    def __init__(self, rnd):
        self.r = rnd
        self.n = {"c": 0, "d": 0, "m": 0, "p": 0, "ar": 0, "mk": 0, "fl": 0, "nt": 0}
        self.lim = {"c": N_C, "d": N_D, "m": N_M, "p": N_P, "ar": N_AR, "mk": N_MK, "fl": N_FL, "nt": N_NT}
        self.tag = 0
        self.ints = ["a", "b"]
        self.arrs, self.structs, self.fvs = [], [], []

    def fresh(self, kind):
        self.n[kind] = self.n[kind] % self.lim[kind] + 1
        return f"{kind}{self.n[kind]}"

    def leaf(self):
        return self.r.choice(self.ints + [str(self.r.randint(0, 9))])

    def e(self, d):
        r = self.r
        if d <= 0:
            return self.leaf()
        k = r.random()
        if k < 0.20:
            return f"{self.fresh('c')}({self.e(d - 1)})"
        if k < 0.30:
            f = self.fresh('d')
            return f"{f}({self.e(d - 1)}, {self.e(d - 1)})"
        if k < 0.40:
            f = self.fresh('m')
            return f"{f}()({self.e(d - 1)}, {self.e(d - 1)})"
        if k < 0.47:
            f = self.fresh('p')
            return f"fs[{f}()]({self.e(d - 1)}, {self.e(d - 1)})"
        if k < 0.52 and self.fvs:
            return f"{r.choice(self.fvs)}({self.e(d - 1)})"
        if k < 0.60:
            f = self.fresh('mk')
            return f"{f}({self.e(d - 1)}).{r.choice(['get(' + self.e(d - 1) + ')', 'get2(' + self.e(d - 1) + ', ' + self.e(d - 1) + ')', 'x', 'y'])}"
        if k < 0.65 and self.structs:
            return f"{r.choice(self.structs)}.get({self.e(d - 1)})"
        if k < 0.70:
            return f"S({self.e(d - 1)}, {self.e(d - 1)}).get({self.e(d - 1)})"
        if k < 0.76:
            f = self.fresh('ar')
            return f"{f}({self.e(d - 1)})[{r.choice(['0', '1', '2', 'a % 3'])}]"
        if k < 0.82 and self.arrs:
            return f"{r.choice(self.arrs)}[{self.e(d - 1)} % 3]"
        if k < 0.90:
            return f"({self.e(d - 1)} {r.choice(['+', '-', '*'])} {self.e(d - 1)})"
        if k < 0.94:
            return f"(-{self.e(d - 1)})"
        return f"({self.e(d - 1)}, {self.e(d - 1)})[{r.choice([0, 1])}]"

    def fresh_tag(self):
        self.tag += 1
        return f"t{self.tag}"

    def stmt(self, d):
        r = self.r
        k = r.random()
        if k < 0.17:
            return [f'result("{self.fresh_tag()}", {self.e(d)})']
        if k < 0.25:
            # operands of different numeric types: the reflected method (__radd__ ...) of the right operand's
            # type, or a coercion, is used; Python still evaluates the left operand first.  Mixed-type
            # comparisons whose left type lacks the method are a known deviation and are left out here.
            kind = r.random()
            if kind < 0.6:
                l, rr = f"{self.fresh('c')}({self.e(d - 1)})", f"{self.fresh('fl')}({self.e(d - 1)})"
                op = r.choice(["+", "-", "*", "/", "//", "%", "**"])
            else:
                l, rr = f"{self.fresh('c')}({self.e(d - 1)})", f"{self.fresh('nt')}({self.e(d - 1)})"
                op = r.choice(["+", "-", "*", "//", "%", "&", "|", "^", "<<", ">>"])
            if r.random() < 0.5:
                l, rr = rr, l
            return [f"_m{self.fresh_tag()} = {l} {op} {rr}"]
        if k < 0.33:
            return [f'result("{self.fresh_tag()}", {self.e(d)} {r.choice(["<", "==", ">=", "!="])} {self.e(d - 1)})']
        if k < 0.48:
            v = f"x{len(self.ints)}"
            s = [f"{v} = {self.e(d)}"]
            self.ints.append(v)
            return s
        if k < 0.56 and len(self.ints) > 2:
            return [f"{r.choice(self.ints[2:])} {r.choice(['+=', '-=', '*='])} {self.e(d)}"]
        if k < 0.66:
            v = f"xs{len(self.arrs)}"
            s = [f"{v} = array({self.e(d)}, {self.e(d - 1)}, {self.e(d - 1)})"]
            self.arrs.append(v)
            return s
        if k < 0.73 and self.arrs:
            return [f"{r.choice(self.arrs)}[{self.e(d - 1)} % 3] = {self.e(d)}"]
        if k < 0.78 and self.arrs:
            return [f"{r.choice(self.arrs)}[{self.leaf()} % 3] += {self.e(d)}"]
        if k < 0.85:
            v = f"s{len(self.structs)}"
            s = [f"{v} = S({self.e(d)}, {self.e(d - 1)})"]
            self.structs.append(v)
            return s
        if k < 0.91:
            v = f"fv{len(self.fvs)}"
            s = [f"{v} = {self.fresh('c')}"]
            self.fvs.append(v)
            return s
        v = f"x{len(self.ints)}"
        s = [f"{v}, _u{len(self.ints)} = ({self.e(d)}, {self.e(d - 1)})"]
        self.ints.append(v)
        return s

    def program(self):
        body = ["    fs = array(add, sub)"]
        d = self.r.randint(1, 3)
        for _ in range(self.r.randint(2, 5)):
            body += ["    " + s for s in self.stmt(d)]
        body.append(f"    return {self.e(2)}")
        return FX_HEADER + "@guppy\ndef main(a: int, b: int, c: bool) -> int:\n" + "\n".join(body) + "\n"


def generate(rnd, profile):
    if profile == "effects":
        return GenFx(rnd).program()
    return Gen(rnd, profile).program()


# --- Python's evaluation order of the side effects of a straight-line `main` ----------------
EFFECT_FUNCS = {"qubit": "QAlloc", "measure": "MeasureFree", "discard": "QFree", "panic": "panic", "exit": "exit",
                "maybe_qubit": "TryQAlloc"}
PURE_FUNCS = {"h", "x", "project_z", "reset", "array", "range", "S"}     # no call node: gates, constructors


class Unsupported(Exception):
    pass


def _is_array_value(e):
    """does a subscript on `e` go through the bounds-checked array __getitem__/__setitem__?"""
    if isinstance(e, ast.Name):
        return e.id.startswith(("xs", "ys", "fs", "xss"))
    if isinstance(e, ast.Call) and isinstance(e.func, ast.Name):
        return e.func.id.startswith("ar") or e.func.id == "array"
    if isinstance(e, ast.Subscript):
        return _is_array_value(e.value)
    return False


def expected_effects(src):
    """Effects of `main` in Python's evaluation order, from the language reference alone (6.16
    "Evaluation order": operands left to right; the callee expression, then the arguments left to right,
    then the call; a subscription evaluates the container, then the index; an assignment evaluates the
    right-hand side, then the targets left to right, each target's container then index; an augmented
    assignment evaluates the target's container and index once, then the right-hand side).
    Labels: `call:<function>`, `CallIndirect` (call of a function value), `result:<tag>`, QAlloc / QFree /
    MeasureFree / TryQAlloc / panic, and `bounds` for the bounds check of an array load or store and for
    `Option.unwrap`."""
    fn = [n for n in ast.parse(src).body if isinstance(n, ast.FunctionDef) and n.name == "main"][0]
    out = []
    fvals = set()          # local names bound to function values

    def call_name(f, args):
        if f == "result":
            ev(args[1]); out.append("result:" + args[0].value); return
        for a_ in args:
            ev(a_)
        if f in fvals:
            out.append("CallIndirect")
        elif f in EFFECT_FUNCS:
            out.append(EFFECT_FUNCS[f])
        elif f not in PURE_FUNCS:
            out.append("call:" + f)

    def ev(e):
        if isinstance(e, (ast.Constant, ast.Name)):
            return
        if isinstance(e, ast.BinOp):
            ev(e.left); ev(e.right); return
        if isinstance(e, ast.UnaryOp):
            ev(e.operand); return
        if isinstance(e, ast.Compare) and len(e.ops) == 1:
            ev(e.left); ev(e.comparators[0]); return
        if isinstance(e, ast.Tuple):
            for x_ in e.elts:
                ev(x_)
            return
        if isinstance(e, ast.Attribute):
            ev(e.value); return
        if isinstance(e, ast.Subscript):
            ev(e.value); ev(e.slice)
            if _is_array_value(e.value):
                out.append("bounds")
            return
        if isinstance(e, ast.Call):
            if e.keywords:
                raise Unsupported("keywords")
            if isinstance(e.func, ast.Name):
                call_name(e.func.id, e.args); return
            if isinstance(e.func, ast.Attribute):
                ev(e.func.value)
                if e.func.attr == "unwrap" and not e.args:
                    out.append("bounds"); return          # Option.unwrap panics on nothing
                for a_ in e.args:
                    ev(a_)
                out.append("call:" + e.func.attr); return
            ev(e.func)                                     # callee expression first
            for a_ in e.args:
                ev(a_)
            out.append("CallIndirect"); return
        raise Unsupported(ast.dump(e)[:60])

    def target(t):
        if isinstance(t, ast.Name):
            return
        if isinstance(t, ast.Tuple):
            for x_ in t.elts:
                target(x_)
            return
        if isinstance(t, ast.Subscript):
            ev(t.value); ev(t.slice); out.append("bounds"); return
        raise Unsupported(ast.dump(t)[:60])

    for s in fn.body:
        if isinstance(s, ast.Expr):
            ev(s.value)
        elif isinstance(s, ast.Assign):
            if (len(s.targets) == 1 and isinstance(s.targets[0], ast.Name) and isinstance(s.value, ast.Name)
                    and s.targets[0].id.startswith("fv")):
                fvals.add(s.targets[0].id)
            ev(s.value)
            for t in s.targets:
                target(t)
        elif isinstance(s, ast.AugAssign):
            if isinstance(s.target, ast.Subscript):
                ev(s.target.value); ev(s.target.slice); out.append("bounds")   # load
                ev(s.value)
                out.append("bounds")                                           # store, same index
            else:
                ev(s.value)
        elif isinstance(s, ast.Return):
            if s.value is not None:
                ev(s.value)
        else:
            raise Unsupported(type(s).__name__)
    return out


# --- family "syntax": constructs the clean tree REJECTS but a feature patch might accept ------------------
# Rule: if the compiler accepts the program, the helper calls must be chained in Python's order.  Python's
# order is obtained by EXECUTING the same body under CPython with recording stubs (ground truth, not a model).
SX_HEADER = '''from guppylang import guppy
from guppylang.std.builtins import result, array


@guppy
def c1(v: int) -> int:
    result("c1", v)
    return v + 1


@guppy
def c2(v: int) -> int:
    result("c2", v)
    return v + 2


@guppy
def c3(v: int) -> int:
    result("c3", v)
    return v + 3


@guppy
def c4(v: int) -> int:
    result("c4", v)
    return v + 4


@guppy
def d1(v: int, w: int) -> int:
    result("d1", v)
    return v - w


@guppy
def sub3(x: int, y: int, z: int) -> int:
    result("sub3", x)
    return x - y - z


@guppy.struct
class S:
    x: int
    y: int

    @guppy
    def get2(self: "S", k: int, j: int) -> int:
        result("get2", k)
        return self.y + k - j


@guppy
def mk1(v: int) -> S:
    result("mk1", v)
    return S(v, v + 1)


'''
SX_DFLT = '''@guppy
def dflt(x: int, y: int = 5) -> int:
    result("dflt", x)
    return x - y


'''
SX_HELPERS = ["c1", "c2", "c3", "c4", "d1", "sub3", "dflt", "get2", "mk1", "inner"]

SYNTAX_FAMILIES = [
    ("keyword-args", "    _r = d1(w=c1(a), v=c2(b))\n    return a\n"),
    ("keyword-args", "    _r = d1(v=c1(a), w=c2(b))\n    return a\n"),
    ("keyword-args", "    _r = sub3(c1(a), z=c2(b), y=c3(a))\n    return a\n"),
    ("keyword-args", "    _r = sub3(z=c1(a), y=c2(b), x=c3(a))\n    return a\n"),
    ("keyword-args", "    _r = d1(c1(a), w=c2(b)) + d1(w=c3(a), v=c4(b))\n    return a\n"),
    ("keyword-args-method", "    _r = mk1(c1(a)).get2(j=c2(b), k=c3(a))\n    return a\n"),
    ("keyword-args-method", "    _r = mk1(c1(a)).get2(c2(b), j=c3(a))\n    return a\n"),
    ("keyword-args-constructor", "    _s = S(y=c1(a), x=c2(b))\n    return a\n"),
    ("keyword-args-constructor", "    _s = S(c1(a), y=c2(b))\n    return a\n"),
    ("keyword-args-nested-function", "    def inner(x: int, y: int) -> int:\n        return x - y\n    _r = inner(y=c1(a), x=c2(b))\n    return a\n"),
    ("default-values", "    _r = dflt(c1(a)) + dflt(c2(b), c3(a))\n    return a\n"),
    ("default-values", "    _r = dflt(y=c1(a), x=c2(b))\n    return a\n"),
    ("star-args-call", "    _t = (c1(a), c2(b))\n    _r = d1(*_t)\n    return a\n"),
    ("star-args-call", "    _r = d1(*(c1(a), c2(b)))\n    return a\n"),
    ("star-args-call", "    _r = sub3(c1(a), *(c2(b), c3(a)))\n    return a\n"),
    ("star-args-call", "    _r = sub3(*(c1(a), c2(b)), c3(a))\n    return a\n"),
    ("double-star-kwargs", "    _r = d1(**{\"w\": c1(a), \"v\": c2(b)})\n    return a\n"),
    ("double-star-kwargs", "    _k = {\"v\": c1(a), \"w\": c2(b)}\n    _r = d1(**_k)\n    return a\n"),
    ("double-star-kwargs", "    _r = sub3(c1(a), **{\"z\": c2(b), \"y\": c3(a)})\n    return a\n"),
    ("starred-display", "    _t = (c1(a), *(c2(b), c3(a)), c4(b))\n    return a\n"),
    ("starred-display", "    _l = [c1(a), *[c2(b), c3(a)]]\n    return a\n"),
    ("starred-display", "    _x, *_y = (c1(a), c2(b), c3(a))\n    return a\n"),
    ("dict-display", "    _d = {c1(a): c2(b), c3(a): c4(b)}\n    return a\n"),
    ("dict-display", "    _d = {\"p\": c1(a), \"q\": c2(b), **{\"r\": c3(a)}}\n    return a\n"),
    ("set-display", "    _s = {c1(a), c2(b), c3(a)}\n    return a\n"),
    ("f-string", "    _s = f\"{c1(a)}-{c2(b)}:{c3(a)}\"\n    return a\n"),
    ("f-string", "    result(f\"t{c1(a)}\", c2(b))\n    return a\n"),
    ("lambda", "    _g = lambda v, w: d1(c1(v), c2(w))\n    _r = _g(c3(a), c4(b))\n    return a\n"),
    ("lambda", "    _r = (lambda v: c1(v) + c2(v))(c3(a))\n    return a\n"),
    ("list-display", "    _l = [c1(a), c2(b), c3(a)]\n    return a\n"),
    ("generator-arg", "    _r = d1(*(c1(i) for i in (a, b)))\n    return a\n"),
]


def syntax_programs():
    # a helper that itself uses rejected syntax (default values) is only part of the programs of its family,
    # so that its rejection cannot mask the other families
    return [{"family": fam, "body": body,
             "src": SX_HEADER + (SX_DFLT if "dflt(" in body else "")
             + "@guppy\ndef main(a: int, b: int, c: bool) -> int:\n" + body}
            for fam, body in SYNTAX_FAMILIES]


def nested_body_calls(body):
    """names called inside lambda / nested function bodies of `main` (they live in another HUGR function)"""
    tree = ast.parse("def main(a, b, c):\n" + body)
    out = set()
    for n in ast.walk(tree.body[0]):
        if isinstance(n, (ast.Lambda, ast.FunctionDef)) and n is not tree.body[0]:
            for m in ast.walk(n):
                if isinstance(m, ast.Call) and isinstance(m.func, ast.Name):
                    out.add("call:" + m.func.id)
    return out


def python_order_by_execution(body):
    """Run the body of `main` under CPython with recording stubs; returns the helper calls in the order
    Python performs them (labels `call:<helper>`)."""
    log = []

    def stub(name, fn):
        def f(*args, **kw):
            log.append("call:" + name)
            return fn(*args, **kw)
        f.__name__ = name
        return f

    class S:
        def __init__(self, x, y):
            self.x, self.y = x, y

        def get2(self, k, j):
            log.append("call:get2")
            return self.y + k - j
    env = {"S": S, "array": lambda *xs: list(xs), "result": lambda tag, v: None,
           "c1": stub("c1", lambda v: v + 1), "c2": stub("c2", lambda v: v + 2), "c3": stub("c3", lambda v: v + 3),
           "c4": stub("c4", lambda v: v + 4), "d1": stub("d1", lambda v, w: v - w),
           "sub3": stub("sub3", lambda x, y, z: x - y - z), "dflt": stub("dflt", lambda x, y=5: x - y),
           "mk1": stub("mk1", lambda v: S(v, v + 1))}
    src = "def main(a, b, c):\n" + body
    # nested `def inner` is a plain Python function: record its call as well
    src = src.replace("    def inner(x: int, y: int) -> int:\n        return x - y\n",
                      "    def inner(x, y):\n        _log.append('call:inner')\n        return x - y\n")
    env["_log"] = log
    exec(compile(src, "<c05-syntax>", "exec"), env)
    env["main"](1, 2, True)
    return log
