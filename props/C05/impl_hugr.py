"""C05 implementation-side harness: compile Guppy programs with /repo's compiler (under the
shim), log every `Hugr.add_node` call in order (a logging wrapper installed *below*
track_hugr_side_effects' own monkey patch), and read the order edges back from the final HUGR.

stdin : JSON {"programs": [{"name": str, "src": str, "entry": "main"}]}
stdout: JSON list, one record per program:
  {"name", "ok": bool, "error": str|None,
   "contexts": [[first_log_index, last_log_index_exclusive], ...]   one per track context,
   "log":   [[node_idx, opname, parent_idx|-1, classified(0/1), qubits_in, qubits_out], ...] in insertion order,
   "final": {"nodes": {idx: [opname, parent_idx, [children...]]}, "order": [[src, dst], ...]},
   "hugrs": number of distinct Hugr objects that received nodes}
`classified` is the real `may_have_side_effect(op)` evaluated at insertion time."""
import importlib.util
import json
import os
import sys
import tempfile
import traceback

import repo_shim  # noqa: F401
from hugr import ops
from hugr.hugr import Hugr
from hugr.hugr.node_port import OutPort
import guppylang_internals.compiler.core as core

LOG = []
CTX = []
_orig_add = Hugr.add_node


def opname(op):
    if isinstance(op, ops.ExtOp):
        return "Ext:" + op.op_def().qualified_name()
    if isinstance(op, ops.Custom):
        return "Custom:" + (f"{op.extension}.{op.op_name}" if op.extension else op.op_name)
    return type(op).__name__


def qubits(op):
    """(#qubit wires in, #qubit wires out) of an extension op, from its signature."""
    if not isinstance(op, (ops.ExtOp, ops.Custom)):
        return 0, 0
    try:
        sig = op.outer_signature()
        return (sum(str(t).count("Qubit") for t in sig.input),
                sum(str(t).count("Qubit") for t in sig.output))
    except Exception:
        return -1, -1


def logging_add(self, op, parent=None, num_outs=None, metadata=None):
    n = _orig_add(self, op, parent, num_outs, metadata)
    p = self[n].parent
    qi, qo = qubits(op)
    LOG.append([id(self), n.idx, opname(op), -1 if p is None else p.idx,
                1 if core.may_have_side_effect(op) else 0, qi, qo])
    return n


Hugr.add_node = logging_add

_orig_track = core.track_hugr_side_effects


def _install_ctx_logger():
    # record the extent of each tracking context (one per compiled function body)
    from contextlib import contextmanager

    @contextmanager
    def tracked():
        start = len(LOG)
        with _orig_track():
            yield
            CTX.append([start, len(LOG)])
    core.track_hugr_side_effects = tracked


_install_ctx_logger()


def extra(h, n):
    """result tag / callee name, to relate chain nodes to the source text"""
    op = h[n].op
    try:
        if isinstance(op, ops.ExtOp) and op.op_def().qualified_name().startswith("tket.result."):
            for a in op.args:
                v = getattr(a, "value", None)
                if isinstance(v, str):
                    return v
        if isinstance(op, ops.Call):
            for _, srcs in h.incoming_links(n):
                for src in srcs:
                    sop = h[src.node].op
                    if isinstance(sop, (ops.FuncDefn, ops.FuncDecl)):
                        return sop.f_name
    except Exception as e:  # labels are best effort
        return "?" + type(e).__name__
    return None


def dump_final(h):
    nodes, order = {}, []
    root = h.module_root if hasattr(h, "module_root") else h.root
    stack = [root]
    while stack:
        n = stack.pop()
        ch = list(h.children(n))
        p = h[n].parent
        nodes[n.idx] = [opname(h[n].op), -1 if p is None else p.idx, [c.idx for c in ch], extra(h, n)]
        try:
            for ip in h.linked_ports(OutPort(n, -1)):
                order.append([n.idx, ip.node.idx])
        except Exception:
            pass
        stack.extend(ch)
    return {"nodes": nodes, "order": sorted(order)}


def run_one(p, d):
    path = os.path.join(d, p["name"] + ".py")
    with open(path, "w") as f:
        f.write(p["src"])
    del LOG[:]
    del CTX[:]
    rec = {"name": p["name"], "ok": False, "error": None}
    try:
        spec = importlib.util.spec_from_file_location("c05_" + p["name"], path)
        m = importlib.util.module_from_spec(spec)
        sys.modules[spec.name] = m
        spec.loader.exec_module(m)
        f = getattr(m, p.get("entry", "main"))
        pkg = f.compile_function() if hasattr(f, "compile_function") else f.compile()
        h = pkg.modules[0]
        hs = {l[0] for l in LOG}
        rec.update(ok=True, hugrs=len(hs), contexts=[list(c) for c in CTX],
                   log=[l[1:] for l in LOG], final=dump_final(h),
                   main_hugr_only=all(l[0] == id(h) for l in LOG))
    except Exception as e:  # rejected programs are reported, not fatal
        rec["error"] = f"{type(e).__name__}: {str(e)[:300]}"
        rec["tb"] = traceback.format_exc()[-1500:]
    return rec


def main():
    req = json.load(sys.stdin)
    out = []
    with tempfile.TemporaryDirectory(prefix="c05_prog_") as d:
        for p in req["programs"]:
            out.append(run_one(p, d))
    json.dump(out, sys.stdout)


if __name__ == "__main__":
    main()
