"""Path-based specification of the three sets, by brute force over paths.

Written from the property's wording (and the exact statements of coq/C09/Props.v), NOT
from analysis.py and not from the Coq model: no worklist, no fixpoint iteration -- only
"there is a path ..." searches on the explicit graph.

case: {"succ", "dsucc", "use", "def"} lists per block, plus "incl", "I" / "D0", "M0".
All functions return, per block, a sorted list of variables."""
from functools import lru_cache


def _edges(case, incl):
    n = len(case["succ"])
    return [sorted(set(case["succ"][b]) | (set(case["dsucc"][b]) if incl else set())) for b in range(n)]


def _vars(case):
    vs = set()
    for k in ("use", "def"):
        for s in case[k]:
            vs |= set(s)
    for k in ("I", "D0", "M0", "inout"):
        vs |= set(case.get(k, []))
    return sorted(vs)


def live(case, incl=None, initial=None, use=None):
    """x live before b  iff  exists path b=b0->..->bk (flow edges) with x in use(bk) and
    x not in def(bi) for i<k;  for x in the initial set additionally: iff there is a walk of
    n edges from b (hence an infinite one) all of whose blocks neither... define x -- 'x is
    never reassigned on some infinite path' (blocks reading x are already covered)."""
    incl = case.get("incl", True) if incl is None else incl
    initial = set(case.get("I", []) if initial is None else initial)
    use = case["use"] if use is None else use
    E = _edges(case, incl)
    n = len(E)
    out = []
    for b in range(n):
        res = set()
        for x in _vars(case):
            # finite path to a use, no definition strictly before it
            seen, stack, found = set(), [b], False
            while stack and not found:
                c = stack.pop()
                if c in seen:
                    continue
                seen.add(c)
                if x in use[c]:
                    found = True
                elif x not in case["def"][c]:
                    stack.extend(E[c])
            if not found and x in initial:
                @lru_cache(maxsize=None)
                def idle_walk(c, k):   # a walk with k edges from c on which x is never defined
                    if x in case["def"][c]:
                        return False
                    return k == 0 or any(idle_walk(s, k - 1) for s in E[c])
                found = idle_walk(b, n)
            if found:
                res.add(x)
        out.append(sorted(res))
    return out


def assignment(case):
    """definitely assigned before b: x in ALL (= all assigned variables + D0) and there is NO
    path s=b0->..->bk=b from a source (block without flow predecessors) with x not in D0 and
    x not in def(bi) for i<k.
    maybe assigned before b: there is a path b0->..->bk=b with x in def(b0) and k>=1, or from a
    source b0 with x in D0 (k>=0); for x in M0 additionally: an infinite backward walk from b
    exists (a walk of n backward edges)."""
    E = _edges(case, True)
    n = len(E)
    P = [[p for p in range(n) if b in E[p]] for b in range(n)]
    D0, M0 = set(case.get("D0", [])), set(case.get("M0", []))
    ALL = set(D0)
    for d in case["def"]:
        ALL |= set(d)
    dres, mres = [], []
    for b in range(n):
        ds, ms = set(), set()
        for x in sorted(ALL | M0 | set(_vars(case))):
            # backward search from b over predecessors not defining x: reach a source with x not in D0?
            unass = False
            seen, stack = set(), [(b, True)]   # (block, is_start): the start block's own defs are after its entry
            while stack and not unass:
                c, start = stack.pop()
                if (c, start) in seen:
                    continue
                seen.add((c, start))
                if not start and x in case["def"][c]:
                    continue
                if not P[c]:
                    if x not in D0:
                        unass = True
                    continue
                stack.extend((p, False) for p in P[c])
            if x in ALL and not unass:
                ds.add(x)
            # maybe: some backward path meets a definition or a source with x in D0
            may = False
            seen, stack = set(), [(b, True)]
            while stack and not may:
                c, start = stack.pop()
                if (c, start) in seen:
                    continue
                seen.add((c, start))
                if not start and x in case["def"][c]:
                    may = True
                    continue
                if not P[c]:
                    if x in D0:
                        may = True
                    continue
                stack.extend((p, False) for p in P[c])
            if not may and x in M0:
                @lru_cache(maxsize=None)
                def back_walk(c, k):
                    return k == 0 or any(back_walk(p, k - 1) for p in P[c])
                may = back_walk(b, n)
            if may:
                ms.add(x)
        dres.append(sorted(ds))
        mres.append(sorted(ms))
    return [dres, mres]


def analyze(case):
    """CFG.analyze(D0, M0, inout): borrowed variables are read at the exit (block 1) and form
    the initial set of the liveness analysis; both analyses include dummy edges."""
    use = [list(u) for u in case["use"]]
    use[1] = sorted(set(use[1]) | set(case.get("inout", [])))
    lv = live(case, incl=True, initial=case.get("inout", []), use=use)
    d, m = assignment(case)
    return [lv, d, m]


def expected(case):
    k = case["kind"]
    if k == "live":
        return live(case)
    if k == "ass":
        return assignment(case)
    return analyze(case)


def plain_wording_live(case, incl=None, use=None):
    """The property's literal wording (no special rule for the initial set)."""
    return live(case, incl=incl, initial=[], use=use)
