"""Implementation side of the C09 correspondence: runs the REAL analyses of the repo under
test (PYTHONPATH decides which tree) under harness-chosen worklist pop orders.

No file of the repo is edited: `analysis.py` looks its work-list classes up through the
module global names `set` (forward analysis) and `dict` (backward analysis, an insertion
ordered dict popped at the front since commit 5a93dfc); we bind them to `Sched` / `SchedDict`,
subclasses whose `pop` / first iterated key follow a schedule.  Every result carries
"consulted" = how many pops the harness decided, so a refactor that defeats the injection is
visible (check.py reports it) instead of silently testing one order.  Input (JSON on stdin): {"mode": "run"|"explore", "cases": [case...],
"max_states": int}.  A case is
  {"kind": "live"|"ass"|"analyze", "succ": [[..]..], "dsucc": [[..]..], "use": [[..]..],
   "def": [[..]..], "incl": bool, "I": [..], "D0": [..], "M0": [..], "inout": [..],
   "sched": [..], "sched2": [..]}
Block i of the lists is the BB with idx i (0 = entry, 1 = exit, as made by CFG()).
Variables are small integers; for "analyze" they become identifiers v<i> inside real AST
statements so that BB.compute_variable_stats (the real code) produces the use/def sets.

run     -> per case {"res": ..., "pops": [...]}   (the i-th pop takes the element of rank
           sched[i] mod |queue| among the queued blocks sorted by idx; rank 0 afterwards)
explore -> per case {"results": [distinct final results], "states": n, "runs": n,
           "truncated": bool}: EVERY pop order, explored as a graph over
           (queue, lattice values) states read from the frame of `run`.
A "stmts" case has "src": [source text per block], "pred": [branch predicate source or null
per block] instead of use/def: the blocks hold these real statements and CFG.analyze runs
BB.compute_variable_stats on them; its result has a 4th component [[used, assigned] per block].
Results: live -> [sorted keys per block]; ass -> [[def per block], [maybe per block]];
analyze -> [live, def, maybe]."""
import ast
import json
import sys

import guppylang_internals.cfg.analysis as an
from guppylang_internals.cfg.bb import VariableStats
from guppylang_internals.cfg.cfg import CFG


class Abort(Exception):
    pass


class Controller:
    """Decides which queued block is popped next."""
    def choose(self, items, frame):
        return 0


class ListSched(Controller):
    def __init__(self, sched):
        self.sched, self.i, self.pops = list(sched), 0, []

    def choose(self, items, frame):
        k = self.sched[self.i] % len(items) if self.i < len(self.sched) else 0
        self.i += 1
        self.pops.append(items[k].idx)
        return k


def frame_state(items, frame):
    """(queue, lattice values) of the running analysis, read from run()'s locals."""
    loc = frame.f_locals
    def canon(v):
        if isinstance(v, dict):
            return frozenset(v.keys())
        if isinstance(v, tuple):
            return tuple(frozenset(c) for c in v)
        return frozenset(v)
    parts = []
    for name in ("vals_before", "vals_after"):
        d = loc.get(name)
        if name == "vals_before" and d is None:
            return None
        if d is not None:
            parts.append(tuple(canon(d[b]) for b in sorted(d, key=lambda b: b.idx)))
    return (frozenset(b.idx for b in items), tuple(parts))


class Explorer(Controller):
    """Follows a prefix of block indices, then always takes the first queued block, pushing
    every alternative; aborts the run when it reaches a state already seen."""
    def __init__(self, prefix, seen, stack, memo_ok):
        self.prefix, self.i, self.seen, self.stack, self.taken = prefix, 0, seen, stack, []
        self.memo_ok = memo_ok

    def choose(self, items, frame):
        if self.i < len(self.prefix):
            want = self.prefix[self.i]
            self.i += 1
            k = [b.idx for b in items].index(want)
            self.taken.append(want)
            return k
        st = frame_state(items, frame) if self.memo_ok[0] else None
        if st is None:
            self.memo_ok[0] = False
            st = ("prefix", tuple(self.taken))
        if st in self.seen:
            raise Abort()
        self.seen.add(st)
        for b in items[1:]:
            self.stack.append(self.taken + [b.idx])
        self.taken.append(items[0].idx)
        return 0


def _choose(container_items, frame):
    items = sorted(container_items, key=lambda b: b.idx)
    k = Sched.ctl.choose(items, frame)
    Sched.consulted += 1
    return items[k]


class Sched(set):
    """Injected for the module-global name `set` of analysis.py (work list of
    ForwardAnalysis.run, and of BackwardAnalysis.run up to guppylang commit 5a93dfc)."""
    ctl = Controller()
    consulted = 0

    def pop(self):
        b = _choose(set.__iter__(self), sys._getframe(1))
        self.discard(b)
        return b


class SchedDict(dict):
    """Injected for the module-global name `dict` of analysis.py: since commit 5a93dfc the
    work list of BackwardAnalysis.run is `dict.fromkeys(bbs)` popped with
    `next(iter(queue))`.  `dict.fromkeys` on this subclass returns a SchedDict; iterating it
    FROM THE FRAME OF `run` yields the block chosen by the harness first, so the loop body of
    the real code is driven through arbitrary visit orders.  Everywhere else it is a dict."""

    def __iter__(self):
        f = sys._getframe(1)
        if f.f_code.co_name == "run" and f.f_locals.get("queue") is self and len(self) > 0:
            first = _choose(dict.__iter__(self), f)
            return iter([first] + [b for b in dict.__iter__(self) if b is not first])
        return dict.__iter__(self)


an.set = Sched
an.dict = SchedDict


def stmt_for(use, deff):
    """A real AST statement whose VariableVisitor stats are exactly (use, def)."""
    if not use and not deff:
        return []
    rhs = "(" + "".join(f"v{u}, " for u in use) + ")" if use else "0"
    if deff:
        src = "(" + "".join(f"v{d}, " for d in deff) + ") = " + rhs
    else:
        src = rhs
    return ast.parse(src).body


def build(case):
    n = len(case["succ"])
    c = CFG()
    while len(c.bbs) < n:
        c.new_bb()
    for i in range(n):
        for j in case["succ"][i]:
            c.link(c.bbs[i], c.bbs[j])
        for j in case["dsucc"][i]:
            c.dummy_link(c.bbs[i], c.bbs[j])
    # well-formedness the Coq model relies on: predecessor lists are the inverse of the
    # successor lists, idx = position
    for i, b in enumerate(c.bbs):
        assert b.idx == i
        assert sorted(p.idx for p in b.predecessors) == sorted(
            q.idx for q in c.bbs for s in q.successors if s is b)
        assert sorted(p.idx for p in b.dummy_predecessors) == sorted(
            q.idx for q in c.bbs for s in q.dummy_successors if s is b)
    return c


def run_case(case, ctl1, ctl2=None):
    c = build(case)
    kind = case["kind"]
    if kind in ("analyze", "stmts"):
        for i, b in enumerate(c.bbs):
            if kind == "stmts":   # arbitrary real statements (+ branch predicate) per block
                b.statements = ast.parse(case["src"][i]).body
                if case["pred"][i]:
                    b.branch_pred = ast.parse(case["pred"][i], mode="eval").body
            else:
                b.statements = stmt_for(case["use"][i], case["def"][i])
        nm = lambda xs: [f"v{x}" for x in xs]
        # CFG.analyze runs liveness first, then assignment: two controllers in sequence
        class Seq(Controller):
            def __init__(self):
                self.phase = 0
            def choose(self, items, frame):
                which = ctl1 if "vals_after" not in frame.f_locals else (ctl2 or ctl1)
                return which.choose(items, frame)
        Sched.ctl = Seq()
        stats = c.analyze(set(nm(case["D0"])), set(nm(case["M0"])), nm(case["inout"]))
        un = lambda s: sorted(int(x[1:]) for x in s)
        if kind == "stmts":
            return [[un(c.live_before[b]) for b in c.bbs], [un(c.ass_before[b]) for b in c.bbs],
                    [un(c.maybe_ass_before[b]) for b in c.bbs],
                    [[un(stats[b].used), un(stats[b].assigned)] for b in c.bbs]]
        for i, b in enumerate(c.bbs):   # the real stats must be the requested ones (+ inout at exit)
            exp_use = set(nm(case["use"][i])) | (set(nm(case["inout"])) if i == 1 else set())
            assert set(stats[b].used) == exp_use and set(stats[b].assigned) == set(nm(case["def"][i])), (i, stats[b])
        un = lambda s: sorted(int(x[1:]) for x in s)
        return [[un(c.live_before[b]) for b in c.bbs], [un(c.ass_before[b]) for b in c.bbs],
                [un(c.maybe_ass_before[b]) for b in c.bbs]]
    stats = {b: VariableStats(assigned={x: None for x in case["def"][i]}, used={x: None for x in case["use"][i]})
             for i, b in enumerate(c.bbs)}
    Sched.ctl = ctl1
    if kind == "live":
        res = an.LivenessAnalysis(stats, initial={x: c.exit_bb for x in case["I"]},
                                  include_unreachable=case["incl"]).run(c.bbs)
        return [sorted(res[b]) for b in c.bbs]
    if kind == "ass":
        d, m = an.AssignmentAnalysis(stats, set(case["D0"]), set(case["M0"]),
                                     include_unreachable=True).run_unpacked(c.bbs)
        return [[sorted(d[b]) for b in c.bbs], [sorted(m[b]) for b in c.bbs]]
    raise ValueError(kind)


def do_run(case):
    c1, c2 = ListSched(case.get("sched", [])), ListSched(case.get("sched2", []))
    Sched.consulted = 0
    try:
        res = run_case(case, c1, c2)
    except Exception as e:  # noqa: BLE001
        return {"error": f"{type(e).__name__}: {e}"}
    finally:
        Sched.ctl = Controller()
    return {"res": res, "pops": c1.pops, "pops2": c2.pops, "consulted": Sched.consulted}


def do_explore(case, max_states):
    """All pop orders.  For 'analyze' the two analyses are explored independently (the
    second under the default order while the first varies, and vice versa)."""
    results, states, runs, truncated = [], 0, 0, False
    phases = [0, 1] if case["kind"] in ("analyze", "stmts") else [0]
    for phase in phases:
        seen, stack, memo_ok = set(), [[]], [True]
        while stack:
            if len(seen) > max_states:
                truncated = True
                break
            prefix = stack.pop()
            ex = Explorer(prefix, seen, stack, memo_ok)
            try:
                if phase == 0:
                    res = run_case(case, ex, Controller())
                else:
                    res = run_case(case, Controller(), ex)
                runs += 1
                if res not in results:
                    results.append(res)
            except Abort:
                pass
            except Exception as e:  # noqa: BLE001
                r = {"error": f"{type(e).__name__}: {e}"}
                if r not in results:
                    results.append(r)
            finally:
                Sched.ctl = Controller()
        states += len(seen)
    return {"results": results, "states": states, "runs": runs, "truncated": truncated}


def main():
    payload = json.load(sys.stdin)
    out = []
    for case in payload["cases"]:
        if payload.get("mode", "run") == "run":
            out.append(do_run(case))
        else:
            out.append(do_explore(case, payload.get("max_states", 4000)))
    json.dump(out, sys.stdout)


if __name__ == "__main__":
    main()
