"""C09 — dataflow analyses equal the path-based solution in any visit order.

Theorem half: coq/C09 (Analysis.v model; Generic.v abstract chaotic iteration; ProofsLive.v /
ProofsAssign.v refinement; Props.v the property theorems, unbounded, every pop order).
Tie (X, with schedules), checked on every run:
  1. corpus first (props/C09/corpus/*.json): every pop order of each corpus CFG, on the real
     code, against the path-based specification (spec_paths.py);
  2. seeded random (CFG, schedule) cases: the REAL LivenessAnalysis / AssignmentAnalysis /
     CFG.analyze of the repo under test, driven through injected work-list classes (the
     module globals `set` and `dict` of analysis.py are rebound; impl_analysis.py, no repo edit), compared with
        (a) `run_with schedule` of the Coq model, evaluated inside coqc by vm_compute, and
        (b) the brute-force path specification;
  2b. statement level: CFGs whose blocks hold generated real statements (compound / nested /
     starred targets, augmented and annotated assignments, ...) through the real
     BB.compute_variable_stats + CFG.analyze, against read/write events in Python's evaluation
     order (spec_stmts.py) solved over paths;
  3. failing-input search (always run): small CFGs x EVERY pop order (state-graph
     exploration of the real `run` loop) against the path specification;
  4. the one documented deviation from the property's literal wording (borrowed variables,
     greatest fixpoint) is replayed on the real code and reported as a known finding.
The model is of the code AFTER props/C09/fix-1.patch (dummy neighbours re-queued).  On a tree
without the fix, step 1 reports the P/U/E witness: two pop orders, two different results."""
import itertools
import json
from concurrent.futures import ThreadPoolExecutor

import vlib
from vlib import proof_coverage

import spec_paths
import spec_stmts

LEVEL = "proof"
KNOWN_BORROW_KEY = "wording:borrowed-variable-live-on-idle-cycle"


# ------------------------------------------------------------------------------------ inputs
def rand_subset(r, xs, p):
    return sorted(x for x in xs if r.random() < p)


def rand_case(r, kind=None, nmax=6, nvars=3):
    n = r.randint(2, nmax)
    style = r.choice(["sparse", "sparse", "dense", "chain"])
    pe = {"sparse": 1.3 / n, "dense": 0.45, "chain": 0.12}[style]
    pd = r.choice([0.0, 0.1, 0.25])
    succ = [[] for _ in range(n)]
    dsucc = [[] for _ in range(n)]
    for a in range(n):
        for b in range(n):
            if style == "chain" and b == a + 1 and r.random() < 0.85:
                succ[a].append(b)
            elif r.random() < pe:
                succ[a].append(b)
                if r.random() < 0.05:
                    succ[a].append(b)          # duplicate edge (link called twice)
            if r.random() < pd:
                dsucc[a].append(b)
    vs = list(range(nvars))
    pu, pdf = r.choice([(0.2, 0.2), (0.35, 0.15), (0.1, 0.4)])
    case = {"kind": kind or r.choice(["live", "live", "ass", "analyze"]),
            "succ": succ, "dsucc": dsucc,
            "use": [rand_subset(r, vs, pu) for _ in range(n)],
            "def": [rand_subset(r, vs, pdf) for _ in range(n)]}
    if case["kind"] == "live":
        case["incl"] = r.random() < 0.7
        case["I"] = rand_subset(r, vs + [nvars], r.choice([0.0, 0.3]))
    else:
        case["D0"] = rand_subset(r, vs + [nvars], 0.25)
        case["M0"] = sorted(set(case["D0"]) | set(rand_subset(r, vs + [nvars, nvars + 1], 0.2)))
        if case["kind"] == "analyze":
            case["inout"] = rand_subset(r, vs, 0.25)
            case["sched2"] = [r.randint(0, n) for _ in range(r.randint(0, 3 * n))]
    case["sched"] = [r.randint(0, n) for _ in range(r.randint(0, 4 * n))]
    return case


def small_space(n, kinds, r=None, stats_per_graph=None):
    """All graphs on n blocks (every ordered pair: no edge / real / dummy), one variable 0,
    every (or a seeded sample of) use/def pattern."""
    pairs = [(a, b) for a in range(n) for b in range(n)]
    pats = list(itertools.product([(0, 0), (1, 0), (0, 1), (1, 1)], repeat=n))
    for edges in itertools.product([0, 1, 2], repeat=len(pairs)):
        succ = [[b for (a2, b), e in zip(pairs, edges) if a2 == a and e == 1] for a in range(n)]
        dsucc = [[b for (a2, b), e in zip(pairs, edges) if a2 == a and e == 2] for a in range(n)]
        chosen = pats if stats_per_graph is None else r.sample(pats, stats_per_graph)
        for pat in chosen:
            use = [[0] if u else [] for u, _ in pat]
            deff = [[0] if d else [] for _, d in pat]
            for kind in kinds:
                base = {"succ": succ, "dsucc": dsucc, "use": use, "def": deff}
                if kind == "live0":
                    yield dict(base, kind="live", incl=True, I=[])
                elif kind == "live1":
                    yield dict(base, kind="live", incl=True, I=[0])
                elif kind == "liveR":
                    yield dict(base, kind="live", incl=False, I=[])
                elif kind == "ass0":
                    yield dict(base, kind="ass", D0=[], M0=[])
                elif kind == "ass1":
                    yield dict(base, kind="ass", D0=[], M0=[0])
                elif kind == "ass2":
                    yield dict(base, kind="ass", D0=[0], M0=[0])
                elif kind == "an":
                    yield dict(base, kind="analyze", D0=[], M0=[], inout=[0])


def expected_of(case):
    return spec_stmts.expected(case) if case["kind"] == "stmts" else spec_paths.expected(case)


def rand_stmts_case(r):
    """A CFG whose blocks hold generated real statements (compound assignment targets,
    augmented / annotated assignments, expression statements, returns, branch predicates)."""
    case = rand_case(r, kind="analyze", nmax=5, nvars=4)
    names = [f"v{i}" for i in range(4)]
    n = len(case["succ"])
    case["kind"] = "stmts"
    case["src"] = [spec_stmts.gen_block(r, names) for _ in range(n)]
    case["pred"] = [spec_stmts.gen_expr(r, names) if len(set(case["succ"][i])) > 1 and r.random() < 0.8 else None
                    for i in range(n)]
    del case["use"], case["def"]
    return case


def nontrivial(case):
    """>= 1 dummy edge or a cycle among the flow edges."""
    if any(case["dsucc"]):
        return True
    n = len(case["succ"])
    E = case["succ"]
    color = [0] * n
    def dfs(v):
        color[v] = 1
        for s in E[v]:
            if color[s] == 1 or (color[s] == 0 and dfs(s)):
                return True
        color[v] = 2
        return False
    return any(color[v] == 0 and dfs(v) for v in range(n))


def canon(case):
    return json.dumps({k: case[k] for k in sorted(case) if k not in ("sched", "sched2")}, sort_keys=True)


# ------------------------------------------------------------------------------------ Coq side
def coq_list(xs):
    return "[" + "; ".join(str(x) for x in xs) + "]"


def coq_cfg(case):
    return "[" + "; ".join(f"B {coq_list(s)} {coq_list(d)} {coq_list(u)} {coq_list(a)}"
                            for s, d, u, a in zip(case["succ"], case["dsucc"], case["use"], case["def"])) + "]"


def coq_expr(case, rq):
    g = coq_cfg(case)
    if case["kind"] == "live":
        incl = "true" if case["incl"] else "false"
        return f"[norm_vals (liveness {rq} {incl} {g} {coq_list(case['I'])} {coq_list(case['sched'])})]"
    if case["kind"] == "ass":
        return (f"(let '(d, m) := assignment {rq} {g} {coq_list(case['D0'])} {coq_list(case['M0'])} "
                f"{coq_list(case['sched'])} in [norm_vals d; norm_vals m])")
    return (f"(let '(l, d, m) := cfg_analyze {rq} {g} {coq_list(case['D0'])} {coq_list(case['M0'])} "
            f"{coq_list(case['inout'])} {coq_list(case['sched'])} {coq_list(case.get('sched2', []))} "
            f"in [norm_vals l; norm_vals d; norm_vals m])")


def coq_file(cases, rq):
    lines = ["From Coq Require Import List. Import ListNotations.",
             "From V.C09 Require Import Analysis.",
             "Definition B := mkBlock.",
             "Definition cases : list (list (list (list nat))) := [",
             ";\n".join(coq_expr(c, rq) for c in cases) + "].",
             "Eval vm_compute in cases."]
    return "\n".join(lines)


def model_eval(ctx, cases, rq="Repaired", chunk=250):
    """`run_with schedule` of the Coq model (re-queue policy rq) on every case, by vm_compute."""
    if not cases:
        return []
    chunks = [cases[i:i + chunk] for i in range(0, len(cases), chunk)]
    outs = ctx.coq_eval_many({f"cases_{rq}_{i}": coq_file(c, rq) for i, c in enumerate(chunks)}, jobs=8, timeout=1500)
    res = []
    for i in range(len(chunks)):
        res += vlib.parse_coq_values(outs[f"cases_{rq}_{i}"])[0]
    # a liveness result is a single component: unwrap to the implementation's format
    return [v[0] if c["kind"] == "live" else v for c, v in zip(cases, res)]


# ------------------------------------------------------------------------------------ impl side
def impl_batch(ctx, mode, cases, procs=8, max_states=3000):
    if not cases:
        return []
    size = max(1, (len(cases) + procs - 1) // procs)
    parts = [cases[i:i + size] for i in range(0, len(cases), size)]
    def one(part):
        return json.loads(ctx.impl("impl_analysis.py", {"mode": mode, "cases": part, "max_states": max_states},
                                   timeout=3000))
    with ThreadPoolExecutor(max_workers=procs) as ex:
        res = list(ex.map(one, parts))
    return [x for part in res for x in part]


def replay_text(case, impl_mode="explore"):
    return ("cd /verif/props/C09 && echo '" + json.dumps({"mode": impl_mode, "cases": [case]}) +
            "' | PYTHONPATH=$VERIF_REPO/guppylang-internals/src /venv/bin/python impl_analysis.py"
            "   # (VERIF_REPO=/repo) prints the result(s) of the real analysis; "
            "python3 -c 'import spec_paths, json; print(spec_paths.expected(CASE))' gives the path-based solution")


# ------------------------------------------------------------------------------------ run
def run(ctx):
    import time
    t0 = time.time()
    timing = {}
    info = ctx.coq_props()
    timing["coq_props"] = round(time.time() - t0, 1)
    r = vlib.rng(ctx.seed, "C09")
    reported = [0]
    def report_spec(case, observed, expected, how, extra=None):
        if reported[0] >= 4:
            return
        reported[0] += 1
        d = {"case": case, "observed_by_real_code": observed, "path_based_solution": expected,
             "how": how, "result_format": "live: [live_before per block]; ass: [def per block, maybe per block]; analyze: [live, def, maybe]",
             "replay": replay_text(case)}
        d.update(extra or {})
        ctx.report("spec:" + canon(case), "counterexample",
                   "order_independent / live_char / def_char / maybe_char (coq/C09/Props.v) on the real code", d)

    # ---- 1. corpus: every pop order
    corpus = []
    for f in sorted((ctx.dir / "corpus").glob("*.json")):
        corpus.append(json.loads(f.read_text()))
    n_explore_runs = n_states = 0
    explored_cases = 0
    def check_explored(cases, tag):
        nonlocal n_explore_runs, n_states, explored_cases
        outs = impl_batch(ctx, "explore", cases)
        bad = 0
        for case, o in zip(cases, outs):
            exp = expected_of(case)
            n_explore_runs += o["runs"]
            n_states += o["states"]
            explored_cases += 1
            if len(o["results"]) != 1 or o["results"][0] != exp:
                bad += 1
                report_spec(case, o["results"], exp,
                            f"{tag}: all pop orders explored on the real code ({o['runs']} complete runs, {o['states']} states); "
                            + ("the result depends on the pop order" if len(o["results"]) > 1 else "the result differs from the path-based solution"))
        return bad
    bad_corpus = check_explored(corpus, "corpus")
    timing["corpus"] = round(time.time() - t0, 1)

    # ---- 2. random (CFG, schedule) pairs: impl vs model vs spec
    n_rand = 1200 if ctx.quick else 10000
    cases = [rand_case(r) for _ in range(n_rand)]
    impl = impl_batch(ctx, "run", cases)
    timing["impl_random"] = round(time.time() - t0, 1)
    model_rep = None
    try:
        model_rep = model_eval(ctx, cases, "Repaired")
    except Exception as e:  # noqa: BLE001
        ctx.notes.append(f"model evaluation failed: {str(e)[-800:]}")
    timing["model_random"] = round(time.time() - t0, 1)
    agree_rep = spec_bad = 0
    mism = []
    if model_rep is not None:
        mism = [i for i, (m, o) in enumerate(zip(model_rep, impl)) if m != o.get("res", o)]
        agree_rep = len(cases) - len(mism)
    # diagnosis: does the implementation behave like the model with the AS-RELEASED re-queue?
    coded = {}
    if mism:
        try:
            sub = mism[:250]
            coded = dict(zip(sub, model_eval(ctx, [cases[i] for i in sub], "Coded")))
        except Exception as e:  # noqa: BLE001
            ctx.notes.append(f"as-coded model evaluation failed: {str(e)[-300:]}")
    agree_cod = sum(1 for i, v in coded.items() if v == impl[i].get("res", impl[i]))
    for i, (case, o) in enumerate(zip(cases, impl)):
        res = o.get("res", o)
        exp = expected_of(case)
        if res != exp:
            spec_bad += 1
            report_spec(case, res, exp, "random (CFG, schedule) pair; pops=" + str(o.get("pops")),
                        {"model_with_as_released_requeue_gives_the_same": (coded[i] == res) if i in coded else None})
    # was the schedule really injected?  (a refactor of the work list can defeat the rebinding
    # of `set` / `dict`; then only the implementation's own deterministic order is exercised)
    inj = {"backward": [0, 0], "forward": [0, 0]}
    for case, o in zip(cases, impl):
        if case["kind"] in ("live", "analyze"):
            inj["backward"][1] += 1
            inj["backward"][0] += 1 if o.get("pops") else 0
        if case["kind"] in ("ass", "analyze"):
            inj["forward"][1] += 1
            inj["forward"][0] += 1 if (o.get("pops2") if case["kind"] == "analyze" else o.get("pops")) else 0
    for d, (a, b) in inj.items():
        if a < b:
            ctx.notes.append(f"SCHEDULE INJECTION INEFFECTIVE for the {d} analysis in {b - a} of {b} cases: the harness "
                             f"could not choose the pop order there; those cases exercise only the implementation's own order")
    injected_ok = sum(1 for case, o in zip(cases, impl) if o.get("consulted", 0) > 0)
    # a model/implementation difference on a case where the implementation meets the
    # specification is a broken tie (wrong model or harness), reported as such
    if model_rep is not None:
        for i in mism:
            res = impl[i].get("res", impl[i])
            if res == expected_of(cases[i]):
                ctx.report("model-mismatch:" + canon(cases[i]) + str(cases[i]["sched"]), "correspondence",
                           "Analysis.v run_with vs real analysis", {"case": cases[i], "impl": res, "model": model_rep[i]})
                break
    else:
        ctx.report("model-eval", "correspondence", "Analysis.v could not be evaluated",
                   {"notes": ctx.notes}, found_input=False)

    # ---- 2b. statement level: real statements through BB.compute_variable_stats + CFG.analyze
    n_st = 500 if ctx.quick else 5000
    st_cases = [rand_stmts_case(r) for _ in range(n_st)]
    st_impl = impl_batch(ctx, "run", st_cases)
    st_bad = 0
    compound = 0
    for case, o in zip(st_cases, st_impl):
        res = o.get("res", o)
        exp = spec_stmts.expected(case)
        compound += 1 if any(("," in s.split("=")[0] and "=" in s) for s in "\n".join(case["src"]).split("\n")) else 0
        if res != exp:
            st_bad += 1
            bad_blocks = []
            if isinstance(res, list) and len(res) == 4:
                bad_blocks = [{"block": i, "statements": case["src"][i], "branch_pred": case["pred"][i],
                               "used_assigned_by_real_code": res[3][i], "used_assigned_by_evaluation_order": exp[3][i]}
                              for i in range(len(exp[3])) if res[3][i] != exp[3][i]]
            report_spec(case, res, exp, "statement-level case (real statements -> compute_variable_stats -> CFG.analyze); pops=" + str(o.get("pops")),
                        {"blocks_whose_use_def_sets_differ": bad_blocks,
                         "result_format": "[live, def, maybe, [[used, assigned] per block]]; variable v<i> is written i"})
    timing["stmts"] = round(time.time() - t0, 1)

    # ---- 3. failing-input search: small CFGs x every pop order
    small = list(small_space(2, ["live0", "live1", "liveR", "ass0", "ass1", "ass2", "an"]))
    if ctx.quick:
        small = small[r.randrange(3)::3]
    exhaustive2 = 0 if ctx.quick else len(small)
    if ctx.quick:
        small += list(small_space(3, ["live0", "ass0"], r, 1))[::11]
        small += [dict(rand_case(r, nmax=5, nvars=2), sched=[]) for _ in range(300)]
    else:
        small += list(small_space(3, ["live0", "live1", "ass0", "ass2"], r, 2))
        small += [dict(rand_case(r, nmax=6, nvars=2), sched=[]) for _ in range(3000)]
    timing["spec_random"] = round(time.time() - t0, 1)
    bad_small = check_explored(small, "search")
    timing["search"] = round(time.time() - t0, 1)

    # ---- 4. documented deviation from the literal wording (borrowed variable on an idle cycle)
    borrow = {"kind": "analyze", "succ": [[2], [], [2, 3], [1]], "dsucc": [[], [], [], []],
              "use": [[], [], [], []], "def": [[], [], [], [0]], "D0": [0], "M0": [0], "inout": [0], "sched": []}
    bo = impl_batch(ctx, "run", [borrow])[0].get("res")
    use1 = [list(u) for u in borrow["use"]]
    use1[1] = [0]
    plain = spec_paths.plain_wording_live(borrow, incl=True, use=use1)
    if bo is not None and bo[0] != plain:
        ctx.report(KNOWN_BORROW_KEY, "counterexample", "live_plain_wording_refuted_for_borrowed (coq/C09/Props.v)",
                   {"case": borrow, "live_before_real_code": bo[0], "read_on_some_path_before_reassigned": plain,
                    "replay": replay_text(borrow, "run")})

    # ---- proofs
    if not info["ok"]:
        if not ctx.violations:
            ctx.report("proof-broken:" + str(info["failed"]), "proof-broken", str(info["failed"]),
                       {"coq_error": vlib.CoqResult(False, info["log"]).error_excerpt(),
                        "searched": {"random_pairs": len(cases), "explored_cases": explored_cases}}, found_input=False)

    allc = corpus + cases + small + st_cases
    distinct = {canon(c) for c in allc if nontrivial(c)}
    hist = {}
    for c in allc:
        key = f"{c['kind']}/n={len(c['succ'])}/dummy={'y' if any(c['dsucc']) else 'n'}"
        hist[key] = hist.get(key, 0) + 1
    cov = proof_coverage(
        info, "make -f Makefile.C09 C09/Props.vo && coqc C09/Props.v (Print Assumptions)",
        ["Coq 8.16.1 kernel; vm_compute evaluates the model in the correspondence files and in the two refutation witnesses",
         "hand-written model coq/C09/Analysis.v of BackwardAnalysis.run/LivenessAnalysis, ForwardAnalysis.run/AssignmentAnalysis (include_unreachable=True only) and CFG.analyze, tied to the code by differential execution only (no translator)",
         "props/C09/impl_analysis.py: the injected work-list classes (module globals `set` and `dict` of analysis.py; evidence key schedule_injected says in how many cases the harness really chose the pops), the frame inspection used to memoise explored states, AST statements built to make compute_variable_stats yield given use/def sets",
         "props/C09/spec_paths.py: brute-force path specification (for initial-set variables: 'path to a use or idle walk of n edges', for maybe_ass_before_entry variables: 'assigning path or backward walk of n edges' -- exactly the forms of live_char_initial_nwalk / maybe_char_initial_nwalk)",
         "props/C09/spec_stmts.py: reading of Python's evaluation order inside a statement (value, then targets left to right; subscript/attribute targets only read)",
         "not modelled: the witness block stored in the liveness dict (C10), ForwardAnalysis with include_unreachable=False (unused in /repo), VariableVisitor"],
        evaluations=len(cases) + len(st_cases) + n_explore_runs, statement_level_cases=len(st_cases), statement_level_cases_with_compound_targets=compound, statement_level_disagreements=st_bad, distinct_nontrivial=len(distinct),
        rule="random: seeded CFGs of 2..6 blocks (sparse/dense/chain, dummy edges, duplicate edges, self loops, unreachable blocks), 3-4 variables, kinds live/ass/analyze, random schedule (rank of the popped block); search: ALL graphs on 2 blocks x all use/def patterns x 7 configurations, a slice of all graphs on 3 blocks, random CFGs of <=5-6 blocks, each under EVERY pop order (state-graph exploration of the real loop); non-trivial = at least one dummy edge or a cycle; distinct = by CFG+sets+configuration (schedule ignored)",
        traces_validated_against_impl=min(agree_rep, injected_ok), schedule_injected={k: f"{v[0]}/{v[1]} cases" for k, v in inj.items()}, model_vs_impl_cases=len(cases) if model_rep is not None else 0,
        model_repaired_agrees=agree_rep, model_mismatches=len(mism), mismatches_explained_by_as_released_requeue=agree_cod,
        spec_vs_impl_random_disagreements=spec_bad, explored_cases=explored_cases, explored_complete_runs=n_explore_runs,
        explored_states=n_states, explored_disagreements=bad_small + bad_corpus, exhaustive_2_block_cases=exhaustive2,
        corpus_cases=len(corpus), input_histogram=dict(sorted(hist.items())),
        samples=[{"case": cases[j], "impl": impl[j], "model": None if model_rep is None else model_rep[j]} for j in (0, len(cases) // 2)]
                + [{"explored_case": small[len(small) // 2]}],
        cumulative_seconds=timing, notes=ctx.notes)
    return ctx.finish(LEVEL, cov, [
        "the Coq model is tied to analysis.py/cfg.py by differential execution under shared schedules, not by translation",
        "predecessor lists of every Python CFG are the inverse of its successor lists (asserted per case by the harness)",
        "theorems are about the repaired re-queue policy (props/C09/fix-1.patch)"])
