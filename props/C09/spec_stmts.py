"""Statement-level half of the path specification: the read / write EVENTS of a block in
Python's evaluation order, written from the language reference, NOT from cfg/bb.py.

  assignment  `t1 = t2 = value`: value is evaluated first, then the targets left to right;
  a tuple/list target assigns its elements left to right; a starred element is its inner
  target; `a[i] = ..` reads a, then i (nothing is bound); `o.f = ..` reads o; a name is bound.
  `x op= e`: x is read, e is read, x is bound (subscript/attribute targets: reads only).
  `x: T = e`: e is read, x is bound (the annotation is a type, not a read).
  expression statement / return / branch predicate: reads.

A block's use set = names whose FIRST event in the block is a read; its def set = names with a
write event.  `to_sets(case)` turns a "stmts" case (source text per block) into the use/def
case that spec_paths.analyze solves over paths."""
import ast


def reads(e):
    return [("r", n.id) for n in ast.walk(e) if isinstance(n, ast.Name)]


def target_events(t):
    if isinstance(t, ast.Name):
        return [("w", t.id)]
    if isinstance(t, (ast.Tuple, ast.List)):
        return [ev for elt in t.elts for ev in target_events(elt)]
    if isinstance(t, ast.Starred):
        return target_events(t.value)
    if isinstance(t, ast.Subscript):
        return reads(t.value) + reads(t.slice)
    if isinstance(t, ast.Attribute):
        return reads(t.value)
    raise NotImplementedError(ast.dump(t))


def stmt_events(s):
    if isinstance(s, ast.Assign):
        return reads(s.value) + [ev for t in s.targets for ev in target_events(t)]
    if isinstance(s, ast.AugAssign):
        if isinstance(s.target, ast.Name):
            return [("r", s.target.id)] + reads(s.value) + [("w", s.target.id)]
        return target_events(s.target) + reads(s.value)
    if isinstance(s, ast.AnnAssign):
        assert s.value is not None
        return reads(s.value) + target_events(s.target)
    if isinstance(s, ast.Expr):
        return reads(s.value)
    if isinstance(s, ast.Return):
        return reads(s.value) if s.value is not None else []
    raise NotImplementedError(ast.dump(s))


def block_events(src, pred):
    evs = [ev for s in ast.parse(src).body for ev in stmt_events(s)]
    if pred:
        evs += reads(ast.parse(pred, mode="eval").body)
    return evs


def use_def(evs):
    use, deff = [], []
    for kind, x in evs:
        if kind == "r" and x not in use and x not in deff:
            use.append(x)
        if kind == "w" and x not in deff:
            deff.append(x)
    return sorted(use), sorted(deff)


def to_sets(case):
    """use/def sets (variables v<i> -> i) per block from the statements' events."""
    use, deff = [], []
    for src, pred in zip(case["src"], case["pred"]):
        u, d = use_def(block_events(src, pred))
        use.append(sorted(int(x[1:]) for x in u))
        deff.append(sorted(int(x[1:]) for x in d))
    return dict(case, kind="analyze", use=use, **{"def": deff})


# ------------------------------------------------------------------ generator (seeded)
def gen_expr(r, names, depth=0):
    k = r.random()
    if depth > 1 or k < 0.45:
        return r.choice(names)
    if k < 0.55:
        return str(r.randint(0, 9))
    if k < 0.7:
        return f"{gen_expr(r, names, depth + 1)} + {gen_expr(r, names, depth + 1)}"
    if k < 0.82:
        return f"{r.choice(names)}[{gen_expr(r, names, depth + 1)}]"
    if k < 0.9:
        return f"{r.choice(names)}.f"
    return f"({gen_expr(r, names, depth + 1)}, {gen_expr(r, names, depth + 1)})"


def gen_target(r, names, depth=0, in_tuple=False):
    k = r.random()
    if depth > 1 or k < 0.35:
        return r.choice(names)
    if k < 0.6:
        return f"{r.choice(names)}[{gen_expr(r, names, 1)}]"
    if k < 0.7:
        return f"{r.choice(names)}.f"
    n = r.randint(2, 3)
    elts = [gen_target(r, names, depth + 1, True) for _ in range(n)]
    if r.random() < 0.2:
        elts[r.randrange(n)] = "*" + r.choice(names)
    if r.random() < 0.25:
        return "[" + ", ".join(elts) + "]"
    return "(" + ", ".join(elts) + ")"


def gen_stmt(r, names):
    k = r.random()
    if k < 0.55:
        tgts = [gen_target(r, names) for _ in range(1 if r.random() < 0.85 else 2)]
        return " = ".join(tgts) + " = " + gen_expr(r, names)
    if k < 0.7:
        t = r.choice([r.choice(names), f"{r.choice(names)}[{gen_expr(r, names, 1)}]", f"{r.choice(names)}.f"])
        return f"{t} {r.choice(['+', '-', '*'])}= {gen_expr(r, names)}"
    if k < 0.8:
        return f"{r.choice(names)}: int = {gen_expr(r, names)}"
    if k < 0.92:
        return gen_expr(r, names)
    return f"return {gen_expr(r, names)}"


def gen_block(r, names):
    return "\n".join(gen_stmt(r, names) for _ in range(r.choice([0, 1, 1, 2, 3])))


def expected(case):
    """[live, def, maybe, [[used, assigned] per block]] for a "stmts" case."""
    import spec_paths
    sets = to_sets(case)
    stats = [[sorted(set(u) | (set(case.get("inout", [])) if i == 1 else set())), d]
             for i, (u, d) in enumerate(zip(sets["use"], sets["def"]))]
    return spec_paths.analyze(sets) + [stats]
