"""Implementation side of the C07 correspondence.  stdin: JSON list of cases
  {"id": str, "src": <python module text>, "entry": [names of @guppy functions to compile],
   "funcs": [names of the defined functions to trace]}
For every case the module is written to the scratch directory, imported under repo_shim
(so the tree under test is the one in VERIF_REPO), the entry functions are compiled and
every requested FuncDefn is traced:

  outs   : for each function output, the value tree of the wire feeding it
  events : the non-structural nodes of the body in creation order (Call, ext ops), each with
           the value trees of its inputs

Value trees are serialised exactly like coq/C07/ModelSer.v does (list of naturals) except
that event names stay strings.  stdout: JSON {id: {"ok": bool, "funcs": {name: {...}}, "error": str}}."""
import importlib
import json
import os
import sys
import traceback

import repo_shim  # noqa: F401  (must be first)
from hugr import ops
from hugr import tys as ht
from hugr.hugr.node_port import InPort, OutPort

STRUCTURAL_EXT = {"arithmetic.conversions.itousize"}
# inserted after the fact for unconnected droppable outputs; not part of the write-back
IGNORED_EXT = {"tket.guppy.drop"}


class TraceError(Exception):
    pass


def ext_name(op):
    for f in ("op_def",):
        try:
            d = getattr(op, f)()
            try:
                return d.qualified_name()
            except Exception:  # noqa: BLE001
                return d.name
        except Exception:  # noqa: BLE001
            pass
    try:
        return f"{op.extension}.{op.op_name}"
    except Exception:  # noqa: BLE001
        return type(op).__name__


def is_tuple(t):
    if isinstance(t, ht.Tuple):
        return list(t.variant_rows[0]) if hasattr(t, "variant_rows") else list(t.tys)
    if isinstance(t, ht.Sum) and not isinstance(t, (ht.UnitSum,)) and len(getattr(t, "variant_rows", [])) == 1 \
            and type(t).__name__ in ("Tuple",):
        return list(t.variant_rows[0])
    return None


class Tracer:
    def __init__(self, h, func_node):
        self.h = h
        kids = list(h.children(func_node))
        cfgs = [k for k in kids if isinstance(h[k].op, ops.CFG)]
        if len(cfgs) > 1:
            raise TraceError("function body has several CFGs")
        if not cfgs:
            # a traced (@guppy.comptime) function: the dataflow graph sits directly in the FuncDefn
            self.block, self.out_offset = func_node, 0
        else:
            blocks = [k for k in h.children(cfgs[0]) if isinstance(h[k].op, ops.DataflowBlock)]
            if len(blocks) != 1:
                raise TraceError(f"{len(blocks)} dataflow blocks (tracer handles straight-line bodies only)")
            self.block, self.out_offset = blocks[0], 1
        bk = list(h.children(self.block))
        self.inp = next(k for k in bk if isinstance(h[k].op, ops.Input))
        self.out = next(k for k in bk if isinstance(h[k].op, ops.Output))
        self.events = []      # node order
        self.ev_index = {}
        for k in sorted(bk, key=lambda n: n.idx):
            op = h[k].op
            if self.kind(op) == "event":
                self.ev_index[k.idx] = len(self.events)
                self.events.append(k)
        self.memo = {}

    def kind(self, op):
        if isinstance(op, (ops.Input, ops.Output, ops.UnpackTuple, ops.MakeTuple, ops.Tag, ops.Const, ops.LoadConst)):
            return "structural"
        n = type(op).__name__
        if n in ("ExtOp", "Custom", "AsExtOp") or hasattr(op, "op_def"):
            nm = ext_name(op)
            return "structural" if nm in STRUCTURAL_EXT else ("ignored" if nm in IGNORED_EXT else "event")
        if isinstance(op, ops.Call):
            return "event"
        if n in ("LoadFunc",):
            return "structural"
        return "event"   # DFG, Conditional, ...: reported as an opaque event

    def expand(self, ty, mk, path):
        comps = is_tuple(ty)
        if comps is None:
            return mk(path)
        toks = [5, len(comps)]
        for i, c in enumerate(comps):
            toks += self.expand(c, mk, path + [i])
        return toks

    def src(self, node, port):
        ls = list(self.h.linked_ports(InPort(node, port)))
        if len(ls) != 1:
            raise TraceError(f"in-port {node.idx}.{port} has {len(ls)} sources")
        return ls[0]

    def tree_children(self, toks):
        """split a serialised VProd into its children token lists"""
        assert toks[0] == 5
        n, pos, out = toks[1], 2, []
        for _ in range(n):
            end = self.skip(toks, pos)
            out.append(toks[pos:end])
            pos = end
        return out

    def skip(self, toks, pos):
        t = toks[pos]
        if t == 0:
            return pos + 3 + toks[pos + 2]
        if t == 1:
            return pos + 4 + toks[pos + 3]
        if t in (2, 3):
            return pos + 2
        if t == 4:
            return pos + 1
        if t == 5:
            n, pos = toks[pos + 1], pos + 2
            for _ in range(n):
                pos = self.skip(toks, pos)
            return pos
        raise TraceError(f"bad token {t}")

    def term(self, op_: OutPort):
        key = (op_.node.idx, op_.offset)
        if key in self.memo:
            return self.memo[key]
        h, node, port = self.h, op_.node, op_.offset
        op = h[node].op
        ty = h.port_type(op_)
        if node == self.inp:
            r = self.expand(ty, lambda p: [0, port, len(p)] + p, [])
        elif isinstance(op, ops.UnpackTuple):
            t = self.term(self.src(node, 0))
            r = self.tree_children(t)[port] if t[0] == 5 else [4]
        elif isinstance(op, ops.MakeTuple):
            n = h.num_in_ports(node)
            comps = is_tuple(ty) or []
            r = [5, len(comps)]
            for i in range(len(comps)):
                r += self.term(self.src(node, i))
        elif isinstance(op, ops.LoadConst):
            c = h[self.src(node, 0).node].op
            v = getattr(getattr(c, "val", None), "v", 0)
            r = [3, v if isinstance(v, int) and 0 <= v < 1000 else 0]
        elif isinstance(op, ops.Const) or type(op).__name__ == "LoadFunc":
            r = [3, 0]
        elif self.kind(op) == "structural" and ext_name(op) in STRUCTURAL_EXT:
            # itousize: the index operand of borrow/return is the wire of the index value itself
            r = self.term(self.src(node, 0))
        elif self.kind(op) == "event":
            ev = self.ev_index[node.idx]
            r = self.expand(ty, lambda p: [1, ev, port, len(p)] + p, [])
        else:
            r = [3, 0]
        self.memo[key] = r
        return r

    def value_inputs(self, node):
        h = self.h
        out = []
        for ip in range(h.num_in_ports(node)):
            ls = list(h.linked_ports(InPort(node, ip)))
            if len(ls) != 1:
                continue
            try:
                ty = h.port_type(ls[0])
            except Exception:  # noqa: BLE001
                ty = None
            if ty is None or isinstance(ty, (ht.FunctionType, ht.PolyFuncType)):
                continue   # the static function edge of a Call
            if isinstance(h[ls[0].node].op, (ops.FuncDefn, ops.FuncDecl)):
                continue
            out.append(self.term(ls[0]))
        return out

    def run(self):
        h = self.h
        outs = [self.term(self.src(self.out, i)) for i in range(self.out_offset, h.num_in_ports(self.out))]
        evs = []
        for k in self.events:
            op = h[k].op
            if isinstance(op, ops.Call):
                callee = None
                for ip in range(h.num_in_ports(k) - 1, -1, -1):
                    ls = list(h.linked_ports(InPort(k, ip)))
                    if len(ls) == 1 and isinstance(h[ls[0].node].op, (ops.FuncDefn, ops.FuncDecl)):
                        callee = h[ls[0].node].op.f_name
                        break
                name = f"call:{callee}"
            else:
                name = ext_name(op) if hasattr(op, "op_def") or type(op).__name__ in ("ExtOp", "Custom") else type(op).__name__
            evs.append([name, self.value_inputs(k)])
        return {"outs": outs, "events": evs}



class DepTracer:
    """Backward dependency analysis of one FuncDefn through nested containers (single
    dataflow block; DFG, Conditional/Case, TailLoop inside).  The value of a wire is a tree
    (tuple structure followed through UnpackTuple / MakeTuple) whose leaves are sets of atoms
      ("i", input port, path)        a leaf of a function input
      ("o", node idx, port, path)    a leaf of an output of a non-structural node
    a node's output leaf carries its own atom plus everything any of its inputs depends on.
    TailLoop inputs are solved by fixpoint iteration (first iteration's value joined with the
    body's output)."""

    def __init__(self, h, func_node):
        self.h, self.func = h, func_node
        kids = list(h.children(func_node))
        cfgs = [k for k in kids if isinstance(h[k].op, ops.CFG)]
        if len(cfgs) != 1:
            raise TraceError("function body is not a single CFG")
        blocks = [k for k in h.children(cfgs[0]) if isinstance(h[k].op, ops.DataflowBlock)]
        if len(blocks) != 1:
            raise TraceError(f"{len(blocks)} dataflow blocks")
        self.block = blocks[0]
        self.memo, self.loop_in = {}, {}

    # ---- trees
    def expand(self, ty, mk, path=()):
        comps = is_tuple(ty)
        if comps is None:
            return ("s", frozenset(mk(path)))
        return ("p", tuple(self.expand(c, mk, path + (i,)) for i, c in enumerate(comps)))

    def flat(self, t):
        if t[0] == "s":
            return t[1]
        out = frozenset()
        for c in t[1]:
            out |= self.flat(c)
        return out

    def join(self, a, b, ty):
        if a[0] == "p" and b[0] == "p" and len(a[1]) == len(b[1]):
            comps = is_tuple(ty) or [None] * len(a[1])
            return ("p", tuple(self.join(x, y, c) for x, y, c in zip(a[1], b[1], comps)))
        if a[0] == "s" and b[0] == "s":
            return ("s", a[1] | b[1])
        f = self.flat(a) | self.flat(b)
        return self.expand(ty, lambda p: f) if ty is not None else ("s", f)

    def io(self, node):
        ch = list(self.h.children(node))
        return (next(k for k in ch if isinstance(self.h[k].op, ops.Input)),
                next(k for k in ch if isinstance(self.h[k].op, ops.Output)))

    def src(self, node, port):
        ls = list(self.h.linked_ports(InPort(node, port)))
        if len(ls) != 1:
            raise TraceError(f"in-port {node.idx}.{port} has {len(ls)} sources")
        return ls[0]

    def inval(self, node, port):
        return self.val(self.src(node, port))

    def value_in_ports(self, node):
        h, out = self.h, []
        for ip in range(h.num_in_ports(node)):
            ls = list(h.linked_ports(InPort(node, ip)))
            if len(ls) != 1 or isinstance(h[ls[0].node].op, (ops.FuncDefn, ops.FuncDecl)):
                continue
            try:
                ty = h.port_type(ls[0])
            except Exception:  # noqa: BLE001
                continue
            if ty is None or isinstance(ty, (ht.FunctionType, ht.PolyFuncType)):
                continue
            out.append(ip)
        return out

    def val(self, op_):
        key = (op_.node.idx, op_.offset)
        if key in self.memo:
            return self.memo[key]
        h, node, port = self.h, op_.node, op_.offset
        op, ty = h[node].op, h.port_type(op_)
        if isinstance(op, ops.Input):
            par = h[node].parent
            pop = h[par].op
            if par == self.block:
                r = self.expand(ty, lambda p: [("i", port, p)])
            elif isinstance(pop, ops.Case):
                cond = h[par].parent
                cases = [k for k in h.children(cond) if isinstance(h[k].op, ops.Case)]
                row = list(h[cond].op.sum_ty.variant_rows[cases.index(par)])
                if port < len(row):
                    f = frozenset(("d" + a[0].lstrip("d"),) + a[1:] for a in self.flat(self.inval(cond, 0)))
                    r = self.expand(ty, lambda p: f)
                else:
                    r = self.inval(cond, port - len(row) + 1)
            elif isinstance(pop, ops.TailLoop):
                r = self.loop_in[par.idx][port]
            elif isinstance(pop, ops.DFG):
                r = self.inval(par, port)
            else:
                raise TraceError(f"input of unsupported container {type(pop).__name__}")
        elif isinstance(op, ops.UnpackTuple):
            t = self.inval(node, 0)
            r = t[1][port] if t[0] == "p" and port < len(t[1]) else self.expand(ty, lambda p, f=self.flat(t): f)
        elif isinstance(op, ops.MakeTuple):
            comps = is_tuple(ty) or []
            r = ("p", tuple(self.inval(node, i) for i in range(len(comps))))
        elif isinstance(op, ops.Conditional):
            cases = [k for k in h.children(node) if isinstance(h[k].op, ops.Case)]
            r = None
            for c in cases:
                v = self.inval(self.io(c)[1], port)
                r = v if r is None else self.join(r, v, ty)
        elif isinstance(op, ops.DFG):
            r = self.inval(self.io(node)[1], port)
        elif isinstance(op, ops.TailLoop):
            self.solve_loop(node)
            r = self.memo[key]
        else:
            # atoms that pass through an operation become "derived" ("di"/"do"): only wires that reach
            # a point through tuple (un)packing and container boundaries keep their direct atom
            f = frozenset()
            for ip in self.value_in_ports(node):
                f |= frozenset(("d" + a[0].lstrip("d"),) + a[1:] for a in self.flat(self.inval(node, ip)))
            r = self.expand(ty, lambda p: f | {("o", node.idx, port, p)})
        self.memo[key] = r
        return r

    def solve_loop(self, node):
        h, op = self.h, self.h[node].op
        nj = len(op.just_inputs)
        n_in = h.num_in_ports(node)
        ins = self.value_in_ports(node)
        init = {j: self.inval(node, j) for j in ins}
        tys = {j: h.port_type(self.src(node, j)) for j in ins}
        _, bout = self.io(node)
        inside = set()

        def walk(n):
            for c in h.children(n):
                inside.add(c.idx)
                walk(c)
        walk(node)
        assume = dict(init)
        for _ in range(8):
            self.loop_in[node.idx] = assume
            for k in [k for k in self.memo if k[0] in inside]:
                del self.memo[k]
            ctl = frozenset(("d" + a[0].lstrip("d"),) + a[1:] for a in self.flat(self.inval(bout, 0)))
            new = {}
            for j in ins:
                if j < nj:
                    new[j] = self.join(init[j], self.expand(tys[j], lambda p: ctl), tys[j])
                else:
                    new[j] = self.join(init[j], self.inval(bout, 1 + j - nj), tys[j])
            if new == assume:
                break
            assume = new
        self.loop_in[node.idx] = assume
        n_rest = len(ins) - nj
        n_out = h.num_out_ports(node)
        n_just_out = n_out - n_rest
        for o in range(n_out):
            try:
                ty = h.port_type(OutPort(node, o))
            except Exception:  # noqa: BLE001
                continue
            if o < n_just_out:
                v = self.expand(ty, lambda p: ctl)
            else:
                v = self.inval(bout, 1 + o - n_just_out)
            self.memo[(node.idx, o)] = v

    def enc(self, t):
        if t[0] == "p":
            return {"p": [self.enc(c) for c in t[1]]}
        return {"s": sorted([list(a[:-1]) + [list(a[-1])] for a in t[1]], key=str)}

    def run(self):
        h = self.h
        _, bout = self.io(self.block)
        outs = [self.enc(self.inval(bout, i)) for i in range(1, h.num_in_ports(bout))]
        calls = []

        def walk(n, in_loop):
            for c in h.children(n):
                op = h[c].op
                if isinstance(op, ops.Call):
                    callee = None
                    for ip in range(h.num_in_ports(c) - 1, -1, -1):
                        ls = list(h.linked_ports(InPort(c, ip)))
                        if len(ls) == 1 and isinstance(h[ls[0].node].op, (ops.FuncDefn, ops.FuncDecl)):
                            callee = h[ls[0].node].op.f_name
                            break
                    calls.append({"idx": c.idx, "callee": callee, "in_loop": in_loop,
                                  "inputs": [self.enc(self.inval(c, ip)) for ip in self.value_in_ports(c)]})
                walk(c, in_loop or isinstance(op, ops.TailLoop))
        walk(self.block, False)
        return {"dep_outs": outs, "calls": calls}


def run_case(case, scratch):
    mod_name = "c07_" + case["id"].replace("-", "_").replace(":", "_")
    path = os.path.join(scratch, mod_name + ".py")
    with open(path, "w") as f:
        f.write(case["src"])
    if scratch not in sys.path:
        sys.path.insert(0, scratch)
    res = {"ok": True, "funcs": {}}
    try:
        m = importlib.import_module(mod_name)
        if case.get("mode") == "verdict":
            # only ask the checker: accepted, or rejected with which error class
            from guppylang_internals.error import GuppyError
            for fn in case["funcs"]:
                try:
                    getattr(m, fn).check()
                    res["funcs"][fn] = {"verdict": "accepted"}
                except GuppyError as e:
                    res["funcs"][fn] = {"verdict": "rejected:" + type(e.error).__name__}
            if all(v["verdict"] != "accepted" for v in res["funcs"].values()):
                return res
        nodes = {}
        for e in case["entry"]:
            pkg = getattr(m, e).compile_function()
            h = pkg.modules[0]
            for n in h.children(h.module_root):
                op = h[n].op
                if isinstance(op, ops.FuncDefn):
                    nodes.setdefault(op.f_name, (h, n))
        for fn in case["funcs"]:
            cands = [k for k in nodes if k == fn or k.startswith(fn + "$") or k.split(".")[-1] == fn]
            if not cands:
                res["funcs"].setdefault(fn, {})["error"] = f"no FuncDefn for {fn}; have {sorted(nodes)}"
                continue
            h, n = nodes[cands[0]]
            try:
                if case.get("mode") == "deps":
                    res["funcs"].setdefault(fn, {}).update(DepTracer(h, n).run())
                    continue
                res["funcs"].setdefault(fn, {}).update(Tracer(h, n).run())
            except TraceError as e:
                res["funcs"].setdefault(fn, {})["error"] = f"trace: {e}"
    except Exception as e:  # noqa: BLE001
        inner = getattr(e, "error", None)
        keep = res["funcs"] if case.get("mode") == "verdict" else {}
        res = {"ok": False, "error": f"{type(e).__name__}: {str(e)[:600]}",
               "error_class": type(inner).__name__ if inner is not None else type(e).__name__,
               "funcs": keep,
               "tb": traceback.format_exc()[-1500:] if os.environ.get("C07_TB") else ""}
    return res


def main():
    cases = json.load(sys.stdin)
    scratch = os.getcwd()
    out = {}
    # keep compiler diagnostics out of stdout
    real_stdout = sys.stdout
    sys.stdout = sys.stderr
    for c in cases:
        out[c["id"]] = run_case(c, scratch)
    sys.stdout = real_stdout
    json.dump(out, sys.stdout)


if __name__ == "__main__":
    main()
