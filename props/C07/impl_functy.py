"""Implementation side of the C07 translator validation.  stdin: JSON list of
{"inputs": [[type, flag]...], "output": type}.  For each case build the real FunctionType
and report [ins, outs, call_args, inout_names, call_args_with_extra_arg] with types as the
numbers of check.TYNUM; option results as [1, ...] / [0] (ValueError from zip strict)."""
import json
import sys

import repo_shim  # noqa: F401
from guppylang_internals.checker.func_checker import inout_var_names
from guppylang_internals.compiler.expr_compiler import ExprCompiler
from guppylang_internals.std._internal.compiler.tket_bool import OpaqueBool  # noqa: F401
from guppylang_internals.tys.builtin import array_type, bool_type, float_type, int_type
from guppylang_internals.tys.ty import FuncInput, FunctionType, InputFlags, NoneType, TupleType

try:
    from guppylang_internals.std._internal.util import qubit_ty  # type: ignore
except Exception:  # noqa: BLE001
    qubit_ty = None
if qubit_ty is None:
    from guppylang.std.quantum import qubit
    from guppylang_internals.engine import ENGINE
    from guppylang_internals.tys.ty import OpaqueType  # noqa: F401
    defn = qubit._def if hasattr(qubit, "_def") else None
    qdef = ENGINE.get_checked(qubit.id) if hasattr(qubit, "id") else None
    qubit_ty = qdef.check_instantiate([]) if qdef is not None else None

TY = {"qubit": qubit_ty, "int": int_type(), "bool": bool_type(), "float": float_type(), "none": NoneType(),
      "array_q3": array_type(qubit_ty, 3), "tuple_qq": TupleType([qubit_ty, qubit_ty]),
      "tuple_iq": TupleType([int_type(), qubit_ty]), "tuple_iii": TupleType([int_type()] * 3)}
NUM = {"qubit": 1, "int": 2, "array_q3": 3, "tuple_qq": 4, "none": 5, "bool": 6, "float": 7, "tuple_iq": 8, "tuple_iii": 9}
FLAG = {"inout": InputFlags.Inout, "owned": InputFlags.Owned, "none": InputFlags.NoFlags, "comptime": InputFlags.Comptime}


class Ctx:  # ToHugrContext stand-in: the types used here are closed
    def type_var_to_hugr(self, var):
        raise AssertionError
    def const_var_to_hugr(self, var):
        raise AssertionError


ctx = Ctx()
H2N = [(t.to_hugr(ctx), NUM[k]) for k, t in TY.items()]


def num(h):
    for t, n in H2N:
        if t == h:
            return n
    return -1


ec = ExprCompiler.__new__(ExprCompiler)
ec.visit = lambda a: a
out = []
for c in json.load(sys.stdin):
    inputs = [FuncInput(TY[t], FLAG[f], name=f"p{i}") for i, (t, f) in enumerate(c["inputs"])]
    # comptime inputs need matching const params only for instantiation; the row layout ignores them
    fty = FunctionType.__new__(FunctionType)
    object.__setattr__(fty, "inputs", inputs)
    object.__setattr__(fty, "output", TY[c["output"]])
    object.__setattr__(fty, "params", [])
    object.__setattr__(fty, "comptime_args", [])
    h = fty._to_hugr_function_type(ctx)
    args = [100 + i for i in range(len(inputs))]
    def opt(f):
        try:
            return [1] + list(f())
        except ValueError:
            return [0]
    out.append([[num(t) for t in h.input], [num(t) for t in h.output],
                opt(lambda: ec._compile_call_args(args, fty)),
                opt(lambda: inout_var_names(fty)) if False else opt(lambda: [100 + int(x[1:]) for x in inout_var_names(fty)]),
                opt(lambda: ec._compile_call_args([999] + args, fty))])
json.dump(out, sys.stdout)
