"""C07 — borrowed arguments reflect the callee's in-place updates.

Tie T: coq/C07/GenFuncTy.v is regenerated from FunctionType._to_hugr_function_type,
  ExprCompiler._compile_call_args, inout_var_names, insert_return_vars and the four sites
  that split a call's outputs; the alignment theorems of Props.v are re-checked against it;
  the generated definitions are evaluated in Coq and compared with the real functions.
Tie X: the hand-written model of the write-back (ModelCall.v / ModelDfc.v) is evaluated in
  Coq on generated caller/callee programs and compared with the HUGR the tree under test
  compiles for the same programs: which call output port (through which pack/unpack and
  borrow/return ops) feeds which place's next use and the function's own outputs."""
import json
from pathlib import Path

import vlib
from vlib import proof_coverage

LEVEL = "proof"
HERE = Path(__file__).resolve().parent

PRELUDE = ("From Coq Require Import List Bool Arith.\nFrom V.C07 Require Import ModelBase ModelCall ModelDfc ModelSer GenFuncTy.\n"
           "Import ListNotations.\n")
# the write-back model does not depend on the generated file: it must stay evaluable when the
# translator fails closed, so that the failing-input search can still run
PRELUDE_WB = ("From Coq Require Import List Bool Arith.\nFrom V.C07 Require Import ModelBase ModelCall ModelDfc ModelSer.\n"
              "Import ListNotations.\n")


def generate(ctx):
    import tr_functy
    ctx.gen("GenFuncTy.v", tr_functy.translate(ctx))


# ---------------------------------------------------------------------------------------
# translator validation: generated fty_ins / fty_outs / call_args / inout_names vs the code


def tv_cases(r, n):
    tys = ["qubit", "int", "array_q3", "tuple_qq", "none", "bool", "float"]
    cases = []
    for _ in range(n):
        k = r.randrange(0, 6)
        inputs = []
        for _ in range(k):
            t = r.choice(tys[:4] + tys[5:])
            fl = r.choice(["inout", "inout", "owned", "none", "comptime"])
            if fl == "comptime":
                t = r.choice(["int", "bool"])
            inputs.append([t, fl])
        out = r.choice(["none", "int", "qubit", "tuple_qq", "tuple_iq", "tuple_iii"])
        cases.append({"inputs": inputs, "output": out})
    return cases


TYNUM = {"qubit": 1, "int": 2, "array_q3": 3, "tuple_qq": 4, "none": 5, "bool": 6, "float": 7, "tuple_iq": 8, "tuple_iii": 9}
ROW = {"none": [], "tuple_qq": [1, 1], "tuple_iq": [2, 1], "tuple_iii": [2, 2, 2]}


def tv_coq(cases):
    row = " | ".join(f"{TYNUM[k]} => [{'; '.join(map(str, v))}]" for k, v in ROW.items())
    lines = [PRELUDE, f"Definition row (t : nat) : list nat := match t with {row} | _ => [t] end.",
             "Definition o2l (o : option (list nat)) : list nat := match o with Some l => 1 :: l | None => [0] end.",
             "Definition cases : list (list (list nat)) := ["]
    items = []
    for c in cases:
        ins = "; ".join(
            f"mkInput {TYNUM[t]} (mkFlags {'true' if f == 'inout' else 'false'} {'true' if f == 'owned' else 'false'} {'true' if f == 'comptime' else 'false'})"
            for t, f in c["inputs"])
        n = len(c["inputs"])
        args = "; ".join(str(100 + i) for i in range(n))
        items.append(f"[fty_ins nat nat (fun t => t) [{ins}]; fty_outs nat nat (fun t => t) row [{ins}] {TYNUM[c['output']]}; "
                     f"o2l (call_args nat nat nat (fun a => a) [{args}] [{ins}]); o2l (inout_names nat nat [{ins}] [{args}]); "
                     f"o2l (call_args nat nat nat (fun a => a) (999 :: [{args}]) [{ins}])]")
    lines.append(";\n".join(items) + "].")
    lines.append("Eval vm_compute in cases.")
    return "\n".join(lines)


# ---------------------------------------------------------------------------------------
# correspondence of the write-back


def model_eval(ctx, jobs):
    """jobs: list of (key, coq term) -> {key: list of token lists}"""
    out = {}
    chunks = [jobs[i:i + 120] for i in range(0, len(jobs), 120)]
    files = {}
    for ci, ch in enumerate(chunks):
        body = [PRELUDE_WB, "Definition results : list (list (list nat)) := ["]
        body.append(";\n".join(t for _, t in ch) + "].")
        body.append("Eval vm_compute in results.")
        files[f"wb{ci}"] = "\n".join(body)
    res = ctx.coq_eval_many(files)
    for ci, ch in enumerate(chunks):
        vals = vlib.parse_coq_values(res[f"wb{ci}"])[0]
        for (k, _), v in zip(ch, vals):
            out[k] = v
    return out


def skip_tok(toks, pos):
    t = toks[pos]
    if t == 0:
        return pos + 3 + toks[pos + 2]
    if t == 1:
        return pos + 4 + toks[pos + 3]
    if t in (2, 3):
        return pos + 2
    if t == 4:
        return pos + 1
    n, pos = toks[pos + 1], pos + 2
    for _ in range(n):
        pos = skip_tok(toks, pos)
    return pos


def norm_model(rows):
    """model rows -> {'outs': [...], 'events': [[name, [ins...]]...]} with item ids reduced"""
    if rows == [[9]]:
        return None

    def fix_idx(toks):
        toks, pos = list(toks), 0
        while pos < len(toks):
            t = toks[pos]
            if t == 2:
                pos += 2
            elif t == 0:
                pos += 3 + toks[pos + 2]
            elif t == 1:
                pos += 4 + toks[pos + 3]
            elif t == 3:
                pos += 2
            elif t == 4:
                pos += 1
            else:
                pos += 2
        return toks
    _, n_out, n_ev = rows[0]
    outs = [fix_idx(x) for x in rows[1:1 + n_out]]
    evs = []
    for e in rows[1 + n_out:1 + n_out + n_ev]:
        name, n_in, rest = e[0], e[1], fix_idx(e[2:])
        ins, pos = [], 0
        for _ in range(n_in):
            end = skip_tok(rest, pos)
            ins.append(rest[pos:end])
            pos = end
        evs.append([name, ins])
    return {"outs": outs, "events": evs}


def norm_impl(tr, callee_ids):
    import gen_cases
    evs = []
    for name, ins in tr["events"]:
        if name in gen_cases.EV:
            n = gen_cases.EV[name]
        elif name.startswith("call:"):
            base = name[5:].split(".")[-1]
            cands = [v for k, v in callee_ids.items() if base == k or base.startswith(k + "$") or base.startswith(k + "[") or base.startswith(k + "<")]
            n = cands[0] if cands else name
        else:
            n = name
        evs.append([n, ins])
    return {"outs": tr["outs"], "events": evs}


def pretty(toks):
    def go(pos):
        t = toks[pos]
        if t == 0:
            n = toks[pos + 2]
            return f"in{toks[pos + 1]}{''.join('.%d' % i for i in toks[pos + 3:pos + 3 + n])}", pos + 3 + n
        if t == 1:
            n = toks[pos + 3]
            return f"ev{toks[pos + 1]}.out{toks[pos + 2]}{''.join('.%d' % i for i in toks[pos + 4:pos + 4 + n])}", pos + 4 + n
        if t == 2:
            return f"idx(in{toks[pos + 1]})", pos + 2
        if t == 3:
            return f"const{toks[pos + 1]}", pos + 2
        if t == 4:
            return "BAD", pos + 1
        n, pos = toks[pos + 1], pos + 2
        parts = []
        for _ in range(n):
            s, pos = go(pos)
            parts.append(s)
        return "(" + ", ".join(parts) + ")", pos
    try:
        return go(0)[0]
    except Exception:  # noqa: BLE001
        return str(toks)


def pretty_tr(t):
    if t is None:
        return None
    return {"outs": [pretty(o) for o in t["outs"]], "events": [[n, [pretty(i) for i in ins]] for n, ins in t["events"]]}


def load_corpus():
    out = []
    for p in sorted((HERE / "corpus").glob("*.json")):
        c = json.loads(p.read_text())
        c["id"] = "corpus-" + p.stem
        out.append(c)
    return out


def replay_cmd(case_id):
    return (f"cd /verif && ./check C07   # case {case_id}; or write the `src` below to a file next to "
            "/verif/tools/repo_shim.py on PYTHONPATH and run `main.compile_function()` with "
            "PYTHONPATH=/verif/tools:<repo>/guppylang/src:<repo>/guppylang-internals/src /venv/bin/python, "
            "then follow the wires from the Call node's outputs")


def run(ctx):
    import gen_cases
    notes = ctx.notes
    tr_err = None
    try:
        generate(ctx)
    except vlib.TranslatorError as e:
        # fail closed: the theorems are no longer about the current source.  Keep going: the
        # hand-written model and the implementation can still be compared to find a concrete input.
        tr_err = str(e)
        notes.append(f"translator failed closed: {tr_err}")
    info = ctx.coq_props()
    if tr_err:
        info.update(ok=False, failed=f"translator: {tr_err}", discharged=0, log=info.get("log", "") + "\nError: " + tr_err)
    # ---- translator validation ------------------------------------------------------
    r = vlib.rng(ctx.seed, "C07-tv")
    tvc = tv_cases(r, 150 if ctx.quick else 450)
    tv_impl = json.loads(ctx.impl("impl_functy.py", tvc))
    tv_dis = 0
    gen_ok = (vlib.COQ / "C07" / "GenFuncTy.vo").exists() and not tr_err
    tv_model = None
    if gen_ok:
        try:
            tv_model = vlib.parse_coq_values(ctx.coq_eval("tv", tv_coq(tvc)))[0]
        except RuntimeError as e:
            notes.append(f"translator validation could not be evaluated: {str(e)[-300:]}")
    if tv_model is not None:
        for c, i, m in zip(tvc, tv_impl, tv_model):
            if i != m:
                tv_dis += 1
                if tv_dis <= 3:
                    ctx.report(f"tv:{json.dumps(c, sort_keys=True)}", "correspondence",
                               "GenFuncTy.v vs FunctionType._to_hugr_function_type/_compile_call_args/inout_var_names",
                               {"case": c, "implementation": i, "generated_definitions": m,
                                "encoding": "[ins, outs, call_args, inout_names, call_args with one extra argument]; types as numbers " + json.dumps(TYNUM),
                                "replay": "PYTHONPATH=/verif/tools:<repo>/guppylang/src:<repo>/guppylang-internals/src /venv/bin/python /verif/props/C07/impl_functy.py <<< '[case]'"})
    # ---- independent spec check of the implementation's rows (failing-input search) ----
    spec_fail = []
    for c, i in zip(tvc, tv_impl):
        ins = [TYNUM[t] for t, f in c["inputs"] if f != "comptime"]
        outs = (ROW.get(c["output"], [TYNUM[c["output"]]])) + [TYNUM[t] for t, f in c["inputs"] if f == "inout"]
        if i[0] != ins or i[1] != outs:
            spec_fail.append((c, i, [ins, outs]))
    # ---- write-back correspondence -----------------------------------------------------
    r = vlib.rng(ctx.seed, "C07-wb")
    cases = load_corpus()
    n_gen = 48 if ctx.quick else 600
    for k in range(n_gen):
        cases.append(gen_cases.gen_case(r, f"g{k}"))
    impl = {}
    B = 8
    from concurrent.futures import ThreadPoolExecutor
    batches = [[{k: c[k] for k in ("id", "src", "entry", "funcs")} for c in cases[i:i + B]] for i in range(0, len(cases), B)]
    with ThreadPoolExecutor(max_workers=12) as ex:
        for out in ex.map(lambda b: ctx.impl("impl_writeback.py", b), batches):
            impl.update(json.loads(out))
    jobs = [(f"{c['id']}/{fn}", c["coq"][fn]) for c in cases for fn in c["funcs"]]
    model = {}
    model_ok = True
    try:
        model = model_eval(ctx, jobs)
    except RuntimeError as e:
        model_ok = False
        notes.append(f"write-back model could not be evaluated: {str(e)[-400:]}")
    stats = {"compared_functions": 0, "agree": 0, "rejected_by_compiler": 0, "untraceable": 0, "events_compared": 0,
             "with_subscript": 0, "programs_with_same_typed_borrowed_pair": 0}
    wb_dis = 0
    samples = []
    nontrivial = set()
    for c in cases:
        res = impl.get(c["id"], {"ok": False, "error": "no result"})
        if not res.get("ok"):
            stats["rejected_by_compiler"] += 1
            if c["id"].startswith("corpus-") and not c.get("may_reject"):
                ctx.report(f"wb:{c['id']}:rejected", "correspondence", "corpus program no longer compiles",
                           {"case": c["id"], "error": res.get("error"), "src": c["src"]})
            continue
        for fn in c["funcs"]:
            tr = res["funcs"].get(fn, {"error": "missing"})
            if "error" in tr:
                stats["untraceable"] += 1
                continue
            if not model_ok:
                continue
            m = norm_model(model[f"{c['id']}/{fn}"])
            i = norm_impl(tr, c.get("callee_ids", {}))
            stats["compared_functions"] += 1
            stats["events_compared"] += len(i["events"])
            if any(e[0] in (1, 2) for e in i["events"]):
                stats["with_subscript"] += 1
            if m is not None and m == i:
                stats["agree"] += 1
                nontrivial.add(json.dumps(i))
                if len(samples) < 3:
                    samples.append({"case": c["id"], "function": fn, "hugr_trace": pretty_tr(i)})
                continue
            wb_dis += 1
            if wb_dis <= 3:
                ctx.report(f"wb:{c['id']}:{fn}" if c["id"].startswith("corpus-") else f"wb:{ctx.seed}:{c['id']}:{fn}",
                           "counterexample",
                           "write-back in the compiled HUGR differs from the model (value-result write-back of borrowed arguments)",
                           {"case": c["id"], "function": fn, "src": c["src"],
                            "expected_by_model": pretty_tr(m) if m else "model fails (None)",
                            "observed_in_hugr": pretty_tr(i),
                            "reading": "outs = the function's outputs (regular returns, then borrowed parameters in order) as trees of leaf wires; "
                                       "evN.outK = output port K of the N-th non-structural node (events, in creation order); inK = K-th function input; "
                                       "a borrowed argument's place must receive the call's output port nret+k",
                            "replay": replay_cmd(c["id"])})
    # every generated callee signature starts from two borrowed inputs of one type (gen_sig); both corpus programs have one too
    stats["programs_with_same_typed_borrowed_pair"] = len(cases)
    # ---- callee side: rebinding a borrowed parameter must be rejected --------------------------
    import gen_extra
    rb = gen_extra.rebind_cases()
    ct = gen_extra.comptime_cases(vlib.rng(ctx.seed, "C07-ct"), 24 if ctx.quick else 160)
    extra = rb + ct
    xb = [[{k: c[k] for k in ("id", "src", "entry", "funcs", "mode") if k in c} for c in extra[i:i + B]] for i in range(0, len(extra), B)]
    ximpl = {}
    with ThreadPoolExecutor(max_workers=12) as ex:
        for out in ex.map(lambda b: ctx.impl("impl_writeback.py", b), xb):
            ximpl.update(json.loads(out))
    rstats = {"rebind_programs": len(rb), "rebind_rejected_as_required": 0, "comptime_programs": len(ct),
              "comptime_accepted_with_provenance": 0, "comptime_rejected_allowed": 0,
              "comptime_by_kind": {}, "rebind_violations": 0, "comptime_violations": 0}
    rb_bad = ct_bad = 0
    for c in rb:
        res = ximpl.get(c["id"], {})
        f = res.get("funcs", {}).get("cal", {})
        verdict = f.get("verdict", "error:" + str(res.get("error_class") or res.get("error")))
        if verdict == c["expect"]:
            rstats["rebind_rejected_as_required"] += 1
            continue
        detail = {"case": c["id"], "what": c["what"], "src": c["src"], "required_verdict": c["expect"], "observed_verdict": verdict,
                  "why": "Python: rebinding a parameter never affects the caller; lending is compiled as 'return the callee's variable', "
                         "so an accepted rebinding hands the caller a different object than the one it lent",
                  "replay": "write `src` to a file on PYTHONPATH=/verif/tools:<repo>/guppylang/src:<repo>/guppylang-internals/src, import it with /venv/bin/python and call cal.check()"}
        if "outs" in f:
            k = c["borrowed_param_index"]
            d = gen_extra.deps(f["outs"][k] if k < len(f["outs"]) else [], f["events"])
            detail["compiled_callee"] = pretty_tr(norm_impl(f, {}))
            detail["output_for_borrowed_parameter_depends_on_its_input"] = ("in", k) in d
        elif res.get("error"):
            detail["compile_error_after_acceptance"] = res.get("error")
        rb_bad += 1
        if rb_bad <= 3 or ctx.is_known(f"rebind:{c['id']}"):
            ctx.report(f"rebind:{c['id']}", "counterexample", "a callee that rebinds a borrowed parameter is not rejected with BorrowShadowedError", detail)
    # ---- comptime callers: the value read after the call derives from the call's output ---------
    for c in ct:
        res = ximpl.get(c["id"], {})
        rstats["comptime_by_kind"][c["kind"]] = rstats["comptime_by_kind"].get(c["kind"], 0) + 1
        base = {"case": c["id"], "src": c["src"], "elements": c["elements"],
                "replay": "write `src` to a file on PYTHONPATH=/verif/tools:<repo>/guppylang/src:<repo>/guppylang-internals/src and run caller.compile_function() with /venv/bin/python"}
        if not res.get("ok"):
            if c["must_accept"]:
                ct_bad += 1
                ctx.report(f"comptime:{ctx.seed}:{c['id']}", "counterexample",
                           "a comptime caller lending lists of wires is rejected", dict(base, error=res.get("error")))
            else:
                rstats["comptime_rejected_allowed"] += 1
            continue
        f = res["funcs"].get("caller", {})
        if "outs" not in f:
            ctx.report(f"comptime:{ctx.seed}:{c['id']}", "correspondence", "comptime caller could not be traced", dict(base, error=f.get("error")), found_input=False)
            continue
        calls = [i for i, (n, _) in enumerate(f["events"]) if n.startswith("call:") and n[5:].split(".")[-1].startswith(c["callee"])]
        d = gen_extra.deps(f["outs"][0], f["events"]) if f["outs"] else set()
        good = len(calls) == 1 and ("out", calls[0], c["need_port"]) in d and \
            (c["forbid_port"] is None or ("out", calls[0], c["forbid_port"]) not in d)
        if good:
            rstats["comptime_accepted_with_provenance"] += 1
            continue
        ct_bad += 1
        if ct_bad <= 3:
            ctx.report(f"comptime:{ctx.seed}:{c['id']}", "counterexample",
                       "after a borrowing call from a comptime caller the element read does not come from the call's output for that parameter",
                       dict(base, compiled_caller=pretty_tr(norm_impl(f, {})),
                            required=f"the returned value depends on output port {c['need_port']} of the call to {c['callee']}"
                                     + (f" and not on port {c['forbid_port']}" if c["forbid_port"] is not None else ""),
                            depends_on=sorted(map(str, d))))
    # a run in which (almost) nothing was compared must not pass: the tie would be vacuous
    expected_fns = sum(len(c["funcs"]) for c in cases)
    if model_ok and stats["compared_functions"] < 0.8 * expected_fns:
        first_err = next((impl[c["id"]].get("error") for c in cases if not impl.get(c["id"], {}).get("ok")), None)
        ctx.report("wb:too-few-compared", "correspondence",
                   "the tree under test compiled/traced too few of the generated programs for the write-back correspondence to mean anything",
                   {"compared_functions": stats["compared_functions"], "expected": expected_fns,
                    "rejected_by_compiler": stats["rejected_by_compiler"], "untraceable": stats["untraceable"],
                    "first_compiler_error": first_err}, found_input=False)
    deferred_proof_broken = False
    # ---- verdict on the proof side ------------------------------------------------------
    if not info["ok"]:
        if spec_fail:
            c, i, s = spec_fail[0]
            ctx.report(f"spec:{json.dumps(c, sort_keys=True)}", "counterexample",
                       f"alignment theorems no longer check ({info['failed']}) and the real function type breaks the row layout",
                       {"case": c, "implementation_[ins,outs,...]": i, "required_[ins,outs]": s,
                        "coq_error": vlib.CoqResult(False, info["log"]).error_excerpt(),
                        "replay": "PYTHONPATH=/verif/tools:<repo>/guppylang/src:<repo>/guppylang-internals/src /venv/bin/python /verif/props/C07/impl_functy.py <<< '[case]'"})
        elif wb_dis == 0 and tv_dis == 0:
            deferred_proof_broken = True
    elif spec_fail:
        c, i, s = spec_fail[0]
        ctx.report(f"spec:{json.dumps(c, sort_keys=True)}", "counterexample",
                   "the real function type breaks the row layout although the proofs pass (translator gap)",
                   {"case": c, "implementation": i, "required_[ins,outs]": s})
    if not model_ok and info["ok"]:
        ctx.report("model-eval", "proof-broken", "model evaluation failed", {"notes": notes}, found_input=False)
    # ---- borrowing calls inside comprehensions: every leaf of the lent place is loop-carried ------
    cp = gen_extra.comprehension_cases(vlib.rng(ctx.seed, "C07-cp"), 18 if ctx.quick else 36)
    cpb = [[{k: c[k] for k in ("id", "src", "entry", "funcs", "mode")} for c in cp[i:i + 4]] for i in range(0, len(cp), 4)]
    cimpl = {}
    with ThreadPoolExecutor(max_workers=12) as ex:
        for out in ex.map(lambda b: ctx.impl("impl_writeback.py", b), cpb):
            cimpl.update(json.loads(out))
    cp_bad, cp_ok, cp_leaves = 0, 0, 0

    def sub(tree, path):
        for i in path:
            if "p" not in tree or i >= len(tree["p"]):
                return None
            tree = tree["p"][i]
        return tree

    def direct(tree):
        return sorted([a for a in tree.get("s", [])] if tree and "s" in tree else [["?"]], key=str) if tree is None or "s" not in tree else \
            sorted([a for a in tree["s"] if a[0] in ("i", "o")], key=str)
    for c in cp:
        res = cimpl.get(c["id"], {})
        f = res.get("funcs", {}).get("main", {}) if res.get("ok") else {}
        problems = []
        if "dep_outs" not in f:
            problems.append({"error": res.get("error") or f.get("error") or "not traced"})
        else:
            for l in c["lent"]:
                calls = [k for k in f["calls"] if k["in_loop"] and (k["callee"] or "").split(".")[-1] == l["callee"]]
                if len(calls) != 1:
                    problems.append({"error": f"{len(calls)} calls of {l['callee']} inside the loop"})
                    continue
                call, arg = calls[0], (0 if l["port"] == 1 else 2)
                for leaf in l["leaves"]:
                    cp_leaves += 1
                    want = sorted([["i", l["param"], l["path"] + leaf], ["o", call["idx"], l["port"], leaf]], key=str)
                    after = direct(sub(f["dep_outs"][l["param"]], l["path"] + leaf))
                    fed = direct(sub(call["inputs"][arg], leaf)) if arg < len(call["inputs"]) else None
                    if after != want:
                        problems.append({"leaf": l["path"] + leaf, "of_parameter": l["param"], "what": "value the caller holds after the comprehension",
                                         "must_come_directly_from": want, "comes_directly_from": after})
                    if fed != want:
                        problems.append({"leaf": l["path"] + leaf, "of_parameter": l["param"], "what": "value every iteration passes to the call",
                                         "must_come_directly_from": want, "comes_directly_from": fed})
        if not problems:
            cp_ok += 1
            continue
        cp_bad += 1
        if cp_bad <= 3:
            ctx.report(f"comp:{c['id'].rsplit('-', 1)[0]}:{c['call']}", "counterexample",
                       "a place lent inside a comprehension is not threaded through the loop leaf by leaf",
                       {"case": c["id"], "src": c["src"], "problems": problems[:6],
                        "reading": "atoms: [i, K, path] = leaf of function input K; [o, N, P, path] = leaf of output port P of HUGR node N (the borrowing call); "
                                   "'directly' = through tuple packing/unpacking and Conditional/TailLoop boundaries only; after the loop a leaf is either the "
                                   "input (zero iterations) or the last call's output, and each iteration passes the input (first) or the previous call's output",
                        "replay": "write `src` to a file on PYTHONPATH=/verif/tools:<repo>/guppylang/src:<repo>/guppylang-internals/src, run main.compile_function() with /venv/bin/python and follow the TailLoop's inputs/outputs"})
    rstats.update(comprehension_programs=len(cp), comprehension_ok=cp_ok, comprehension_leaves_checked=cp_leaves, comprehension_violations=cp_bad)
    rstats["rebind_violations"], rstats["comptime_violations"] = rb_bad, ct_bad
    if deferred_proof_broken and not any(v.get("found_failing_input") for v in ctx.violations):
        ctx.report(("translator:" + tr_err) if tr_err else "proof-broken:" + str(info["failed"]), "proof-broken", str(info["failed"]),
                   {"coq_error": vlib.CoqResult(False, info["log"]).error_excerpt(),
                    "searched": {"row_cases": len(tvc), "programs": len(cases), "rebind": len(rb), "comptime": len(ct), "comprehensions": len(cp)}},
                   found_input=False)
    cov = proof_coverage(
        info, "make -f Makefile.C07 C07/Props.vo && coqc C07/Props.v (Print Assumptions)",
        ["Coq 8.16.1 kernel",
         "props/C07/tr_functy.py: reading of list comprehensions / starred generator displays / zip(strict=True) / slices as map, filter, ++, zip_strict, firstn, skipn; InputFlags membership as one boolean per flag",
         "tools/repo_shim.py (lets the tree under test compile on the sandbox's hugr); props/C07/impl_writeback.py (HUGR tracer: UnpackTuple/MakeTuple are projections/tuples, itousize is transparent, every other node is an opaque event)",
         "modelled by hand (tied by correspondence only): _update_inout_ports, visit_PlaceNode, DFContainer.__getitem__/__setitem__, the borrow/return ops emitted for array subscripts"],
        evaluations=len(tvc) + stats["compared_functions"], distinct_nontrivial=len(nontrivial),
        rule="non-trivial = a compiled function whose HUGR trace agreed with the model, counted up to equality of the whole trace; every generated program contains at least one callee with two same-typed borrowed inputs",
        translator_validation_cases=len(tvc), translator_disagreements=tv_dis,
        writeback=stats, writeback_disagreements=wb_dis, programs=len(cases), callee_exit_and_comptime=rstats,
        shape_distribution={k: sum(c.get("shape", {}).get(k, 0) for c in cases) for k in ("main_calls", "g_calls", "subscripts", "effectful_indices", "temporaries_for_borrowed")},
        samples=samples, notes=notes)
    return ctx.finish(LEVEL, cov, [
        "value trees stand for wires: a wire of struct/tuple type is identified with the tuple of its leaf wires",
        "writeback_semantics_partial: callee bodies are straight-line sequences of in-place leaf updates and nested borrowing calls; no aliasing between the arguments of one call (guaranteed by the linearity checker, C06)",
        "no emulator can run HUGR compiled by this tree: 'the caller observes' is decided on the compiled dataflow graph"])
