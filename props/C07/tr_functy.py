"""Fail-closed translator for the comprehensions that decide where a borrowed argument's
wire sits in a call:

  tys/ty.py               FunctionType._to_hugr_function_type   -> fty_ins, fty_outs
  compiler/expr_compiler  ExprCompiler._compile_call_args       -> call_args
  checker/func_checker    inout_var_names                       -> inout_names
  compiler/cfg_compiler   insert_return_vars                    -> exit_row, pred_out_row, n_return_vars
  the four call sites that split a call's outputs (`num_returns = len(type_to_row(..))`,
  `call[:num_returns]`, `call[num_returns:]`)                   -> split_<site>

Emits coq/C07/GenFuncTy.v.  Anything outside the shapes below raises TranslatorError."""
import ast

from tr_common import HEADER, TranslatorError, find_class, find_func, parse_file, strip_doc

FLAG_FIELD = {"Inout": "fl_inout", "Owned": "fl_owned", "Comptime": "fl_comptime"}


def fail(node, why):
    raise TranslatorError(f"C07 translator: {why}: `{ast.unparse(node)}` (line {getattr(node, 'lineno', '?')})")


def check_flags_enum(mod):
    cls = find_class(mod, "InputFlags")
    if [ast.unparse(b) for b in cls.bases] != ["Flag"]:
        fail(cls, "InputFlags is no longer a plain Flag enum")
    members = []
    for st in strip_doc(cls.body):
        if not (isinstance(st, ast.Assign) and len(st.targets) == 1 and isinstance(st.targets[0], ast.Name)):
            fail(st, "unexpected statement in InputFlags")
        members.append((st.targets[0].id, ast.unparse(st.value)))
    if members != [("NoFlags", "0"), ("Inout", "auto()"), ("Owned", "auto()"), ("Comptime", "auto()")]:
        raise TranslatorError(f"C07 translator: InputFlags members changed: {members}")


class Comp:
    """Translate list comprehensions / generator expressions over inputs."""

    def __init__(self, names):
        # names: python expression text -> (coq term, kind); kinds: inputs | types | list | zipped
        self.names = dict(names)
        self.partial = False  # set when a zip(strict=True) was used: result is an option

    def iter_(self, node):
        txt = ast.unparse(node)
        if txt in self.names:
            return self.names[txt]
        if isinstance(node, ast.Call) and ast.unparse(node.func) == "type_to_row" and len(node.args) == 1 and not node.keywords:
            a = ast.unparse(node.args[0])
            if a in self.names and self.names[a][1] == "type":
                return f"(type_to_row {self.names[a][0]})", "types"
        if isinstance(node, ast.Call) and ast.unparse(node.func) == "zip":
            kws = {k.arg: ast.unparse(k.value) for k in node.keywords}
            if kws != {"strict": "True"} or len(node.args) != 2:
                fail(node, "zip must be zip(a, b, strict=True)")
            (a, ka), (b, kb) = self.iter_(node.args[0]), self.iter_(node.args[1])
            return ("zip", a, ka, b, kb), "zipped"
        fail(node, "unknown iterable")

    def cond(self, node, env):
        if not (isinstance(node, ast.Compare) and len(node.ops) == 1 and isinstance(node.ops[0], (ast.In, ast.NotIn))):
            fail(node, "unknown filter condition")
        lhs, rhs = node.left, node.comparators[0]
        if not (isinstance(lhs, ast.Attribute) and ast.unparse(lhs.value) == "InputFlags" and lhs.attr in FLAG_FIELD):
            fail(node, "filter is not a flag membership test")
        if not (isinstance(rhs, ast.Attribute) and rhs.attr == "flags" and isinstance(rhs.value, ast.Name)
                and env.get(rhs.value.id) == "input"):
            fail(node, "flag test is not on a FuncInput variable")
        t = f"{FLAG_FIELD[lhs.attr]} (fi_flags {rhs.value.id})"
        return t if isinstance(node.ops[0], ast.In) else f"negb ({t})"

    def elt(self, node, env):
        # v.ty.to_hugr(ctx) | t.to_hugr(ctx) | self.visit(v) | v
        if isinstance(node, ast.Name) and node.id in env:
            return node.id
        if isinstance(node, ast.Call) and not node.keywords:
            f = node.func
            if isinstance(f, ast.Attribute) and f.attr == "to_hugr" and [ast.unparse(a) for a in node.args] == ["ctx"]:
                v = f.value
                if isinstance(v, ast.Name) and env.get(v.id) == "type":
                    return f"to_hugr {v.id}"
                if isinstance(v, ast.Attribute) and v.attr == "ty" and isinstance(v.value, ast.Name) and env.get(v.value.id) == "input":
                    return f"to_hugr (fi_ty {v.value.id})"
            if ast.unparse(f) == "self.visit" and len(node.args) == 1 and isinstance(node.args[0], ast.Name) \
                    and env.get(node.args[0].id) == "elem":
                return f"visit {node.args[0].id}"
        fail(node, "unknown comprehension element")

    def comp(self, node):
        """-> coq term of list type (or option list when self.partial)"""
        if not isinstance(node, (ast.ListComp, ast.GeneratorExp)) or len(node.generators) != 1:
            fail(node, "expected a single-generator comprehension")
        g = node.generators[0]
        if g.is_async:
            fail(node, "async comprehension")
        it, kind = self.iter_(g.iter)
        env = {}
        if kind == "zipped":
            _, a, ka, b, kb = it
            if not (isinstance(g.target, ast.Tuple) and len(g.target.elts) == 2 and all(isinstance(e, ast.Name) for e in g.target.elts)):
                fail(g.target, "zip target must be a pair of names")
            n1, n2 = (e.id for e in g.target.elts)
            env[n1], env[n2] = {"inputs": "input", "types": "type", "list": "elem"}[ka], {"inputs": "input", "types": "type", "list": "elem"}[kb]
            binder = f"'({n1}, {n2})"
            src = "zipped__"
        else:
            if not isinstance(g.target, ast.Name):
                fail(g.target, "target must be a name")
            env[g.target.id] = {"inputs": "input", "types": "type", "list": "elem"}[kind]
            binder = g.target.id
            src = it
        body = src
        for c in g.ifs:
            body = f"(filter (fun {binder} => {self.cond(c, env)}) {body})"
        body = f"(map (fun {binder} => {self.elt(node.elt, env)}) {body})"
        if kind == "zipped":
            self.partial = True
            return f"(match zip_strict {a} {b} with Some zipped__ => Some {body} | None => None end)"
        return body


def single_return_list(fn, allow_asserts=()):
    body = strip_doc(fn.body)
    out = []
    for st in body:
        if isinstance(st, ast.Assert) and ast.unparse(st.test) in allow_asserts:
            continue
        out.append(st)
    return out


def tr_to_hugr_function_type(mod):
    fn = find_func(find_class(mod, "FunctionType"), "_to_hugr_function_type")
    if [a.arg for a in fn.args.args] != ["self", "ctx"]:
        fail(fn, "signature changed")
    body = single_return_list(fn)
    if len(body) != 3 or not all(isinstance(s, ast.Assign) for s in body[:2]) or not isinstance(body[2], ast.Return):
        fail(fn, "expected `ins = ...; outs = ...; return ht.FunctionType(input=ins, output=outs)`")
    if [ast.unparse(s.targets[0]) for s in body[:2]] != ["ins", "outs"]:
        fail(fn, "expected assignments to ins and outs")
    r = body[2].value
    if not (isinstance(r, ast.Call) and ast.unparse(r.func) == "ht.FunctionType" and not r.args
            and {k.arg: ast.unparse(k.value) for k in r.keywords} == {"input": "ins", "output": "outs"}):
        fail(body[2], "return shape")
    names = {"self.inputs": ("inputs", "inputs"), "self.output": ("output", "type")}
    c = Comp(names)
    ins = c.comp(body[0].value)
    o = body[1].value
    if not isinstance(o, ast.List) or not all(isinstance(e, ast.Starred) for e in o.elts):
        fail(o, "outs must be a list display of starred generators")
    outs = " ++ ".join(c.comp(e.value) for e in o.elts) or "[]"
    if c.partial:
        fail(fn, "unexpected zip")
    return (f"Definition fty_ins (inputs : list (FuncInput T)) : list H :=\n  {ins}.\n\n"
            f"Definition fty_outs (inputs : list (FuncInput T)) (output : T) : list H :=\n  {outs}.\n")


def tr_compile_call_args(mod):
    fn = find_func(find_class(mod, "ExprCompiler"), "_compile_call_args")
    if [a.arg for a in fn.args.args] != ["self", "args", "func_ty"]:
        fail(fn, "signature changed")
    body = single_return_list(fn)
    if len(body) != 1 or not isinstance(body[0], ast.Return):
        fail(fn, "expected a single return of a comprehension")
    c = Comp({"args": ("args", "list"), "func_ty.inputs": ("inputs", "inputs")})
    t = c.comp(body[0].value)
    if not c.partial:
        fail(fn, "expected zip(args, func_ty.inputs, strict=True)")
    return f"Definition call_args (args : list A) (inputs : list (FuncInput T)) : option (list W) :=\n  {t}.\n"


def tr_inout_var_names(mod):
    fn = find_func(mod, "inout_var_names")
    if [a.arg for a in fn.args.args] != ["func_ty"]:
        fail(fn, "signature changed")
    body = single_return_list(fn, allow_asserts=("func_ty.input_names is not None",))
    if len(body) != 1 or not isinstance(body[0], ast.Return):
        fail(fn, "expected a single return of a comprehension")
    c = Comp({"func_ty.inputs": ("inputs", "inputs"), "func_ty.input_names": ("names", "list")})
    t = c.comp(body[0].value)
    if not c.partial:
        fail(fn, "expected zip(func_ty.inputs, func_ty.input_names, strict=True)")
    return f"Definition inout_names (inputs : list (FuncInput T)) (names : list A) : option (list A) :=\n  {t}.\n"


def tr_insert_return_vars(mod):
    fn = find_func(mod, "insert_return_vars")
    body = strip_doc(fn.body)
    if len(body) != 3:
        fail(fn, "expected three statements")
    rv, ex, loop = body
    want_rv = "return_vars = [Variable(return_var(i), ty, None) for (i, ty) in enumerate(type_to_row(cfg.output_ty))]"
    if ast.unparse(rv).replace("for i, ty in", "for (i, ty) in") != want_rv:
        fail(rv, "return_vars comprehension changed")

    def row(node):
        if not isinstance(node, ast.List) or not all(isinstance(e, ast.Starred) for e in node.elts):
            fail(node, "expected a list display of starred rows")
        parts = []
        for e in node.elts:
            t = ast.unparse(e.value)
            if t == "return_vars":
                parts.append("return_vars")
            elif t in ("cfg.exit_bb.sig.input_row", "out_row"):
                parts.append("row")
            else:
                fail(e, "unknown row part")
        return " ++ ".join(parts)

    if not (isinstance(ex, ast.Assign) and ast.unparse(ex.targets[0]) == "cfg.exit_bb.sig" and isinstance(ex.value, ast.Call)
            and ast.unparse(ex.value.func) == "Signature" and len(ex.value.args) == 2
            and ast.unparse(ex.value.args[1]) == "cfg.exit_bb.sig.output_rows"):
        fail(ex, "exit signature patch changed")
    exit_row = row(ex.value.args[0])
    if not (isinstance(loop, ast.For) and ast.unparse(loop.target) == "pred" and ast.unparse(loop.iter) == "cfg.exit_bb.predecessors"):
        fail(loop, "predecessor loop changed")
    lb = [s for s in loop.body if not isinstance(s, ast.Assert)]
    if len(lb) != 2 or ast.unparse(lb[0]) != "[out_row] = pred.sig.output_rows":
        fail(loop, "predecessor loop body changed")
    a = lb[1]
    if not (isinstance(a, ast.Assign) and ast.unparse(a.targets[0]) == "pred.sig" and isinstance(a.value, ast.Call)
            and ast.unparse(a.value.func) == "Signature" and len(a.value.args) == 2
            and ast.unparse(a.value.args[0]) == "pred.sig.input_row" and isinstance(a.value.args[1], ast.List)
            and len(a.value.args[1].elts) == 1):
        fail(a, "predecessor signature patch changed")
    pred_row = row(a.value.args[1].elts[0])
    return ("Definition n_return_vars (output : T) : nat := length (type_to_row output).\n\n"
            f"Definition exit_row (return_vars row : list A) : list A := {exit_row}.\n\n"
            f"Definition pred_out_row (return_vars row : list A) : list A := {pred_row}.\n")


def tr_split_site(fn, site, ty_expr, call_name="call"):
    """Find `num_returns = len(type_to_row(<ty_expr>.output))` and the two slices of `call`."""
    num = None
    slices = {}
    for node in ast.walk(fn):
        if isinstance(node, (ast.Assign, ast.AnnAssign)):
            tg = node.targets[0] if isinstance(node, ast.Assign) else node.target
            if ast.unparse(tg) == "num_returns":
                if num is not None:
                    fail(node, f"{site}: num_returns assigned twice")
                num = ast.unparse(node.value)
        if isinstance(node, ast.Subscript) and ast.unparse(node.value) == call_name and isinstance(node.slice, ast.Slice):
            s = node.slice
            if s.step is not None:
                fail(node, f"{site}: slice with step")
            lo, hi = (ast.unparse(s.lower) if s.lower else None), (ast.unparse(s.upper) if s.upper else None)
            if (lo, hi) == (None, "num_returns"):
                slices["regular"] = "firstn n outs"
            elif (lo, hi) == ("num_returns", None):
                slices["inout"] = "skipn n outs"
            else:
                fail(node, f"{site}: unknown slice of the call outputs")
    if num != f"len(type_to_row({ty_expr}.output))":
        raise TranslatorError(f"C07 translator: {site}: num_returns is `{num}`, expected len(type_to_row({ty_expr}.output))")
    if set(slices) != {"regular", "inout"}:
        raise TranslatorError(f"C07 translator: {site}: expected call[:num_returns] and call[num_returns:], found {sorted(slices)}")
    return (f"Definition split_{site} (output : T) (outs : list W) : list W * list W :=\n"
            f"  let n := length (type_to_row output) in ({slices['regular']}, {slices['inout']}).\n")


# ---------------------------------------------------------------------------------------
# ExprCompiler._update_inout_ports: a for loop, translated statement by statement into a
# step function over (store, remaining ports).  Primitive effects are section variables.

def tr_update_inout_ports(mod):
    fn = find_func(find_class(mod, "ExprCompiler"), "_update_inout_ports")
    if [a.arg for a in fn.args.args] != ["self", "args", "inout_ports", "func_ty"]:
        fail(fn, "signature changed")
    body = strip_doc(fn.body)
    if len(body) != 2 or not isinstance(body[0], ast.For) or not isinstance(body[1], ast.Assert):
        fail(fn, "expected `for inp, arg in zip(...): ...` followed by the exhaustion assert")
    loop, fin = body
    if ast.unparse(loop.target) != "(inp, arg)" or ast.unparse(loop.iter) != "zip(func_ty.inputs, args, strict=True)" or loop.orelse:
        fail(loop, "loop header changed")
    if ast.unparse(fin.test) != "next(inout_ports, None) is None":
        fail(fin, "final assert changed")

    END = "Some (s, ports)"

    def stmts(ss, rest, env):
        """ss executed, then `rest` (a Coq term using s, ports)"""
        if not ss:
            return rest
        st, tail = ss[0], ss[1:]
        txt = ast.unparse(st)
        if isinstance(st, ast.Continue):
            return END
        if txt == "next(inout_ports)":
            return f"match ports with [] => None | _ :: ports => {stmts(tail, rest, env)} end"
        if txt == "self.dfg[arg.place] = next(inout_ports)":
            if not env.get("place"):
                fail(st, "arg.place used where arg is not known to be a PlaceNode")
            return f"match ports with [] => None | w :: ports => let s := assign_leaf p w s in {stmts(tail, rest, env)} end"
        if isinstance(st, ast.Assert) and txt == "assert subscript.setitem_call is not None" and env.get("sub"):
            return stmts(tail, rest, env)
        if txt == "self.dfg[subscript.setitem_call.value_var] = self.dfg[subscript]" and env.get("sub"):
            return f"let s := set_value_var sub s in {stmts(tail, rest, env)}"
        if txt == "self.visit(subscript.setitem_call.call)" and env.get("sub"):
            return f"let s := visit_setitem sub s in {stmts(tail, rest, env)}"
        if isinstance(st, ast.If) and not st.orelse:
            c = ast.unparse(st.test)
            if c == "not isinstance(arg, PlaceNode)":
                if env.get("place"):
                    fail(st, "nested place test")
                # the branch ends with `continue` (checked below), so the code after it runs only for places
                return (f"(match a with AExpr => {stmts(st.body, END, env)} "
                        f"| APlace p => {stmts(tail, rest, dict(env, place=True))} end)")
            after = stmts(tail, rest, env)
            if c == "InputFlags.Inout in inp.flags":
                return f"(if fl_inout (fi_flags inp) then {stmts(st.body, after, env)} else {after})"
            if c == "(subscript := contains_subscript(arg.place))" and env.get("place"):
                return (f"(match contains_sub p with Some sub => {stmts(st.body, after, dict(env, sub=True))} "
                        f"| None => {after} end)")
        fail(st, "_update_inout_ports: unknown statement")

    def check_terminates(ss):
        # `if not isinstance(arg, PlaceNode)` must end with continue, otherwise the code after it would
        # run with arg not a place (our translation of the APlace branch assumes it does not)
        for st in ss:
            if isinstance(st, ast.If):
                if ast.unparse(st.test) == "not isinstance(arg, PlaceNode)" and not (st.body and isinstance(st.body[-1], ast.Continue)):
                    fail(st, "the non-place branch must end with `continue`")
                check_terminates(st.body)
    check_terminates(loop.body)
    step = stmts(loop.body, END, {})
    return ("Definition upd_step (inp : FuncInput T) (a : arg P) (s : St) (ports : list W) : option (St * list W) :=\n"
            f"  {step}.\n\n"
            "Fixpoint upd_loop (zs : list (FuncInput T * arg P)) (s : St) (ports : list W) : option (St * list W) :=\n"
            "  match zs with\n  | [] => Some (s, ports)\n"
            "  | (inp, a) :: zs' => match upd_step inp a s ports with Some (s', ports') => upd_loop zs' s' ports' | None => None end\n  end.\n\n"
            "Definition gen_update_inout_ports (inputs : list (FuncInput T)) (args : list (arg P)) (ports : list W) (s : St) : option St :=\n"
            "  match zip_strict inputs args with\n  | None => None\n"
            "  | Some zs => match upd_loop zs s ports with Some (s', []) => Some s' | _ => None end\n  end.\n")


# ---------------------------------------------------------------------------------------
# BBLinearityChecker._check_comprehension: the loop that decides which outer places are fed
# through the comprehension's TailLoop

def tr_used_outer_places(mod):
    fn = find_func(find_class(mod, "BBLinearityChecker"), "_check_comprehension")
    init = loop = None
    for node in ast.walk(fn):
        if isinstance(node, ast.Assign) and ast.unparse(node.targets[0]) == "gen.used_outer_places":
            if init is not None:
                fail(node, "gen.used_outer_places assigned twice")
            init = node
        if isinstance(node, ast.For) and ast.unparse(node.iter) == "inner_scope.used_parent.items()" \
                and any(isinstance(n, ast.Attribute) and n.attr == "used_outer_places" for n in ast.walk(node)):
            if loop is not None:
                fail(node, "two loops over inner_scope.used_parent")
            loop = node
    if init is None or ast.unparse(init.value) != "[]":
        raise TranslatorError("C07 translator: `gen.used_outer_places = []` not found in _check_comprehension")
    if loop is None or ast.unparse(loop.target) != "(x, use)" or loop.orelse:
        raise TranslatorError("C07 translator: loop over inner_scope.used_parent.items() not found / changed")
    # any other mention of used_outer_places in the function must be inside this loop
    mentions = [n for n in ast.walk(fn) if isinstance(n, ast.Attribute) and n.attr == "used_outer_places"]
    inside = [n for n in ast.walk(loop) if isinstance(n, ast.Attribute) and n.attr == "used_outer_places"]
    if len(mentions) != len(inside) + 1:
        fail(fn, "gen.used_outer_places is touched outside the translated loop")
    body = loop.body
    if len(body) != 3:
        fail(loop, "expected `place = inner_scope[x]; gen.used_outer_places.append(place); if use.kind == UseKind.BORROW: ...`")
    if ast.unparse(body[0]) != "place = inner_scope[x]":
        fail(body[0], "place lookup changed")
    if ast.unparse(body[1]) != "gen.used_outer_places.append(place)":
        fail(body[1], "the append to gen.used_outer_places is no longer unconditional")
    b = body[2]
    if not (isinstance(b, ast.If) and ast.unparse(b.test) == "use.kind == UseKind.BORROW" and not b.orelse and len(b.body) == 1
            and isinstance(b.body[0], ast.For) and ast.unparse(b.body[0].target) == "leaf"
            and ast.unparse(b.body[0].iter) == "leaf_places(place)" and len(b.body[0].body) == 1
            and ast.unparse(b.body[0].body[0]) == "inner_scope.use(leaf.id, InoutReturnSentinel(leaf), UseKind.RETURN)"):
        fail(b, "the borrow branch changed")
    return ("Section GenComp.\n(* X: place ids used from the outer scope, in order; Pl: places; U: use records *)\n"
            "Variables X Pl U : Type.\nVariable inner_scope : X -> Pl.\nVariable is_borrow : U -> bool.\n"
            "Variable leaf_places : Pl -> list Pl.\n\n"
            "Definition used_outer_places (used_parent : list (X * U)) : list Pl :=\n"
            "  map (fun '(x, use) => inner_scope x) used_parent.\n\n"
            "(* the leaves marked as implicitly returned (used with UseKind.RETURN) in the inner scope *)\n"
            "Definition returned_leaves (used_parent : list (X * U)) : list Pl :=\n"
            "  flat_map (fun '(x, use) => if is_borrow use then leaf_places (inner_scope x) else []) used_parent.\n"
            "End GenComp.\n")


def translate(ctx) -> str:
    ty = parse_file(ctx.int_src("tys/ty.py"))
    ec = parse_file(ctx.int_src("compiler/expr_compiler.py"))
    fc = parse_file(ctx.int_src("checker/func_checker.py"))
    cc = parse_file(ctx.int_src("compiler/cfg_compiler.py"))
    df = parse_file(ctx.int_src("definition/function.py"))
    dt = parse_file(ctx.int_src("definition/traced.py"))
    check_flags_enum(ty)
    excls = find_class(ec, "ExprCompiler")
    out = [HEADER.format(src="tys/ty.py, compiler/expr_compiler.py, checker/func_checker.py, compiler/cfg_compiler.py, definition/{function,traced}.py",
                         tool="props/C07/tr_functy.py"),
           "From Coq Require Import List Bool Arith.\nFrom V.C07 Require Import ModelBase ModelCall.\nImport ListNotations.\n",
           "Section Gen.\n(* T: guppy types; H: hugr types; A: argument expressions / names; W: wires *)\n"
           "Variables T H A W : Type.\nVariable to_hugr : T -> H.\nVariable type_to_row : T -> list T.\nVariable visit : A -> W.\n",
           tr_to_hugr_function_type(ty), tr_compile_call_args(ec), tr_inout_var_names(fc), tr_insert_return_vars(cc),
           tr_split_site(find_func(excls, "visit_LocalCall"), "local_call", "func_ty"),
           tr_split_site(find_func(excls, "_compile_tensor_with_leftovers"), "tensor_call", "func_ty"),
           tr_split_site(find_func(df, "compile_call"), "global_call", "ty"),
           tr_split_site(find_func(find_class(dt, "CompiledTracedFunctionDef"), "compile_call"), "traced_call", "self.ty"),
           "End Gen.\n",
           "Section GenUpd.\n(* P: places; Sub: subscript places; St: the DFContainer; W: wires *)\n"
           "Variables T P Sub W St : Type.\nVariable assign_leaf : P -> W -> St -> St.\nVariable contains_sub : P -> option Sub.\n"
           "Variable set_value_var : Sub -> St -> St.\nVariable visit_setitem : Sub -> St -> St.\n",
           tr_update_inout_ports(ec),
           "End GenUpd.\n",
           tr_used_outer_places(parse_file(ctx.int_src("checker/linearity_checker.py")))]
    return "\n".join(out)
