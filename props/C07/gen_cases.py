"""Generator of caller/callee programs for the C07 correspondence.  Every case yields
  * a Guppy module (text) with struct declarations, declared leaf callees, a mid-level
    function `g` (nested borrow) and `main`;
  * for each defined function the Coq term `run_function te params calls outs` that the
    model evaluates.
All randomness comes from the rng passed in."""

HEADER = """import repo_shim  # noqa
from guppylang import guppy
from guppylang.std.builtins import array, owned, comptime
from guppylang.std.quantum import qubit, h, x, discard


@guppy.struct
class S2:
    a: qubit
    b: qubit


@guppy.struct
class SA:
    xs: array[qubit, 3]
    ys: array[qubit, 3]


@guppy.struct
class N:
    s: S2
    t: S2
    q: qubit


@guppy.struct
class SI:
    xs: array[int, 3]
    ys: array[int, 3]


@guppy.declare
def make_ai() -> array[int, 3]: ...


@guppy.declare
def nxt() -> int: ...


@guppy.declare
def nxt1(k: int) -> int: ...

"""

Q = "TAtom true"
# name -> (annotation, coq type, children [(suffix, type)], element type)
TYPES = {
    "Q": ("qubit", f"({Q})", [], None),
    "I": ("int", "(TAtom false)", [], None),
    "AQ": ("array[qubit, 3]", f"(TArr ({Q}))", [], "Q"),
    "AQ2": ("array[qubit, 2]", f"(TArr ({Q}))", [], "Q"),
    "S2": ("S2", f"(TProd [{Q}; {Q}])", [(".a", "Q"), (".b", "Q")], None),
    "TQ": ("tuple[qubit, qubit]", f"(TProd [{Q}; {Q}])", [("[0]", "Q"), ("[1]", "Q")], None),
    "SA": ("SA", f"(TProd [TArr ({Q}); TArr ({Q})])", [(".xs", "AQ"), (".ys", "AQ")], None),
    "N": ("N", f"(TProd [TProd [{Q}; {Q}]; TProd [{Q}; {Q}]; {Q}])", [(".s", "S2"), (".t", "S2"), (".q", "Q")], None),
    "AS": ("array[S2, 2]", f"(TArr (TProd [{Q}; {Q}]))", [], "S2"),
    "AA": ("array[array[qubit, 2], 2]", f"(TArr (TArr ({Q})))", [], "AQ2"),
    "AI": ("array[int, 3]", "(TArr (TAtom false))", [], None),
    "SI": ("SI", "(TProd [TArr (TAtom false); TArr (TAtom false)])", [(".xs", "AI"), (".ys", "AI")], None),
    "TN": ("tuple[S2, qubit]", f"(TProd [TProd [{Q}; {Q}]; {Q}])", [("[0]", "S2"), ("[1]", "Q")], None),
}
BORROWABLE = ["Q", "AQ", "S2", "TQ", "SA", "N", "AS", "AA", "TN", "AI", "SI"]
DROPPABLE = ["AI", "SI"]          # temporaries may be passed for borrowed parameters of these types
EV = {"collections.borrow_arr.borrow": 1, "collections.borrow_arr.return": 2, "tket.quantum.H": 3, "tket.quantum.X": 4,
      "collections.borrow_arr.new_array": 5}
FIXED_CALLEES = {"make_ai": 6, "nxt": 7, "nxt1": 8}
GATES = {"h": 3, "x": 4}


class Fresh:
    def __init__(self):
        self.n = 0

    def next(self):
        self.n += 1
        return self.n


def places(root, rty, idx_vars):
    """all places under a root: (text, steps, type); steps: ('c', i) | ('s', idxvar)"""
    out = []

    def go(text, steps, ty, depth):
        out.append((text, steps, ty))
        ann, coq, kids, elem = TYPES[ty]
        for i, (suf, kt) in enumerate(kids):
            go(text + suf, steps + [("c", i)], kt, depth)
        if elem and depth < 2:
            for v in idx_vars + ["0", "1", "nxt()"] + [f"nxt1({w})" for w in idx_vars[:1]]:
                go(f"{text}[{v}]", steps + [("s", v)], elem, depth + 1)

    go(root, [], rty, 0)
    return out


def overlaps(a, b):
    n = min(len(a), len(b))
    return a[:n] == b[:n]


def coq_place(root_id, steps, fn):
    """fn.items collects item id -> index expression"""
    t = f"(PVar {root_id})"
    for k, v in steps:
        if k == "c":
            t = f"(PChild {t} {v})"
        else:
            item = fn.fresh.next()
            if v in fn.pos:
                fn.items[item] = f"IParam {fn.pos[v]}"
            elif v.isdigit():
                fn.items[item] = f"IConst {v}"
            elif v == "nxt()":
                fn.items[item] = "ICall 7 None"
            else:
                fn.items[item] = f"ICall 8 (Some {fn.pos[v[5:-1]]})"
            t = f"(PSub {t} {item})"
    return t


def flags(kind):
    return {"b": "(mkFlags true false false)", "i": "(mkFlags false false false)",
            "c": "(mkFlags false false true)", "o": "(mkFlags false true false)"}[kind]


class Func:
    """a defined function under construction"""

    def __init__(self, name, params):
        self.name, self.params = name, params      # params: [(var, type)]
        self.pos = {v: i for i, (v, _) in enumerate(params)}
        self.idx_vars = [v for v, t in params if t == "I"]
        self.lines, self.calls = [], []
        self.fresh = Fresh()
        self.items = {}
        self.temps = 0
        self.ret = None

    def all_places(self):
        out = []
        for v, t in self.params:
            if t != "I":
                for text, steps, ty in places(v, t, self.idx_vars):
                    out.append((text, [("r", v)] + steps, ty))
        return out

    def coq(self):
        te = " | ".join(f"{i} => {TYPES[t][1]}" for i, (_, t) in enumerate(self.params))
        te = f"(fun x => match x with {te} | _ => TAtom false end)"
        params = "[" + "; ".join(str(i) for i in range(len(self.params))) + "]"
        outs = ([self.pos[self.ret]] if self.ret else []) + [i for i, (_, t) in enumerate(self.params) if t != "I"]
        ie = " | ".join(f"{k} => {v}" for k, v in self.items.items())
        ie = f"(fun x => match x with {ie} | _ => IConst 0 end)" if self.items else "(fun _ => IConst 0)"
        return f"(ser_result (run_function {te} {ie} {params} [{'; '.join(self.calls)}] [{'; '.join(map(str, outs))}]))"

    def text(self):
        ps = ", ".join(f"{v}: {TYPES[t][0]}" for v, t in self.params)
        body = self.lines + ([f"return {self.ret}"] if self.ret else [])
        return f"@guppy\ndef {self.name}({ps}) -> {'int' if self.ret else 'None'}:\n" + "\n".join("    " + l for l in (body or ["pass"])) + "\n"


def gen_sig(r, force_pair=True):
    """callee signature: list of (kind, type); at least two same-typed borrowed inputs"""
    n = r.choice([2, 2, 3, 3, 4])
    t0 = r.choice(BORROWABLE + DROPPABLE + DROPPABLE)
    sig = [("b", t0), ("b", t0)] if force_pair else []
    if t0 in DROPPABLE and n >= 3:
        sig.append(("b", t0))
    while len(sig) < n:
        k = r.choice(["b", "b", "b", "i", "c"])
        sig.append((k, r.choice(BORROWABLE) if k == "b" else "I"))
    r.shuffle(sig)
    nret = r.choice([0, 0, 1, 2, 3])
    return sig, nret


def decl_text(name, sig, nret):
    ps = []
    for i, (k, t) in enumerate(sig):
        ann = TYPES[t][0] + (" @comptime" if k == "c" else "") + (" @owned" if k == "o" else "")
        ps.append(f"p{i}: {ann}")
    ret = {0: "None", 1: "int", 2: "tuple[int, int]", 3: "tuple[int, int, int]"}[nret]
    if any(k == "c" for k, _ in sig):
        val = {0: "pass", 1: "return 0", 2: "return (0, 1)", 3: "return (0, 1, 2)"}[nret]
        return f"@guppy\ndef {name}({', '.join(ps)}) -> {ret}:\n    {val}\n"
    return f"@guppy.declare\ndef {name}({', '.join(ps)}) -> {ret}: ...\n"


def add_call(r, fn, cname, cid, sig, nret):
    """append a call statement to fn; returns False when no disjoint places are available"""
    avail = fn.all_places()
    chosen, args_txt, args_coq = [], [], []
    def temp_ai():
        if r.random() < 0.5:
            return "make_ai()", (6, 0)
        return "array(0, 0, 0)", (5, 3)

    def temp(t):
        if t == "AI":
            txt, (nm, nc) = temp_ai()
            return txt, f"CTemp {nm} {nc}"
        (ta, pa), (tb, pb) = temp_ai(), temp_ai()
        return f"SI({ta}, {tb})", f"CStruct [({pa[0]}, {pa[1]}); ({pb[0]}, {pb[1]})]"

    for k, t in sig:
        if k == "b" and t in DROPPABLE and r.random() < 0.45:
            tt = temp(t)
            args_txt.append(tt[0])
            args_coq.append(tt[1])
            fn.temps += 1
            continue
        if k == "b" or k == "o":
            cands = [p for p in avail if p[2] == t and not any(overlaps(p[1], c) for c in chosen)]
            if t in ("AQ2",):
                cands = [p for p in avail if p[2] == t and not any(overlaps(p[1], c) for c in chosen)]
            if not cands:
                return False
            text, steps, _ = r.choice(cands)
            chosen.append(steps)
            args_txt.append(text)
            root = steps[0][1]
            args_coq.append(f"CPlace {coq_place(fn.pos[root], steps[1:], fn)}")
        elif k == "i":
            if fn.idx_vars and r.random() < 0.5:
                v = r.choice(fn.idx_vars)
                args_txt.append(v)
                args_coq.append(f"CPlace (PVar {fn.pos[v]})")
            else:
                c = r.randrange(5)
                args_txt.append(str(c))
                args_coq.append(f"CExpr {c}")
        else:
            args_txt.append(str(r.randrange(1, 4)))
            args_coq.append("CExpr 0")
    fn.lines.append(f"{cname}({', '.join(args_txt)})")
    inputs = "; ".join(f"mkInput {TYPES[t][1]} {flags(k)}" for k, t in sig)
    fn.calls.append(f"mkCall {cid} [{inputs}] [{'; '.join(args_coq)}] {nret} None")
    return True


def gen_case(r, cid):
    leaves = []
    for i in range(3):
        sig, nret = gen_sig(r)
        leaves.append((f"f{i}", 10 + i, sig, nret))
    # a pure gate "callee"
    gates = [("h", 3, [("b", "Q")], 0), ("x", 4, [("b", "Q")], 0)]

    def mk_params(r, names):
        n = r.choice([2, 3, 3, 4])
        ps = [(names[i], r.choice(BORROWABLE + DROPPABLE)) for i in range(n)]
        return ps + [("i", "I"), ("j", "I")]

    g = Func("g", mk_params(r, ["u", "v", "w", "z"]))
    for _ in range(r.choice([1, 2, 3])):
        for _try in range(6):
            c = r.choice(leaves + gates)
            if add_call(r, g, c[0], c[1], c[2], c[3]):
                break
    if r.random() < 0.3:
        g.ret = "j"
    gsig = [("b" if t != "I" else "i", t) for _, t in g.params]
    gcallee = ("g", 20, gsig, 1 if g.ret else 0)
    if r.random() < 0.6:
        mp = [(n, t) for n, (_, t) in zip(["a", "b", "c", "d"], [p for p in g.params if p[1] != "I"])]
        r.shuffle(mp)
        m = Func("main", mp + [("i", "I"), ("j", "I")])
    else:
        m = Func("main", mk_params(r, ["a", "b", "c", "d"]))
    for _ in range(r.choice([2, 3, 4])):
        for _try in range(6):
            c = r.choice(leaves + gates + [gcallee, gcallee, gcallee])
            if add_call(r, m, c[0], c[1], c[2], c[3]):
                break
    if r.random() < 0.3:
        m.ret = "i"
    src = HEADER + "\n".join(decl_text(n, s, k) for n, _, s, k in leaves) + "\n" + g.text() + "\n" + m.text()
    names = {n: i for n, i, _, _ in leaves}
    names["g"] = 20
    names.update(FIXED_CALLEES)
    return {"id": cid, "src": src, "entry": ["main", "g"], "funcs": ["main", "g"],
            "coq": {"main": m.coq(), "g": g.coq()}, "callee_ids": names,
            "shape": {"main_calls": len(m.calls), "g_calls": len(g.calls),
                      "subscripts": (g.text() + m.text()).count("[i]") + (g.text() + m.text()).count("[j]"),
                      "effectful_indices": (g.text() + m.text()).count("[nxt"),
                      "temporaries_for_borrowed": g.temps + m.temps}}
