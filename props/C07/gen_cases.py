"""Generator of caller/callee programs for the C07 correspondence.  Every case yields
  * a Guppy module (text) with struct declarations, declared leaf callees, a mid-level
    function `g` (nested borrow) and `main`;
  * for each defined function the Coq term `run_function te params calls outs` that the
    model evaluates.
All randomness comes from the rng passed in."""

HEADER = """import repo_shim  # noqa
from guppylang import guppy
from guppylang.std.builtins import array, owned, comptime
from guppylang.std.quantum import qubit, h, x, discard


@guppy.struct
class S2:
    a: qubit
    b: qubit


@guppy.struct
class SA:
    xs: array[qubit, 3]
    ys: array[qubit, 3]


@guppy.struct
class N:
    s: S2
    t: S2
    q: qubit

"""

Q = "TAtom true"
# name -> (annotation, coq type, children [(suffix, type)], element type)
TYPES = {
    "Q": ("qubit", f"({Q})", [], None),
    "I": ("int", "(TAtom false)", [], None),
    "AQ": ("array[qubit, 3]", f"(TArr ({Q}))", [], "Q"),
    "AQ2": ("array[qubit, 2]", f"(TArr ({Q}))", [], "Q"),
    "S2": ("S2", f"(TProd [{Q}; {Q}])", [(".a", "Q"), (".b", "Q")], None),
    "TQ": ("tuple[qubit, qubit]", f"(TProd [{Q}; {Q}])", [("[0]", "Q"), ("[1]", "Q")], None),
    "SA": ("SA", f"(TProd [TArr ({Q}); TArr ({Q})])", [(".xs", "AQ"), (".ys", "AQ")], None),
    "N": ("N", f"(TProd [TProd [{Q}; {Q}]; TProd [{Q}; {Q}]; {Q}])", [(".s", "S2"), (".t", "S2"), (".q", "Q")], None),
    "AS": ("array[S2, 2]", f"(TArr (TProd [{Q}; {Q}]))", [], "S2"),
    "AA": ("array[array[qubit, 2], 2]", f"(TArr (TArr ({Q})))", [], "AQ2"),
    "TN": ("tuple[S2, qubit]", f"(TProd [TProd [{Q}; {Q}]; {Q}])", [("[0]", "S2"), ("[1]", "Q")], None),
}
BORROWABLE = ["Q", "AQ", "S2", "TQ", "SA", "N", "AS", "AA", "TN", "AQ2"]
EV = {"collections.borrow_arr.borrow": 1, "collections.borrow_arr.return": 2, "tket.quantum.H": 3, "tket.quantum.X": 4}
GATES = {"h": 3, "x": 4}


class Fresh:
    def __init__(self):
        self.n = 0

    def next(self):
        self.n += 1
        return self.n


def places(root, rty, idx_vars):
    """all places under a root: (text, steps, type); steps: ('c', i) | ('s', idxvar)"""
    out = []

    def go(text, steps, ty, depth):
        out.append((text, steps, ty))
        ann, coq, kids, elem = TYPES[ty]
        for i, (suf, kt) in enumerate(kids):
            go(text + suf, steps + [("c", i)], kt, depth)
        if elem and depth < 2:
            for v in idx_vars:
                go(f"{text}[{v}]", steps + [("s", v)], elem, depth + 1)

    go(root, [], rty, 0)
    return out


def overlaps(a, b):
    n = min(len(a), len(b))
    return a[:n] == b[:n]


def coq_place(root_id, steps, fresh, pos_of):
    t = f"(PVar {root_id})"
    for k, v in steps:
        if k == "c":
            t = f"(PChild {t} {v})"
        else:
            t = f"(PSub {t} {fresh.next() * 16 + pos_of[v]})"
    return t


def flags(kind):
    return {"b": "(mkFlags true false false)", "i": "(mkFlags false false false)",
            "c": "(mkFlags false false true)", "o": "(mkFlags false true false)"}[kind]


class Func:
    """a defined function under construction"""

    def __init__(self, name, params):
        self.name, self.params = name, params      # params: [(var, type)]
        self.pos = {v: i for i, (v, _) in enumerate(params)}
        self.idx_vars = [v for v, t in params if t == "I"]
        self.lines, self.calls = [], []
        self.fresh = Fresh()
        self.ret = None

    def all_places(self):
        out = []
        for v, t in self.params:
            if t != "I":
                for text, steps, ty in places(v, t, self.idx_vars):
                    out.append((text, [("r", v)] + steps, ty))
        return out

    def coq(self):
        te = " | ".join(f"{i} => {TYPES[t][1]}" for i, (_, t) in enumerate(self.params))
        te = f"(fun x => match x with {te} | _ => TAtom false end)"
        params = "[" + "; ".join(str(i) for i in range(len(self.params))) + "]"
        outs = ([self.pos[self.ret]] if self.ret else []) + [i for i, (_, t) in enumerate(self.params) if t != "I"]
        return f"(ser_result (run_function {te} {params} [{'; '.join(self.calls)}] [{'; '.join(map(str, outs))}]))"

    def text(self):
        ps = ", ".join(f"{v}: {TYPES[t][0]}" for v, t in self.params)
        body = self.lines + ([f"return {self.ret}"] if self.ret else [])
        return f"@guppy\ndef {self.name}({ps}) -> {'int' if self.ret else 'None'}:\n" + "\n".join("    " + l for l in (body or ["pass"])) + "\n"


def gen_sig(r, force_pair=True):
    """callee signature: list of (kind, type); at least two same-typed borrowed inputs"""
    n = r.choice([2, 2, 3, 3, 4])
    t0 = r.choice(BORROWABLE[:9])
    sig = [("b", t0), ("b", t0)] if force_pair else []
    while len(sig) < n:
        k = r.choice(["b", "b", "b", "i", "c"])
        sig.append((k, r.choice(BORROWABLE[:9]) if k == "b" else "I"))
    r.shuffle(sig)
    nret = r.choice([0, 0, 1, 2, 3])
    return sig, nret


def decl_text(name, sig, nret):
    ps = []
    for i, (k, t) in enumerate(sig):
        ann = TYPES[t][0] + (" @comptime" if k == "c" else "") + (" @owned" if k == "o" else "")
        ps.append(f"p{i}: {ann}")
    ret = {0: "None", 1: "int", 2: "tuple[int, int]", 3: "tuple[int, int, int]"}[nret]
    if any(k == "c" for k, _ in sig):
        val = {0: "pass", 1: "return 0", 2: "return (0, 1)", 3: "return (0, 1, 2)"}[nret]
        return f"@guppy\ndef {name}({', '.join(ps)}) -> {ret}:\n    {val}\n"
    return f"@guppy.declare\ndef {name}({', '.join(ps)}) -> {ret}: ...\n"


def add_call(r, fn, cname, cid, sig, nret):
    """append a call statement to fn; returns False when no disjoint places are available"""
    avail = fn.all_places()
    chosen, args_txt, args_coq = [], [], []
    for k, t in sig:
        if k == "b" or k == "o":
            cands = [p for p in avail if p[2] == t and not any(overlaps(p[1], c) for c in chosen)]
            if t in ("AQ2",):
                cands = [p for p in avail if p[2] == t and not any(overlaps(p[1], c) for c in chosen)]
            if not cands:
                return False
            text, steps, _ = r.choice(cands)
            chosen.append(steps)
            args_txt.append(text)
            root = steps[0][1]
            args_coq.append(f"CPlace {coq_place(fn.pos[root], steps[1:], fn.fresh, fn.pos)}")
        elif k == "i":
            if fn.idx_vars and r.random() < 0.5:
                v = r.choice(fn.idx_vars)
                args_txt.append(v)
                args_coq.append(f"CPlace (PVar {fn.pos[v]})")
            else:
                args_txt.append(str(r.randrange(5)))
                args_coq.append("CExpr 0")
        else:
            args_txt.append(str(r.randrange(1, 4)))
            args_coq.append("CExpr 0")
    fn.lines.append(f"{cname}({', '.join(args_txt)})")
    inputs = "; ".join(f"mkInput {TYPES[t][1]} {flags(k)}" for k, t in sig)
    fn.calls.append(f"mkCall {cid} [{inputs}] [{'; '.join(args_coq)}] {nret} None")
    return True


def gen_case(r, cid):
    leaves = []
    for i in range(3):
        sig, nret = gen_sig(r)
        leaves.append((f"f{i}", 10 + i, sig, nret))
    # a pure gate "callee"
    gates = [("h", 3, [("b", "Q")], 0), ("x", 4, [("b", "Q")], 0)]

    def mk_params(r, names):
        n = r.choice([2, 3, 3, 4])
        ps = [(names[i], r.choice(BORROWABLE[:9])) for i in range(n)]
        return ps + [("i", "I"), ("j", "I")]

    g = Func("g", mk_params(r, ["u", "v", "w", "z"]))
    for _ in range(r.choice([1, 2, 3])):
        for _try in range(6):
            c = r.choice(leaves + gates)
            if add_call(r, g, c[0], c[1], c[2], c[3]):
                break
    if r.random() < 0.3:
        g.ret = "j"
    gsig = [("b" if t != "I" else "i", t) for _, t in g.params]
    gcallee = ("g", 20, gsig, 1 if g.ret else 0)
    if r.random() < 0.6:
        mp = [(n, t) for n, (_, t) in zip(["a", "b", "c", "d"], [p for p in g.params if p[1] != "I"])]
        r.shuffle(mp)
        m = Func("main", mp + [("i", "I"), ("j", "I")])
    else:
        m = Func("main", mk_params(r, ["a", "b", "c", "d"]))
    for _ in range(r.choice([2, 3, 4])):
        for _try in range(6):
            c = r.choice(leaves + gates + [gcallee, gcallee, gcallee])
            if add_call(r, m, c[0], c[1], c[2], c[3]):
                break
    if r.random() < 0.3:
        m.ret = "i"
    src = HEADER + "\n".join(decl_text(n, s, k) for n, _, s, k in leaves) + "\n" + g.text() + "\n" + m.text()
    names = {n: i for n, i, _, _ in leaves}
    names["g"] = 20
    return {"id": cid, "src": src, "entry": ["main", "g"], "funcs": ["main", "g"],
            "coq": {"main": m.coq(), "g": g.coq()}, "callee_ids": names,
            "shape": {"main_calls": len(m.calls), "g_calls": len(g.calls),
                      "subscripts": (g.text() + m.text()).count("[i]") + (g.text() + m.text()).count("[j]")}}
